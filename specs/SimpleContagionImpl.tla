------------------------ MODULE SimpleContagionImpl ------------------------
(***************************************************************************)
(* Implementation-shaped specification of Gillespie_simple_contagion: one  *)
(* candidate set per transition (`potential_transitions`), filled at       *)
(* set-up and maintained INCREMENTALLY after every event by removing /     *)
(* inserting the modified node and its incident ordered pairs - the        *)
(* directed branch walks successors and predecessors, the undirected       *)
(* branch walks neighbours and treats both orientations.                   *)
(* TLC checks, for every scenario (user model x contact graph) of the file *)
(* EON_SCENARIOS and every status vector: after set-up and after every     *)
(* event  potential[t] = the nodes / ordered pairs that enable t under the *)
(* current statuses; no removal targets an absent candidate; and the loop  *)
(* refines the reference chain SimpleContagion with the same rate labels.  *)
(***************************************************************************)
EXTENDS SimpleContagion

VARIABLES potS, potI, bad

Directed == Scenarios[sc].directed = 1

ivars == <<sc, st, ev, potS, potI, bad>>
IView == <<sc, st, potS, potI, bad>>

EnabledS(j, S) == {u \in Nodes : S[u] = Spo[j].from}
EnabledI(j, S) == {<<u, v>> \in Nodes \X Nodes : u # v /\ Edge(u, v) /\ S[u] = Ind[j].a /\ S[v] = Ind[j].b}

ImplInit == /\ Init
        /\ potS = [j \in 1..Len(Spo) |-> EnabledS(j, st)]
        /\ potI = [j \in 1..Len(Ind) |-> EnabledI(j, st)]
        /\ bad = FALSE

\* the incremental update after node m changed from `old` to S2[m]
UpdS(j, m, old, S2) ==
    LET a == IF Spo[j].from = old THEN potS[j] \ {m} ELSE potS[j]
    IN IF Spo[j].from = S2[m] THEN a \cup {m} ELSE a
RemS(j, m, old) == IF Spo[j].from = old THEN {m} ELSE {}

RemI(j, m, old, S2) ==
    IF Directed
    THEN {<<m, x>> : x \in {y \in Nodes : Edge(m, y) /\ y # m /\ Ind[j].a = old /\ Ind[j].b = S2[y]}}
         \cup {<<p, m>> : p \in {y \in Nodes : Edge(y, m) /\ y # m /\ Ind[j].a = S2[y] /\ Ind[j].b = old}}
    ELSE {<<x, m>> : x \in {y \in Nodes : Edge(m, y) /\ y # m /\ Ind[j].a = S2[y] /\ Ind[j].b = old}}
         \cup {<<m, x>> : x \in {y \in Nodes : Edge(m, y) /\ y # m /\ Ind[j].a = old /\ Ind[j].b = S2[y]}}
AddI(j, m, S2) ==
    IF Directed
    THEN {<<m, x>> : x \in {y \in Nodes : Edge(m, y) /\ y # m /\ Ind[j].a = S2[m] /\ Ind[j].b = S2[y]}}
         \cup {<<p, m>> : p \in {y \in Nodes : Edge(y, m) /\ y # m /\ Ind[j].a = S2[y] /\ Ind[j].b = S2[m]}}
    ELSE {<<x, m>> : x \in {y \in Nodes : Edge(m, y) /\ y # m /\ Ind[j].a = S2[y] /\ Ind[j].b = S2[m]}}
         \cup {<<m, x>> : x \in {y \in Nodes : Edge(m, y) /\ y # m /\ Ind[j].a = S2[m] /\ Ind[j].b = S2[y]}}

Apply(m, new) ==
    LET old == st[m]
        S2 == [st EXCEPT ![m] = new]
    IN /\ st' = S2
       /\ potS' = [j \in 1..Len(Spo) |-> UpdS(j, m, old, S2)]
       /\ potI' = [j \in 1..Len(Ind) |-> (potI[j] \ RemI(j, m, old, S2)) \cup AddI(j, m, S2)]
       /\ bad' = (bad \/ (\E j \in 1..Len(Spo) : ~(RemS(j, m, old) \subseteq potS[j]))
                      \/ (\E j \in 1..Len(Ind) : ~(RemI(j, m, old, S2) \subseteq potI[j])))

FireSpont(j, u) ==
    /\ u \in potS[j] /\ SpontRate(j, u) > 0
    /\ Apply(u, Spo[j].to)
    /\ ev' = <<"S", u, 0, Spo[j].to, SpontRate(j, u)>>
    /\ UNCHANGED sc

FireInduced(j, u, v) ==
    /\ <<u, v>> \in potI[j] /\ InducedRate(j, u, v) > 0
    /\ Apply(v, Ind[j].c)
    /\ ev' = <<"N", u, v, Ind[j].c, InducedRate(j, u, v)>>
    /\ UNCHANGED sc

ImplDoSpont   == \E j \in 1..Len(Spo) : \E u \in Nodes : FireSpont(j, u)
ImplDoInduced == \E j \in 1..Len(Ind) : \E u, v \in Nodes : FireInduced(j, u, v)
ImplNext == ImplDoSpont \/ ImplDoInduced
ImplSpec == ImplInit /\ [][ImplNext]_ivars

PotentialExact ==
    /\ \A j \in 1..Len(Spo) : potS[j] = EnabledS(j, st)
    /\ \A j \in 1..Len(Ind) : potI[j] = EnabledI(j, st)
NoBadRemove == ~bad
RefinesSimpleContagion == Spec
=============================================================================

---------------------------- MODULE NetEpiLimits ----------------------------
(***************************************************************************)
(* The two limiting cases of the network SIR / SIS chain that property C08 *)
(* (clauses 3 and 4) relies on, stated on NetEpi itself and checked by TLC *)
(* on every weighted graph / status vector of the configured bound.        *)
(*                                                                         *)
(* tau = 0  (configuration TauSet = {0}):                                  *)
(*   no Transmit(u,v) is ever enabled; every step is a Recover(u) whose    *)
(*   rate gam*g[u] depends on u alone and which changes u alone - the      *)
(*   chain is a product of independent one-node chains I -> R (or I -> S)  *)
(*   and the number of susceptible nodes is constant (SIR) / grows by one  *)
(*   per step (SIS).  The one-node chain's survival function, taken from   *)
(*   the emitted one-node state graph, is what I(t)/I(0) is compared with. *)
(*                                                                         *)
(* gam = 0  (configuration GamSet = {0}, SIS = TRUE so that Init ranges    *)
(*   over the R-free status vectors):                                      *)
(*   the SIS and the SIR instance of NetEpi have the same enabled steps    *)
(*   and the same successor states - one transition graph, hence the same  *)
(*   S(t) for any model derived from either.                               *)
(***************************************************************************)
EXTENDS NetEpi

CountIn(s, x) == Cardinality({u \in Node : s[u] = x})

-----------------------------------------------------------------------------
(* tau = 0 *)
NoTransmitEnabled == \A u, v \in Node : ~ ENABLED Transmit(u, v)

OnlyRecover ==
    [][\E u \in Node :
          /\ st[u] = "I"
          /\ ev' = <<"R", u, 0, gam * g[u]>>                   \* rate: a function of u alone
          /\ \A x \in Node \ {u} : st'[x] = st[x]              \* effect: on u alone
          /\ st'[u] = (IF SIS THEN "S" ELSE "R")]_vars

SusceptiblesUntouched ==
    [][IF SIS THEN CountIn(st', "S") = CountIn(st, "S") + 1
              ELSE \A u \in Node : (st[u] = "S") <=> (st'[u] = "S")]_vars

InfectedOnlyLeave == [][CountIn(st', "I") = CountIn(st, "I") - 1]_vars

-----------------------------------------------------------------------------
(* gam = 0 *)
AsSIS == INSTANCE NetEpi WITH SIS <- TRUE
AsSIR == INSTANCE NetEpi WITH SIS <- FALSE

\* behaviours that may take steps of either instance
SpecBoth == Init /\ [][AsSIS!Next \/ AsSIR!Next]_vars

SameSteps   == [][AsSIS!Next <=> AsSIR!Next]_vars
SameEnabled == (ENABLED AsSIS!Next) <=> (ENABLED AsSIR!Next)
NoRecovered == \A u \in Node : st[u] # "R"
NoRecoverEnabled == \A u \in Node : ~ ENABLED AsSIS!Recover(u) /\ ~ ENABLED AsSIR!Recover(u)
=============================================================================

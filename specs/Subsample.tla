------------------------------ MODULE Subsample ------------------------------
(***************************************************************************)
(* Step semantics of the two time-series helpers of EoN/auxiliary.py       *)
(* (property C20):                                                         *)
(*                                                                         *)
(*   subsample(report_times, times, status1 [, status2 [, status3]])       *)
(*   get_time_shift(times, L, threshold)                                   *)
(*                                                                         *)
(* Part 1 (reference, declarative) says what the API promises:             *)
(*   Sub(report, times, vals)[i] = vals[ max{ j : times[j] <= report[i] } ]*)
(*   under the precondition report[1] >= times[1]; the value of the last   *)
(*   observation is held for every later report time; a series is a step   *)
(*   function that is continuous from the right (an observation AT the     *)
(*   report time counts, and of several observations at one time the LAST  *)
(*   one counts).                                                          *)
(*   FirstReach(times, L, th) = times[ min{ i : L[i] >= th } ].            *)
(*                                                                         *)
(* Part 2 (implementation-shaped) is the two-pointer scan of               *)
(* auxiliary.py:105-129 and the for/break loop of auxiliary.py:187-190 as  *)
(* a PlusCal algorithm, one label per loop head, the recursion of          *)
(* subsample over status2/status3 as a recursive procedure.                *)
(*                                                                         *)
(* TLC checks  algorithm = definition  for ALL ordered report/time grids   *)
(* over the time domain 0..TMax with lengths 1..MaxLen (ties between the   *)
(* grids, repeated times inside a grid), for one, two and three series     *)
(* (Part 3), and, with EmitOnly = TRUE, prints  input |-> expected output  *)
(* computed from the DEFINITION for the conformance harness (checks/c20.py)*)
(* which calls the real functions on every printed input.                  *)
(*                                                                         *)
(* Indices are 1-based here and 0-based in Python.                         *)
(***************************************************************************)
EXTENDS Integers, Sequences, FiniteSets, TLC

CONSTANTS TMax,      \* time domain is 0..TMax (ticks)
          MaxLen,    \* grids have 1..MaxLen entries
          ValDom,    \* values of a quantified series (subset of Nat)
          LDom,      \* values of the series given to get_time_shift
          ThDom,     \* thresholds given to get_time_shift
          EmitOnly   \* TRUE: print input |-> definition, do not run the scan

ASSUME /\ TMax \in Nat /\ MaxLen \in Nat \ {0}
       /\ ValDom \subseteq Nat /\ LDom \subseteq Nat /\ ThDom \subseteq Nat
       /\ EmitOnly \in BOOLEAN

Undef == -1     \* "name not bound yet" (candidate / t before the first assignment)

-----------------------------------------------------------------------------
(* Part 1: reference definitions                                            *)

IsOrdered(s) == \A i \in 1..(Len(s) - 1) : s[i] <= s[i + 1]

\* every ordered grid over the time domain: ties and repeated values included
Grids == UNION {{s \in [1..n -> 0..TMax] : IsOrdered(s)} : n \in 1..MaxLen}

SetMax(S) == CHOOSE x \in S : \A y \in S : y <= x
SetMin(S) == CHOOSE x \in S : \A y \in S : x <= y

\* observations at or before time r
AtOrBefore(tm, r) == {j \in 1..Len(tm) : tm[j] <= r}

\* the precondition of subsample: the first report is not before the first observation
Pre(rep, tm) == rep[1] >= tm[1]

\* index of the last observation at or before r (defined iff r >= tm[1])
LastIdx(tm, r) == SetMax(AtOrBefore(tm, r))

Sub(rep, tm, vals) == [i \in 1..Len(rep) |-> vals[LastIdx(tm, rep[i])]]

\* one, two or three series are subsampled independently, in argument order
SubAll(rep, tm, ser) == [s \in 1..Len(ser) |-> Sub(rep, tm, ser[s])]

\* get_time_shift
ReachSet(L, thr)        == {i \in 1..Len(L) : L[i] >= thr}
Reached(L, thr)         == ReachSet(L, thr) # {}
FirstReach(tm, L, thr)  == tm[SetMin(ReachSet(L, thr))]      \* defined iff Reached

-----------------------------------------------------------------------------
(* The input family                                                         *)

\* three fixed series shapes that are pairwise different for every length:
\* all values distinct (the output reveals the index that was read), decreasing,
\* and with repeated values
Ident(n) == [j \in 1..n |-> j + 2]
Rev(n)   == [j \in 1..n |-> 10 + n - j]
Half(n)  == [j \in 1..n |-> j \div 2]

SeriesTuples(n) ==
         {<<s>> : s \in [1..n -> ValDom] \cup {Ident(n)}}          \* one series: all value vectors
    \cup {<<Ident(n), Half(n)>>, <<Rev(n), Ident(n)>>}             \* two series
    \cup {<<Ident(n), Rev(n), Half(n)>>, <<Half(n), Ident(n), Rev(n)>>}   \* three series

(***************************************************************************
--algorithm Subsample {
  variables
     entry  \in {"subsample", "get_time_shift"},
     times  \in Grids,
     report \in IF entry = "subsample" THEN Grids ELSE {<< >>},
     series \in IF entry = "subsample" THEN SeriesTuples(Len(times))
                ELSE {<<l>> : l \in [1..Len(times) -> LDom]},
     th     \in IF entry = "subsample" THEN {0} ELSE ThDom,
     result = << >>,        \* the returned value
     raised = FALSE;        \* EoNError("report_times[0]<times[0]")

  \* subsample(report_times, times, series[first], ..., series[Len(series)])
  procedure subsample(first)
    variables ri = 1,        \* next_report_index + 1
              oi = 1,        \* next_observation_index + 1
              cand = Undef,  \* candidate
              out = << >>;   \* report_status1
  {
    pre:   if (report[1] < times[1]) { raised := TRUE; return; };
    outer: while (ri <= Len(report)) {
    inner:    while (oi <= Len(times) /\ times[oi] <= report[ri]) {
                 cand := series[first][oi];
                 oi := oi + 1;
              };
              out := Append(out, cand);
              ri := ri + 1;
           };
    rec:   if (first < Len(series)) {
              call subsample(first + 1);      \* subsample(report_times, times, status2[, status3])
    join:     if (~ raised) { result := <<out>> \o result; };
              return;
           } else {
              result := <<out>>;
              return;
           }
  }

  \* get_time_shift(times, series[1], th)
  procedure get_time_shift()
    variables index = 1, t = Undef;
  {
    loop:  while (index <= Len(times)) {
              t := times[index];
              if (series[1][index] >= th) { goto gfin; };      \* break
    next:     index := index + 1;
           };
    gfin:  result := t;
           return;
  }

  {
    main:  if (EmitOnly) {
              if (entry = "subsample") {
                 if (Pre(report, times)) {
                    print <<"SUB", report, times, series, SubAll(report, times, series)>>;
                 }
              } else {
                 print <<"GTS", times, series[1], th,
                         IF Reached(series[1], th)
                         THEN <<"at", FirstReach(times, series[1], th)>>
                         ELSE <<"never">> >>;
              }
           } else if (entry = "subsample") {
              call subsample(1);
           } else {
              call get_time_shift();
           };
    fin:   skip;
  }
}
 ***************************************************************************)
\* BEGIN TRANSLATION
CONSTANT defaultInitValue
VARIABLES pc, entry, times, report, series, th, result, raised, stack, first, 
          ri, oi, cand, out, index, t

vars == << pc, entry, times, report, series, th, result, raised, stack, first, 
           ri, oi, cand, out, index, t >>

Init == (* Global variables *)
        /\ entry \in {"subsample", "get_time_shift"}
        /\ times \in Grids
        /\ report \in (IF entry = "subsample" THEN Grids ELSE {<< >>})
        /\ series \in (IF entry = "subsample" THEN SeriesTuples(Len(times))
                       ELSE {<<l>> : l \in [1..Len(times) -> LDom]})
        /\ th \in (IF entry = "subsample" THEN {0} ELSE ThDom)
        /\ result = << >>
        /\ raised = FALSE
        (* Procedure subsample *)
        /\ first = defaultInitValue
        /\ ri = 1
        /\ oi = 1
        /\ cand = Undef
        /\ out = << >>
        (* Procedure get_time_shift *)
        /\ index = 1
        /\ t = Undef
        /\ stack = << >>
        /\ pc = "main"

pre == /\ pc = "pre"
       /\ IF report[1] < times[1]
             THEN /\ raised' = TRUE
                  /\ pc' = Head(stack).pc
                  /\ ri' = Head(stack).ri
                  /\ oi' = Head(stack).oi
                  /\ cand' = Head(stack).cand
                  /\ out' = Head(stack).out
                  /\ first' = Head(stack).first
                  /\ stack' = Tail(stack)
             ELSE /\ pc' = "outer"
                  /\ UNCHANGED << raised, stack, first, ri, oi, cand, out >>
       /\ UNCHANGED << entry, times, report, series, th, result, index, t >>

outer == /\ pc = "outer"
         /\ IF ri <= Len(report)
               THEN /\ pc' = "inner"
               ELSE /\ pc' = "rec"
         /\ UNCHANGED << entry, times, report, series, th, result, raised, 
                         stack, first, ri, oi, cand, out, index, t >>

inner == /\ pc = "inner"
         /\ IF oi <= Len(times) /\ times[oi] <= report[ri]
               THEN /\ cand' = series[first][oi]
                    /\ oi' = oi + 1
                    /\ pc' = "inner"
                    /\ UNCHANGED << ri, out >>
               ELSE /\ out' = Append(out, cand)
                    /\ ri' = ri + 1
                    /\ pc' = "outer"
                    /\ UNCHANGED << oi, cand >>
         /\ UNCHANGED << entry, times, report, series, th, result, raised, 
                         stack, first, index, t >>

rec == /\ pc = "rec"
       /\ IF first < Len(series)
             THEN /\ /\ first' = first + 1
                     /\ stack' = << [ procedure |->  "subsample",
                                      pc        |->  "join",
                                      ri        |->  ri,
                                      oi        |->  oi,
                                      cand      |->  cand,
                                      out       |->  out,
                                      first     |->  first ] >>
                                  \o stack
                  /\ ri' = 1
                  /\ oi' = 1
                  /\ cand' = Undef
                  /\ out' = << >>
                  /\ pc' = "pre"
                  /\ UNCHANGED result
             ELSE /\ result' = <<out>>
                  /\ pc' = Head(stack).pc
                  /\ ri' = Head(stack).ri
                  /\ oi' = Head(stack).oi
                  /\ cand' = Head(stack).cand
                  /\ out' = Head(stack).out
                  /\ first' = Head(stack).first
                  /\ stack' = Tail(stack)
       /\ UNCHANGED << entry, times, report, series, th, raised, index, t >>

join == /\ pc = "join"
        /\ IF ~ raised
              THEN /\ result' = <<out>> \o result
              ELSE /\ TRUE
                   /\ UNCHANGED result
        /\ pc' = Head(stack).pc
        /\ ri' = Head(stack).ri
        /\ oi' = Head(stack).oi
        /\ cand' = Head(stack).cand
        /\ out' = Head(stack).out
        /\ first' = Head(stack).first
        /\ stack' = Tail(stack)
        /\ UNCHANGED << entry, times, report, series, th, raised, index, t >>

subsample == pre \/ outer \/ inner \/ rec \/ join

loop == /\ pc = "loop"
        /\ IF index <= Len(times)
              THEN /\ t' = times[index]
                   /\ IF series[1][index] >= th
                         THEN /\ pc' = "gfin"
                         ELSE /\ pc' = "next"
              ELSE /\ pc' = "gfin"
                   /\ t' = t
        /\ UNCHANGED << entry, times, report, series, th, result, raised, 
                        stack, first, ri, oi, cand, out, index >>

next == /\ pc = "next"
        /\ index' = index + 1
        /\ pc' = "loop"
        /\ UNCHANGED << entry, times, report, series, th, result, raised, 
                        stack, first, ri, oi, cand, out, t >>

gfin == /\ pc = "gfin"
        /\ result' = t
        /\ pc' = Head(stack).pc
        /\ index' = Head(stack).index
        /\ t' = Head(stack).t
        /\ stack' = Tail(stack)
        /\ UNCHANGED << entry, times, report, series, th, raised, first, ri, 
                        oi, cand, out >>

get_time_shift == loop \/ next \/ gfin

main == /\ pc = "main"
        /\ IF EmitOnly
              THEN /\ IF entry = "subsample"
                         THEN /\ IF Pre(report, times)
                                    THEN /\ PrintT(<<"SUB", report, times, series, SubAll(report, times, series)>>)
                                    ELSE /\ TRUE
                         ELSE /\ PrintT(<<"GTS", times, series[1], th,
                                          IF Reached(series[1], th)
                                          THEN <<"at", FirstReach(times, series[1], th)>>
                                          ELSE <<"never">> >>)
                   /\ pc' = "fin"
                   /\ UNCHANGED << stack, first, ri, oi, cand, out, index, t >>
              ELSE /\ IF entry = "subsample"
                         THEN /\ /\ first' = 1
                                 /\ stack' = << [ procedure |->  "subsample",
                                                  pc        |->  "fin",
                                                  ri        |->  ri,
                                                  oi        |->  oi,
                                                  cand      |->  cand,
                                                  out       |->  out,
                                                  first     |->  first ] >>
                                              \o stack
                              /\ ri' = 1
                              /\ oi' = 1
                              /\ cand' = Undef
                              /\ out' = << >>
                              /\ pc' = "pre"
                              /\ UNCHANGED << index, t >>
                         ELSE /\ stack' = << [ procedure |->  "get_time_shift",
                                               pc        |->  "fin",
                                               index     |->  index,
                                               t         |->  t ] >>
                                           \o stack
                              /\ index' = 1
                              /\ t' = Undef
                              /\ pc' = "loop"
                              /\ UNCHANGED << first, ri, oi, cand, out >>
        /\ UNCHANGED << entry, times, report, series, th, result, raised >>

fin == /\ pc = "fin"
       /\ TRUE
       /\ pc' = "Done"
       /\ UNCHANGED << entry, times, report, series, th, result, raised, stack, 
                       first, ri, oi, cand, out, index, t >>

(* Allow infinite stuttering to prevent deadlock on termination. *)
Terminating == pc = "Done" /\ UNCHANGED vars

Next == subsample \/ get_time_shift \/ main \/ fin
           \/ Terminating

Spec == Init /\ [][Next]_vars

Termination == <>(pc = "Done")

\* END TRANSLATION

-----------------------------------------------------------------------------
(* Part 3: what TLC checks                                                  *)

K == Len(series)
M == Len(report)
N == Len(times)

\* the scan of the frame that is running (series number `first`)
InScan     == pc \in {"outer", "inner"}
InnerCond  == oi <= N /\ times[oi] <= report[ri]
Cur        == series[first]

\* candidate is bound whenever it is appended: this is what the precondition buys
CandBound == (pc = "inner" /\ ~ InnerCond) => cand # Undef

\* loop invariant of the two-pointer scan
ScanInv ==
    InScan =>
       /\ ri \in 1..(M + 1) /\ oi \in 1..(N + 1)
       /\ Len(out) = ri - 1
       /\ \A i \in 1..(ri - 1) : out[i] = Sub(report, times, Cur)[i]      \* reported prefix is right
       /\ cand = IF oi = 1 THEN Undef ELSE Cur[oi - 1]                     \* candidate = last consumed
       /\ (pc = "outer") =>                                                \* consumed exactly the observations
             oi - 1 = IF ri = 1 THEN 0 ELSE LastIdx(times, report[ri - 1]) \* up to the last report served
       /\ (pc = "inner") =>
             /\ ri <= M
             /\ \A j \in 1..(oi - 1) : times[j] <= report[ri]              \* never runs ahead of the report time
             /\ (ri > 1) => oi - 1 >= LastIdx(times, report[ri - 1])       \* never goes back

\* algorithm = definition (one, two, three series), and the raise exactly when
\* the precondition fails
SubCorrect ==
    (pc = "Done" /\ ~ EmitOnly /\ entry = "subsample") =>
        /\ raised <=> ~ Pre(report, times)
        /\ Pre(report, times) => result = SubAll(report, times, series)
        /\ ~ Pre(report, times) => result = << >>

\* consequences of the definition that the property text spells out
StepSemantics ==
    (pc = "main" /\ entry = "subsample" /\ Pre(report, times)) =>
       \A s \in 1..K : \A i \in 1..M :
          LET j == LastIdx(times, report[i]) IN
             /\ times[j] <= report[i]                                     \* at or before
             /\ (j < N) => times[j + 1] > report[i]                       \* and the last such
             /\ (report[i] >= times[N]) => Sub(report, times, series[s])[i] = series[s][N]  \* final value held
             /\ (i > 1) => LastIdx(times, report[i - 1]) <= j             \* never goes back

\* get_time_shift: first time at which the series reaches the threshold.  When the
\* threshold is never reached the property promises nothing; the model of the code
\* returns the last time (recorded here as a fact about the algorithm, not demanded
\* from the implementation by the harness).
ShiftCorrect ==
    (pc = "Done" /\ ~ EmitOnly /\ entry = "get_time_shift") =>
        /\ Reached(series[1], th) => result = FirstReach(times, series[1], th)
        /\ ~ Reached(series[1], th) => result = times[N]
ShiftInv ==
    (pc \in {"loop", "next"}) =>
        /\ index \in 1..(N + 1)
        /\ \A i \in 1..(index - 1) : series[1][i] < th
        /\ (pc = "next") => series[1][index] < th /\ t = times[index]

\* the only state without a successor is the final one
NoStuck == (pc # "Done") => ENABLED Next

\* termination by a variant that every step decreases
BIG == 3 * MaxLen + 8
Variant ==
    CASE pc = "main"  -> BIG * 5
      [] pc = "pre"   -> BIG * (K - first + 1) + 2 * (M + 1) + N + 4
      [] pc = "outer" -> BIG * (K - first + 1) + 2 * (M - ri + 1) + (N - oi + 1) + 2
      [] pc = "inner" -> BIG * (K - first + 1) + 2 * (M - ri + 1) + (N - oi + 1) + 1
      [] pc = "rec"   -> BIG * (K - first + 1)
      [] pc = "join"  -> Len(stack) + 1
      [] pc = "loop"  -> 2 * (N - index + 1) + 3
      [] pc = "next"  -> 2 * (N - index + 1) + 2
      [] pc = "gfin"  -> 2
      [] pc = "fin"   -> 1
      [] pc = "Done"  -> 0
Decreases == [][Variant' < Variant]_vars

\* the inputs never change (the functions do not write to their arguments in the model)
InputsFrozen == [][UNCHANGED <<entry, times, report, series, th>>]_vars
=============================================================================

------------------------------ MODULE InitCond ------------------------------
(***************************************************************************)
(* Reference definition of every initial quantity that the ODE entry       *)
(* points of EoN/analytic.py derive from a contact network and an initial  *)
(* condition (property C06, part (a); also the source of the initial       *)
(* values fed to the graph-free solvers in part (b)).                      *)
(*                                                                         *)
(* Every quantity is defined DECLARATIVELY as the number of configurations *)
(* (nodes, ordered adjacent pairs, nodes with a given neighbourhood) in    *)
(* the initial status vector.  Two ways of giving the initial condition:   *)
(*   mode = "sets": explicit disjoint sets inf / rec (point mass);         *)
(*   mode = "rho" : every node infected independently with probability     *)
(*                  rho = a/b, nobody recovered; the quantity is the       *)
(*                  EXPECTED count, an exact rational num / den with       *)
(*                  den = b^n, obtained by brute force over all 2^n        *)
(*                  infected sets.                                         *)
(* The graph, the initial condition and rho are variables chosen in Init   *)
(* and frozen, so one TLC run quantifies over every labelled graph on      *)
(* 2..MaxN nodes (isolated nodes included) and every initial condition of  *)
(* the family.  TLC checks that the counting conventions are mutually      *)
(* consistent (invariant Consistent), that the closed forms the docstrings *)
(* state for rho equal the brute-force expectation (ClosedForms), and the  *)
(* action Emit prints scenario |-> expected values for the conformance     *)
(* harness (harness/c06_init.py), which calls the real wrappers.           *)
(***************************************************************************)
EXTENDS Naturals, Integers, FiniteSets, Sequences, TLC, Json

CONSTANTS MaxN,     \* all labelled graphs on 2..MaxN nodes (when Fixed is empty)
          RhoSet,   \* set of <<a, b>> with 0 < a < b : rho = a/b
          Fixed,    \* sequence of <<n, set of <<u,v>> (u<v)>> : if non-empty, ONLY these graphs
          SetsToo,  \* BOOLEAN: explore explicit initial sets (FALSE: rho scenarios only)
          MaxInf,   \* explicit sets: at most MaxInf initially infected nodes ...
          MaxRec    \* ... and at most MaxRec initially recovered nodes (caps for the larger Fixed graphs)

VARIABLES n,      \* number of nodes; Node == 1..n
          E,      \* set of <<u, v>>, u < v : the edges
          mode,   \* "sets" or "rho"
          inf,    \* initially infected nodes   (mode = "sets")
          rec,    \* initially recovered nodes  (mode = "sets")
          rho,    \* <<a, b>>                   (mode = "rho"; <<0, 1>> otherwise)
          phase   \* "chosen" -> "emitted"

vars == <<n, E, mode, inf, rec, rho, phase>>

Node     == 1..n
PairsOf(m) == {p \in (1..m) \X (1..m) : p[1] < p[2]}
Adj(u, v) == <<u, v>> \in E \/ <<v, u>> \in E
Nbr(u)   == {v \in Node : Adj(u, v)}
Deg(u)   == Cardinality(Nbr(u))
OPairs   == {p \in Node \X Node : Adj(p[1], p[2])}    \* ordered adjacent pairs
M2       == Cardinality(OPairs)                       \* = 2 * number of edges
Degs     == 0..(n - 1)                                \* dense degree index

RECURSIVE SumF(_, _)
SumF(f, D) == IF D = {} THEN 0
              ELSE LET e == CHOOSE d \in D : TRUE IN f[e] + SumF(f, D \ {e})
RECURSIVE Pow(_, _)
Pow(x, k) == IF k = 0 THEN 1 ELSE x * Pow(x, k - 1)
RECURSIVE Fact(_)
Fact(k) == IF k = 0 THEN 1 ELSE k * Fact(k - 1)
Binom(m, k) == Fact(m) \div (Fact(k) * Fact(m - k))

(***************************************************************************)
(* Point-mass configuration counts for infected set A and recovered set R. *)
(***************************************************************************)
St(A, R, u) == IF u \in A THEN "I" ELSE IF u \in R THEN "R" ELSE "S"
NbrIn(A, R, u, x) == Cardinality({v \in Nbr(u) : St(A, R, v) = x})

\* nodes of status x / of status x and degree k
CNode(A, R, x)     == Cardinality({u \in Node : St(A, R, u) = x})
CNodeK(A, R, x, k) == Cardinality({u \in Node : St(A, R, u) = x /\ Deg(u) = k})
\* ORDERED adjacent pairs (u,v) with u of status x and v of status y:
\* an S-S edge is counted twice in [SS], an S-I edge once in [SI] and once in [IS]
CPair(A, R, x, y)  == Cardinality({p \in OPairs : St(A, R, p[1]) = x /\ St(A, R, p[2]) = y})
CPairKL(A, R, x, y, k, l) ==
    Cardinality({p \in OPairs : /\ St(A, R, p[1]) = x /\ St(A, R, p[2]) = y
                                /\ Deg(p[1]) = k /\ Deg(p[2]) = l})
\* effective-degree classes: nodes of status x with s susceptible and i infected neighbours
CEff(A, R, x, s, i) ==
    Cardinality({u \in Node : /\ St(A, R, u) = x
                              /\ NbrIn(A, R, u, "S") = s /\ NbrIn(A, R, u, "I") = i})
\* compact effective degree: susceptible nodes with kappa non-recovered neighbours
CKappa(A, R, kap) ==
    Cardinality({u \in Node : /\ St(A, R, u) = "S"
                              /\ NbrIn(A, R, u, "S") + NbrIn(A, R, u, "I") = kap})
\* node-level and pair-level indicators (individual-based / pair-based models)
Ind(A, R, u, x)       == IF St(A, R, u) = x THEN 1 ELSE 0
IndP(A, R, u, v, x, y) == IF Adj(u, v) /\ St(A, R, u) = x /\ St(A, R, v) = y THEN 1 ELSE 0

(***************************************************************************)
(* The value of a quantity F(A, R) under the scenario of the current       *)
(* state, as a numerator over Den.                                         *)
(***************************************************************************)
a == rho[1]
b == rho[2]
Den == IF mode = "sets" THEN 1 ELSE Pow(b, n)
W(A) == Pow(a, Cardinality(A)) * Pow(b - a, n - Cardinality(A))
Val(F(_, _)) == IF mode = "sets" THEN F(inf, rec)
                ELSE SumF([A \in SUBSET Node |-> W(A) * F(A, {})], SUBSET Node)

Vec(F(_, _, _), D)     == [k \in D |-> LET G(A, R) == F(A, R, k) IN Val(G)]
Mat(F(_, _, _, _), D)  == [k \in D |-> [l \in D |-> LET G(A, R) == F(A, R, k, l) IN Val(G)]]

S0 == LET G(A, R) == CNode(A, R, "S") IN Val(G)
I0 == LET G(A, R) == CNode(A, R, "I") IN Val(G)
R0 == LET G(A, R) == CNode(A, R, "R") IN Val(G)
Nk == [k \in Degs |-> Cardinality({u \in Node : Deg(u) = k})]
Sk0 == LET F(A, R, k) == CNodeK(A, R, "S", k) IN Vec(F, Degs)
Ik0 == LET F(A, R, k) == CNodeK(A, R, "I", k) IN Vec(F, Degs)
Rk0 == LET F(A, R, k) == CNodeK(A, R, "R", k) IN Vec(F, Degs)
PairCount(x, y) == LET G(A, R) == CPair(A, R, x, y) IN Val(G)
SS0 == PairCount("S", "S")
SI0 == PairCount("S", "I")
II0 == PairCount("I", "I")
SR0 == PairCount("S", "R")
IR0 == PairCount("I", "R")
RR0 == PairCount("R", "R")
NkNl  == [k \in Degs |-> [l \in Degs |->
            Cardinality({p \in OPairs : Deg(p[1]) = k /\ Deg(p[2]) = l})]]
SkSl0 == LET F(A, R, k, l) == CPairKL(A, R, "S", "S", k, l) IN Mat(F, Degs)
SkIl0 == LET F(A, R, k, l) == CPairKL(A, R, "S", "I", k, l) IN Mat(F, Degs)
IkIl0 == LET F(A, R, k, l) == CPairKL(A, R, "I", "I", k, l) IN Mat(F, Degs)
Ssi0  == LET F(A, R, s, i) == CEff(A, R, "S", s, i) IN Mat(F, Degs)
Isi0  == LET F(A, R, s, i) == CEff(A, R, "I", s, i) IN Mat(F, Degs)
Skappa0 == LET F(A, R, k) == CKappa(A, R, k) IN Vec(F, Degs)
X0 == LET F(A, R, u) == Ind(A, R, u, "S") IN Vec(F, Node)
Y0 == LET F(A, R, u) == Ind(A, R, u, "I") IN Vec(F, Node)
Z0 == LET F(A, R, u) == Ind(A, R, u, "R") IN Vec(F, Node)
XY0 == LET F(A, R, u, v) == IndP(A, R, u, v, "S", "I") IN Mat(F, Node)
XX0 == LET F(A, R, u, v) == IndP(A, R, u, v, "S", "S") IN Mat(F, Node)

\* EBCM: theta(t) = probability that a random edge has not transmitted to its (test) end
\* by time t; nothing has been transmitted at tmin, so theta(tmin) = 1 (numerator over Den)
Theta0 == Den

(***************************************************************************)
(* Mutual consistency of the counting conventions.                         *)
(***************************************************************************)
SumV(f)    == SumF(f, DOMAIN f)
SumM(m)    == SumF([k \in DOMAIN m |-> SumV(m[k])], DOMAIN m)
WSumM(m, c(_, _)) == SumF([k \in DOMAIN m |-> SumF([l \in DOMAIN m[k] |-> c(k, l) * m[k][l]], DOMAIN m[k])],
                          DOMAIN m)

Consistent ==
    LET s == S0  i == I0  r == R0
        sk == Sk0  ik == Ik0  rk == Rk0
        ss == SS0  si == SI0  ii == II0  sr == SR0  ir == IR0  rr == RR0
        sksl == SkSl0  skil == SkIl0  ikil == IkIl0
        ssi == Ssi0  isi == Isi0  skap == Skappa0
        x == X0  y == Y0  z == Z0  xy == XY0  xx == XX0
        Cs(k, l) == k
        Ci(k, l) == l
    IN
    /\ s + i + r = n * Den                                   \* population
    /\ SumV(sk) = s /\ SumV(ik) = i /\ SumV(rk) = r          \* degree classes partition the compartments
    /\ \A k \in Degs : sk[k] + ik[k] + rk[k] = Nk[k] * Den
    /\ ss + 2 * si + ii + 2 * sr + 2 * ir + rr = M2 * Den    \* every ordered adjacent pair exactly once
    /\ (mode = "sets" /\ rec = {}) => ss + 2 * si + ii = M2  \* restricted to the statuses present
    /\ mode = "rho" => (sr = 0 /\ ir = 0 /\ rr = 0 /\ r = 0)
    /\ \A k \in Degs : \A l \in Degs :                       \* symmetry of the like-status pair matrices
          /\ sksl[k][l] = sksl[l][k] /\ ikil[k][l] = ikil[l][k] /\ NkNl[k][l] = NkNl[l][k]
    /\ SumM(sksl) = ss /\ SumM(skil) = si /\ SumM(ikil) = ii /\ SumM(NkNl) = M2
    /\ \A k \in Degs : SumV(NkNl[k]) = k * Nk[k]             \* stubs of degree-k nodes
    /\ \A k \in Degs : SumV(sksl[k]) + SumV(skil[k]) <= k * sk[k]
    /\ SumM(ssi) = s /\ WSumM(ssi, Cs) = ss /\ WSumM(ssi, Ci) = si
    /\ SumM(isi) = i /\ WSumM(isi, Cs) = si /\ WSumM(isi, Ci) = ii
    /\ SumV(skap) = s /\ SumF([k \in Degs |-> k * skap[k]], Degs) = ss + si
    /\ SumV(x) = s /\ SumV(y) = i /\ SumV(z) = r
    /\ \A u \in Node : x[u] + y[u] + z[u] = Den
    /\ SumM(xy) = si /\ SumM(xx) = ss
    /\ \A u \in Node : \A v \in Node : xx[u][v] = xx[v][u] /\ (~Adj(u, v) => xx[u][v] = 0 /\ xy[u][v] = 0)

(***************************************************************************)
(* Closed forms the docstrings give for a uniformly random fraction rho    *)
(* ("(1-rho) Nk", "(1-rho)^2 NkNl", binomial effective-degree classes)     *)
(* equal the brute-force expectation.  All in integers: value = num / Den. *)
(***************************************************************************)
ClosedForms ==
    mode = "rho" =>
    LET q == b - a
        sk == Sk0  ik == Ik0  rk == Rk0
        sksl == SkSl0  skil == SkIl0  ikil == IkIl0
        ssi == Ssi0  isi == Isi0  skap == Skappa0
        x == X0  y == Y0  z == Z0  xy == XY0  xx == XX0
    IN
    /\ S0 * b = q * n * Den /\ I0 * b = a * n * Den /\ R0 = 0
    /\ \A k \in Degs : sk[k] * b = q * Nk[k] * Den /\ ik[k] * b = a * Nk[k] * Den /\ rk[k] = 0
    /\ SS0 * b * b = q * q * M2 * Den /\ SI0 * b * b = q * a * M2 * Den /\ II0 * b * b = a * a * M2 * Den
    /\ \A k \in Degs : \A l \in Degs :
          /\ sksl[k][l] * b * b = q * q * NkNl[k][l] * Den
          /\ skil[k][l] * b * b = q * a * NkNl[k][l] * Den
          /\ ikil[k][l] * b * b = a * a * NkNl[k][l] * Den
    /\ \A s \in Degs : \A i \in Degs :
          IF s + i \in Degs
          THEN /\ ssi[s][i] * Pow(b, s + i + 1) = q * Nk[s + i] * Binom(s + i, i) * Pow(a, i) * Pow(q, s) * Den
               /\ isi[s][i] * Pow(b, s + i + 1) = a * Nk[s + i] * Binom(s + i, i) * Pow(a, i) * Pow(q, s) * Den
          ELSE ssi[s][i] = 0 /\ isi[s][i] = 0
    /\ \A k \in Degs : skap[k] = sk[k]                      \* nobody recovered: kappa = degree
    /\ \A u \in Node : x[u] * b = q * Den /\ y[u] * b = a * Den /\ z[u] = 0
    /\ \A u \in Node : \A v \in Node : Adj(u, v) =>
          /\ xy[u][v] * b * b = q * a * Den /\ xx[u][v] * b * b = q * q * Den

\* Initial states are generated by one thread; the definitions are evaluated on the
\* successor (phase = "emitted"), which TLC's workers compute in parallel.
ConsistentInv == phase = "emitted" => Consistent
ClosedFormsInv == phase = "emitted" => ClosedForms

(***************************************************************************)
(* The scenario family.                                                    *)
(***************************************************************************)
Graphs == IF Len(Fixed) > 0
          THEN {Fixed[j] : j \in 1..Len(Fixed)}
          ELSE UNION {{<<m, F>> : F \in SUBSET PairsOf(m)} : m \in 2..MaxN}

\* at least one susceptible node of positive degree (all-isolated-susceptible inputs are outside the family)
InFamily == IF mode = "sets"
            THEN /\ inf # {} /\ inf \cap rec = {}
                 /\ \E u \in Node : u \notin inf /\ u \notin rec /\ Deg(u) > 0
            ELSE E # {}

Init == /\ \E g \in Graphs : n = g[1] /\ E = g[2]
        /\ \/ /\ SetsToo /\ mode = "sets" /\ rho = <<0, 1>>
              /\ inf \in SUBSET (1..n) /\ rec \in SUBSET (1..n)
              /\ Cardinality(inf) <= MaxInf /\ Cardinality(rec) <= MaxRec
           \/ /\ mode = "rho" /\ rho \in RhoSet /\ inf = {} /\ rec = {}
              /\ n <= 7        \* the brute-force expectation ranges over all 2^n infected sets (and b^n must stay below 2^31)
        /\ InFamily
        /\ phase = "chosen"

SeqOf(f, D) == [j \in 1..Cardinality(D) |-> f[(CHOOSE m \in D : \A x \in D : m <= x) + j - 1]]
MatSeq(m, D) == SeqOf([k \in D |-> SeqOf(m[k], D)], D)
SetSeq(S) == LET RECURSIVE Go(_)
                 Go(T) == IF T = {} THEN <<>>
                          ELSE LET e == CHOOSE d \in T : \A c \in T : d <= c IN <<e>> \o Go(T \ {e})
             IN Go(S)
EdgeSeq == LET RECURSIVE Go(_)
               Go(T) == IF T = {} THEN <<>>
                        ELSE LET e == CHOOSE d \in T : \A c \in T : d[1] < c[1] \/ (d[1] = c[1] /\ d[2] <= c[2])
                             IN <<e>> \o Go(T \ {e})
           IN Go(E)

Scenario ==
    [n |-> n, edges |-> EdgeSeq, mode |-> mode, inf |-> SetSeq(inf), rec |-> SetSeq(rec),
     rho |-> rho, den |-> Den, M2 |-> M2,
     S |-> S0, I |-> I0, R |-> R0,
     Nk |-> SeqOf(Nk, Degs), Sk |-> SeqOf(Sk0, Degs), Ik |-> SeqOf(Ik0, Degs), Rk |-> SeqOf(Rk0, Degs),
     SS |-> SS0, SI |-> SI0, II |-> II0, SR |-> SR0, IR |-> IR0, RR |-> RR0,
     NkNl |-> MatSeq(NkNl, Degs), SkSl |-> MatSeq(SkSl0, Degs), SkIl |-> MatSeq(SkIl0, Degs),
     IkIl |-> MatSeq(IkIl0, Degs),
     Ssi |-> MatSeq(Ssi0, Degs), Isi |-> MatSeq(Isi0, Degs), Skappa |-> SeqOf(Skappa0, Degs),
     X |-> SeqOf(X0, Node), Y |-> SeqOf(Y0, Node), Z |-> SeqOf(Z0, Node),
     XY |-> MatSeq(XY0, Node), XX |-> MatSeq(XX0, Node),
     theta |-> Theta0]

Emit == /\ phase = "chosen" /\ phase' = "emitted"
        /\ PrintT(<<"IC", ToJson(Scenario)>>)
        /\ UNCHANGED <<n, E, mode, inf, rec, rho>>

Next == Emit
Spec == Init /\ [][Next]_vars

TypeOK == /\ n \in 2..16 /\ E \subseteq PairsOf(n) /\ mode \in {"sets", "rho"}
          /\ inf \subseteq Node /\ rec \subseteq Node /\ phase \in {"chosen", "emitted"}
Frozen == [][UNCHANGED <<n, E, mode, inf, rec, rho>>]_vars
=============================================================================

---------------------------- MODULE DiscreteEpi ----------------------------
(***************************************************************************)
(* Discrete-time (generation by generation) epidemics: the Reed-Frost SIR  *)
(* chain and the discrete SIS chain that basic_discrete_SIR,               *)
(* percolation_based_discrete_SIR and basic_discrete_SIS claim to sample   *)
(* (C12), and bond percolation (percolate_network).                        *)
(*                                                                         *)
(* Each infectious-susceptible contact succeeds independently with         *)
(* probability p = PA/PB per step.  A step from state st infects a subset  *)
(* `new` of the susceptible nodes at risk; its probability is              *)
(*    prod_{v in new} (1-(1-p)^k_v) * prod_{v at risk, not in new} (1-p)^k_v*)
(* with k_v the number of infectious neighbours of v.  ev carries the      *)
(* numerator over the common denominator PB^(sum k_v), so the emitted      *)
(* state graph is the exact transition matrix.  The contact graph is a     *)
(* frozen variable: one run covers every graph on N nodes.                 *)
(***************************************************************************)
EXTENDS Naturals, FiniteSets, Sequences, TLC

CONSTANTS N, PA, PB, SIS,
          Directed   \* TRUE: the contact network is a digraph, u can infect v along an arc u -> v only
Node == 1..N
NP   == IF Directed THEN N * (N - 1) ELSE (N * (N - 1)) \div 2
UPairIdx(u, v) == LET a == IF u < v THEN u ELSE v
                      b == IF u < v THEN v ELSE u
                  IN ((a - 1) * N - ((a - 1) * a) \div 2) + (b - a)
\* ordered pairs (u,v), u # v, in lexicographic order
DPairIdx(u, v) == (u - 1) * (N - 1) + (IF v < u THEN v ELSE v - 1)
PairIdx(u, v) == IF Directed THEN DPairIdx(u, v) ELSE UPairIdx(u, v)

VARIABLES w, st, ev
vars == <<w, st, ev>>
View == <<w, st>>

Adj(u, v) == u # v /\ w[PairIdx(u, v)] = 1
Status == IF SIS THEN {"S", "I"} ELSE {"S", "I", "R"}

RECURSIVE Pow(_, _)
Pow(b, e) == IF e = 0 THEN 1 ELSE b * Pow(b, e - 1)
ProdOver(S, f(_)) ==
    LET RECURSIVE P(_)
        P(T) == IF T = {} THEN 1 ELSE LET x == CHOOSE y \in T : TRUE IN f(x) * P(T \ {x})
    IN P(S)
SumOver(S, f(_)) ==
    LET RECURSIVE P(_)
        P(T) == IF T = {} THEN 0 ELSE LET x == CHOOSE y \in T : TRUE IN f(x) + P(T \ {x})
    IN P(S)

Inf(S)     == {u \in Node : S[u] = "I"}
K(S, v)    == Cardinality({u \in Inf(S) : Adj(u, v)})
AtRisk(S)  == {v \in Node : S[v] = "S" /\ K(S, v) > 0}
Den(S)     == Pow(PB, SumOver(AtRisk(S), LAMBDA v : K(S, v)))
Num(S, new) ==
    ProdOver(new, LAMBDA v : Pow(PB, K(S, v)) - Pow(PB - PA, K(S, v)))
    * ProdOver(AtRisk(S) \ new, LAMBDA v : Pow(PB - PA, K(S, v)))

Init == /\ w \in [1..NP -> {0, 1}]
        /\ st \in [Node -> Status]
        /\ ev = <<{}, 0, 0>>

Step(new) ==
    /\ Inf(st) # {}
    /\ new \subseteq AtRisk(st)
    /\ Num(st, new) > 0
    /\ st' = [u \in Node |-> IF u \in new THEN "I"
                            ELSE IF st[u] = "I" THEN (IF SIS THEN "S" ELSE "R")
                            ELSE st[u]]
    /\ ev' = <<new, Num(st, new), Den(st)>>
    /\ UNCHANGED w

Next == \E new \in SUBSET Node : Step(new)
Spec == Init /\ [][Next]_vars

\* the kernel is a probability distribution
KernelSums == Inf(st) # {} =>
    SumOver(SUBSET AtRisk(st), LAMBDA new : Num(st, new)) = Den(st)
\* a run stops exactly when nobody is infectious
StopsIffNoInfected == (ENABLED Next) <=> (Inf(st) # {})
\* one-step infectiousness, conservation, SIR monotonicity
OneStepInfectious == [][\A u \in Node : st[u] = "I" => st'[u] = (IF SIS THEN "S" ELSE "R")]_View
Conserved == Cardinality({u \in Node : st[u] \in Status}) = N
NewlyInfectedHaveInfectiousNeighbour ==
    [][\A v \in Node : (st[v] = "S" /\ st'[v] = "I") => \E u \in Node : Adj(u, v) /\ st[u] = "I"]_View

Emit == PrintT(<<"E", w, st, st', ev'>>)

\* bond percolation: a given set of k of m edges is kept with probability PA^k (PB-PA)^(m-k) / PB^m
ASSUME \A m \in 0..NP : \A k \in 0..m : PrintT(<<"P", m, k, Pow(PA, k) * Pow(PB - PA, m - k), Pow(PB, m)>>)
=============================================================================

------------------------- MODULE DiscreteFlowTrace -------------------------
(***************************************************************************)
(* Batched trace validation against DiscreteFlow (property C08, clause 2). *)
(* The generated module C08Traces defines                                  *)
(*   Traces == << [pop |-> p, eps |-> e, rows |-> << <<t, S, I, R>>, ... >>], ... >>   *)
(* one entry per output of an EBCM_discrete* entry point, in fixed point.  *)
(* One initial state per trace; a trace that reaches its last row prints   *)
(* <<"DONE", tid>>.  Traces that never print DONE are rejected; the        *)
(* diagnostic specification DiagSpec walks such a trace to its end and     *)
(* prints, for every row that is not a DiscreteFlow step, which clause of  *)
(* StepRel failed.                                                         *)
(***************************************************************************)
EXTENDS DiscreteFlow, Sequences, TLC, C08Traces

VARIABLES tid, l

tvars == <<pop, eps, S, I, R, tid, l>>

Rows    == Traces[tid].rows
Bind(k) == /\ S' = Rows[k][2] /\ I' = Rows[k][3] /\ R' = Rows[k][4]
TimeOK(k) == Rows[k + 1][1] = Rows[k][1] + 1        \* one generation per row

TInit == /\ tid \in 1..Len(Traces) /\ l = 1
         /\ pop = Traces[tid].pop /\ eps = Traces[tid].eps
         /\ S = Traces[tid].rows[1][2] /\ I = Traces[tid].rows[1][3] /\ R = Traces[tid].rows[1][4]
         /\ ConservedRow(S, I, R, pop, eps)           \* DiscreteFlow!Init

\* the spec's own step relation, bound to the logged row
TStep == /\ l < Len(Rows)
         /\ l' = l + 1 /\ tid' = tid /\ UNCHANGED frozen
         /\ Bind(l + 1)
         /\ TimeOK(l)
         /\ StepRel(S, I, R, S', I', R', pop, eps)

TDone == /\ l = Len(Rows)
         /\ l' = l + 1 /\ UNCHANGED <<pop, eps, S, I, R, tid>>
         /\ PrintT(<<"DONE", tid>>)

TraceSpec == TInit /\ [][TStep \/ TDone]_tvars

\* the trace specification only ever takes DiscreteFlow steps (checked as a PROPERTY):
RefinesFlow == [][(l' <= Len(Rows)) => StepRel(S, I, R, S', I', R', pop, eps)]_tvars

-----------------------------------------------------------------------------
DInit == /\ tid \in 1..Len(Traces) /\ l = 1
         /\ pop = Traces[tid].pop /\ eps = Traces[tid].eps
         /\ S = Traces[tid].rows[1][2] /\ I = Traces[tid].rows[1][3] /\ R = Traces[tid].rows[1][4]
         /\ (ConservedRow(S, I, R, pop, eps) \/ PrintT(<<"DIAG", tid, 0, TRUE, TRUE, FALSE, TRUE>>))

DStep == /\ l < Len(Rows)
         /\ l' = l + 1 /\ tid' = tid /\ UNCHANGED frozen
         /\ Bind(l + 1)
         /\ \/ (TimeOK(l) /\ StepRel(S, I, R, S', I', R', pop, eps))
            \/ PrintT(<<"DIAG", tid, l, RUpdate(R, I, R', eps), SNonIncreasing(S, S', eps),
                        ConservedRow(S', I', R', pop, eps), TimeOK(l)>>)

DiagSpec == DInit /\ [][DStep]_tvars
=============================================================================

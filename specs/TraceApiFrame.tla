--------------------------- MODULE TraceApiFrame ---------------------------
(***************************************************************************)
(* Batched trace validation for ApiFrame (property C19).                   *)
(*                                                                         *)
(* One recorded trace is                                                   *)
(*     [id, det, env0, rows = << [result, env], [result, env] >>]          *)
(* produced by the harness around the REAL code:                           *)
(*     env0 := fingerprint of every argument object                        *)
(*     result1 := f(args)   ; env1 := fingerprint of the same objects      *)
(*     result2 := f(args)   ; env2 := fingerprint of the same objects      *)
(* env values are records  argument name |-> small integer  (index of the  *)
(* SHA-256 fingerprint in a per-batch table, so equal integers mean equal  *)
(* fingerprints and vice versa); result 0 = the call raised.               *)
(*                                                                         *)
(* A trace is accepted iff it is a behaviour of ApiFrame:                  *)
(*     TraceInit, Call(result1), Call(result2)                             *)
(* with the logged env bound to env' in each step (TraceCall).  All traces *)
(* of the file are validated in one TLC start: one initial state per       *)
(* trace; register 1 collects the ids that reached the end by TraceCall    *)
(* steps only.  When the recorded row is not a Call step of ApiFrame, the  *)
(* diagnostic step TraceDeviate records in register 2 the row and the      *)
(* clauses of Call that it breaks (computed with the operators Call itself *)
(* is made of), marks the trace as not ok and resynchronises on the logged *)
(* state, so that the remaining rows are still judged (a first call that   *)
(* reshapes an array AND a second call that then raises are two reports).  *)
(* The POSTCONDITION prints both registers and the ids that are neither    *)
(* accepted nor explained, or both (either would be a defect of this       *)
(* module; the harness turns it into exit 2).                              *)
(*                                                                         *)
(* TLC explores nothing here: every trace is a straight line of four       *)
(* states.  The point is that every recorded call of every entry point is  *)
(* judged by the one explicit frame condition of ApiFrame.                 *)
(***************************************************************************)
EXTENDS ApiFrame, Sequences, Json, IOUtils

VARIABLES tid,   \* index of the trace this behaviour validates
          l,     \* number of rows consumed
          ok     \* TRUE while every consumed row was a Call step of ApiFrame

tvars == <<env, result, phase, memo, det, tid, l, ok>>

Traces  == JsonDeserialize(IOEnv.C19_TRACES)
NTraces == Len(Traces)
AllIds  == {Traces[i].id : i \in 1..NTraces}

T   == Traces[tid]
Row == T.rows[l + 1]

TraceInit ==
    /\ tid \in 1..NTraces
    /\ l = 0
    /\ ok = TRUE
    /\ env = Traces[tid].env0
    /\ det = Traces[tid].det
    /\ result = None
    /\ phase = "idle"
    /\ memo = EmptyFn
    /\ TLCSet(1, {}) /\ TLCSet(2, {})

TraceCall ==
    /\ l < Len(T.rows)
    /\ l' = l + 1 /\ tid' = tid /\ ok' = ok
    /\ env' = Row.env            \* logged field: the arguments as found after the call
    /\ Call(Row.result)          \* the specification's own action (contains env' = env)

TraceDeviate ==
    /\ l < Len(T.rows)
    /\ Broken(Row.env, Row.result) # {}
    /\ TLCSet(2, TLCGet(2) \cup {<<T.id, l + 1, Broken(Row.env, Row.result), Changed(Row.env)>>})
    /\ l' = l + 1 /\ tid' = tid /\ ok' = FALSE
    \* resynchronise on what was observed (not a step of ApiFrame)
    /\ env' = Row.env
    /\ result' = IF ReturnsOK(Row.result) THEN Row.result ELSE result
    /\ phase' = IF ReturnsOK(Row.result) THEN "returned" ELSE "idle"
    /\ memo' = IF ReturnsOK(Row.result) /\ env \notin DOMAIN memo
               THEN (env :> Row.result) @@ memo ELSE memo
    /\ det' = det

TraceDone ==
    /\ l = Len(T.rows)
    /\ l' = l + 1
    /\ UNCHANGED <<vars, tid, ok>>
    /\ IF ok THEN TLCSet(1, TLCGet(1) \cup {T.id}) ELSE TRUE

TraceNext == TraceCall \/ TraceDeviate \/ TraceDone

TraceSpec == TraceInit /\ [][TraceNext]_tvars

\* in an accepted prefix the caller's objects are what they were at the start
TraceFrame == ok => env = T.env0

Accepted    == TLCGet(1)
Deviations  == TLCGet(2)
DeviantIds  == {x[1] : x \in Deviations}

TraceAccepted ==
    /\ PrintT(<<"TRACES", NTraces, "ACCEPTED", Cardinality(Accepted)>>)
    /\ \A x \in Deviations : PrintT(<<"REJECT", x[1], x[2], x[3], x[4]>>)
    /\ PrintT(<<"UNEXPLAINED", AllIds \ (Accepted \cup DeviantIds)>>)
    /\ PrintT(<<"BOTH", Accepted \cap DeviantIds>>)
=============================================================================

----------------------------- MODULE EventQueue -----------------------------
(***************************************************************************)
(* myQueue, the priority queue of every event-driven simulator (fast_SIR,  *)
(* fast_SIS, fast_nonMarkov_SIR/SIS): events carry a time; add() silently  *)
(* drops an event whose time is at or after tmax; pop returns the queued   *)
(* event of least time, and among events of equal time the one that was    *)
(* added first (insertion counter as tie-breaker).                         *)
(*                                                                         *)
(* Ref : the queue as a set of <<time, id>> with ids increasing in arrival *)
(*       order; Pop takes the lexicographic minimum.                       *)
(* Impl: a binary heap stored in a sequence with sift-up / sift-down, the  *)
(*       shape heapq gives the code.  TLC checks over every sequence of    *)
(*       add/pop operations in the bound that the heap invariant holds,    *)
(*       that both return the same event at every pop, that popped times   *)
(*       never decrease when no earlier event is added in between, and     *)
(*       that nothing at or after tmax is ever stored.  Every operation    *)
(*       history is emitted (hist) for replay into the real class.         *)
(***************************************************************************)
EXTENDS Naturals, Sequences, FiniteSets, TLC

CONSTANTS MaxT, Tmax, MaxOps

VARIABLES ref, heap, nextId, hist, lastPop
vars == <<ref, heap, nextId, hist, lastPop>>

Less(a, b) == a[1] < b[1] \/ (a[1] = b[1] /\ a[2] < b[2])
MinOf(S) == CHOOSE x \in S : \A y \in S : x = y \/ Less(x, y)

Init == ref = {} /\ heap = <<>> /\ nextId = 1 /\ hist = <<>> /\ lastPop = <<0, 0>>

Swap(s, i, j) == [s EXCEPT ![i] = s[j], ![j] = s[i]]
RECURSIVE SiftUp(_, _)
SiftUp(s, i) == IF i = 1 THEN s
                ELSE LET p == i \div 2 IN IF Less(s[i], s[p]) THEN SiftUp(Swap(s, i, p), p) ELSE s
RECURSIVE SiftDown(_, _)
SiftDown(s, i) ==
    LET l == 2 * i  r == 2 * i + 1  n == Len(s)
        m1 == IF l <= n /\ Less(s[l], s[i]) THEN l ELSE i
        m  == IF r <= n /\ Less(s[r], s[m1]) THEN r ELSE m1
    IN IF m = i THEN s ELSE SiftDown(Swap(s, i, m), m)

Add(t) ==
    /\ Len(hist) < MaxOps
    /\ IF t < Tmax
       THEN /\ ref' = ref \cup {<<t, nextId>>}
            /\ heap' = SiftUp(Append(heap, <<t, nextId>>), Len(heap) + 1)
       ELSE UNCHANGED <<ref, heap>>                  \* dropped: at or after the horizon
    /\ nextId' = nextId + 1                          \* ids number the add operations, dropped ones included
    /\ hist' = Append(hist, <<"add", t>>)
    /\ UNCHANGED lastPop

Pop ==
    /\ Len(hist) < MaxOps /\ ref # {}
    /\ ref' = ref \ {MinOf(ref)}
    /\ heap' = IF Len(heap) = 1 THEN <<>>
               ELSE SiftDown([i \in 1..(Len(heap) - 1) |-> IF i = 1 THEN heap[Len(heap)] ELSE heap[i]], 1)
    /\ lastPop' = heap[1]
    /\ hist' = Append(hist, <<"pop", MinOf(ref)[1], MinOf(ref)[2]>>)
    /\ UNCHANGED nextId

Next == (\E t \in 0..MaxT : Add(t)) \/ Pop
Spec == Init /\ [][Next]_vars

HeapInvariant == \A i \in 2..Len(heap) : ~Less(heap[i], heap[i \div 2])
SameContent == {heap[i] : i \in 1..Len(heap)} = ref /\ Len(heap) = Cardinality(ref)
HeapTopIsMin == ref # {} => heap[1] = MinOf(ref)
NothingAtOrAfterTmax == \A e \in ref : e[1] < Tmax
PopAgrees == [][ref' # ref /\ Cardinality(ref') < Cardinality(ref) => lastPop' = MinOf(ref)]_vars
\* FIFO among equal times
FifoOnTies == [][Cardinality(ref') < Cardinality(ref) =>
                   \A e \in ref' : e[1] = lastPop'[1] => e[2] > lastPop'[2]]_vars

EmitHist == Len(hist) = MaxOps => PrintT(<<"H", hist, Cardinality(ref)>>)
=============================================================================

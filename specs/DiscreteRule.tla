---------------------------- MODULE DiscreteRule ----------------------------
(***************************************************************************)
(* discrete_SIR under an arbitrary deterministic transmission rule and an  *)
(* optional recovery test (C12, first sentence): a node is infected at     *)
(* tmin plus its breadth-first distance from the initially infected set in *)
(* the directed graph of successful contacts (initially recovered nodes    *)
(* removed), is infectious for exactly one step unless the recovery test   *)
(* keeps it longer, and S+I+R stays N.                                     *)
(*                                                                         *)
(* Impl: the generation loop (one action per generation).  Ref: BFS        *)
(* distance by bounded fixpoint.  TLC checks Impl = Ref for every scenario *)
(* of the JSON file EON_SCENARIOS and emits the outcome for the harness.   *)
(* succ[u][v] = 1 iff the rule lets u infect v; rec[u][j] = 1 iff the j-th *)
(* recovery test of u succeeds (rows of all 1 = no test supplied).         *)
(***************************************************************************)
EXTENDS Naturals, FiniteSets, Sequences, TLC, Json, IOUtils

INF == 1000000
Scenarios == JsonDeserialize(IOEnv.EON_SCENARIOS)
NS == Len(Scenarios)

VARIABLES sc, st, t, infT, recT, tests
vars == <<sc, st, t, infT, recT, tests>>

Nodes      == 1..Scenarios[sc].n
Adj(u, v)  == Scenarios[sc].adj[u][v] = 1
Succ(u, v) == Scenarios[sc].succ[u][v] = 1
RecOK(u, j) == Scenarios[sc].rec[u][IF j > Len(Scenarios[sc].rec[u]) THEN Len(Scenarios[sc].rec[u]) ELSE j] = 1
Tmin == Scenarios[sc].tmin
Tmax == Scenarios[sc].tmax
Ini(u) == Scenarios[sc].init[u]
I0 == {u \in Nodes : Ini(u) = "I"}
R0 == {u \in Nodes : Ini(u) = "R"}
NoTest == \A u \in Nodes : \A j \in 1..Len(Scenarios[sc].rec[u]) : Scenarios[sc].rec[u][j] = 1

Init == /\ sc \in 1..NS
        /\ st = [u \in Nodes |-> Ini(u)]
        /\ t = Tmin
        /\ infT = [u \in Nodes |-> IF u \in I0 THEN Tmin ELSE INF]
        /\ recT = [u \in Nodes |-> IF u \in R0 THEN Tmin ELSE INF]
        /\ tests = [u \in Nodes |-> 0]

Inf == {u \in Nodes : st[u] = "I"}

Generation ==
    /\ Inf # {} /\ t < Tmax
    /\ LET new  == {v \in Nodes : st[v] = "S" /\ \E u \in Inf : Adj(u, v) /\ Succ(u, v)}
           gone == {u \in Inf : RecOK(u, tests[u] + 1)}
       IN /\ st' = [u \in Nodes |-> IF u \in new THEN "I" ELSE IF u \in gone THEN "R" ELSE st[u]]
          /\ infT' = [u \in Nodes |-> IF u \in new THEN t + 1 ELSE infT[u]]
          /\ recT' = [u \in Nodes |-> IF u \in gone THEN t + 1 ELSE recT[u]]
          /\ tests' = [u \in Nodes |-> IF u \in Inf THEN tests[u] + 1 ELSE tests[u]]
    /\ t' = t + 1
    /\ UNCHANGED sc

Next == Generation
Spec == Init /\ [][Next]_vars
Done == ~ ENABLED Next

\* Ref: BFS distance in the directed graph of successful contacts, R0 removed
Live(u, v) == Adj(u, v) /\ Succ(u, v) /\ u \notin R0 /\ v \notin R0
\* BFS by layers, as a set of <<node, distance>> pairs (sets are evaluated eagerly by TLC)
NextLayer(front, reached) == {v \in Nodes \ (reached \cup R0) : \E u \in front : Live(u, v)}
RECURSIVE LayerPairs(_, _, _)
LayerPairs(front, reached, d) ==
    IF front = {} THEN {}
    ELSE LET nl == NextLayer(front, reached)
         IN {<<v, d>> : v \in front} \cup LayerPairs(nl, reached \cup nl, d + 1)
DistPairs == LayerPairs(I0, I0, 0)
DistIn(P, v) == IF \E p \in P : p[1] = v THEN (CHOOSE p \in P : p[1] = v)[2] ELSE INF

\* with one-step infectiousness (no recovery test) the epidemic is a BFS; with a test,
\* staying infectious longer cannot infect anyone new under a time-independent rule
BFS == Done => LET P == DistPairs IN \A v \in Nodes :
          LET d == DistIn(P, v) IN
          IF d < INF /\ (d = 0 \/ Tmin + d - 1 < Tmax)
          THEN infT[v] = Tmin + d ELSE infT[v] = INF
OneStep == (Done /\ NoTest) => \A v \in Nodes : (infT[v] < INF /\ infT[v] < t) => recT[v] = infT[v] + 1
Conserved == Cardinality({u \in Nodes : st[u] \in {"S", "I", "R"}}) = Scenarios[sc].n
Mono == [][\A u \in Nodes : (st[u] = "R" => st'[u] = "R") /\ (st'[u] = "S" => st[u] = "S")]_vars

EmitRef == Done => PrintT(<<"REF", sc, infT, recT, t>>)
=============================================================================

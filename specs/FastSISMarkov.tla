--------------------------- MODULE FastSISMarkov ---------------------------
(***************************************************************************)
(* fast_SIS (C02): the event-driven Markovian SIS algorithm with lazy      *)
(* scheduling - only the NEXT transmission of a source->target pair is     *)
(* queued, and it is re-drawn from the target's recovery time when the     *)
(* first draw lands inside the target's current infectious period          *)
(* (_process_trans_SIS_Markov, _find_next_trans_SIS_Markov,                *)
(* _process_rec_SIS_).                                                     *)
(*                                                                         *)
(* The specification takes the DRAW TAPE as an input (scenario file        *)
(* EON_SCENARIOS: graph, weights, rates, initial set, horizon and the      *)
(* sequence of values the exponential draws will return) and is            *)
(* deterministic given the tape.  It states which draws are requested, in  *)
(* which order and WITH WHICH RATE (gamma*g[u] at infection; tau*w[u,v]    *)
(* for a transmission, twice when re-drawn), and that an event is queued   *)
(* iff its time is before the source's recovery and before tmax.  TLC      *)
(* checks on every scenario that every fired transmission is an enabled    *)
(* action of the reference chain NetEpi (source infectious, target         *)
(* susceptible, edge present) and emits the resulting history and the      *)
(* sequence of requested rates; the conformance harness feeds the same     *)
(* tape to the real fast_SIS through the scripted expovariate and compares *)
(* both.  (That lazy re-drawing is equivalent in law to a Poisson process  *)
(* is memorylessness; it is covered by the statistical layer.)             *)
(***************************************************************************)
EXTENDS Naturals, FiniteSets, Sequences, TLC, Json, IOUtils

INF == 1000000000
Scenarios == JsonDeserialize(IOEnv.EON_SCENARIOS)
NS == Len(Scenarios)

VARIABLES sc, st, Q, recT, pos, log, rates, ctr
vars == <<sc, st, Q, recT, pos, log, rates, ctr>>

S       == Scenarios[sc]
Nodes   == 1..S.n
W(u, v) == S.w[u][v]                 \* 0 = no edge
NbrSeq(u) == SelectSeq([i \in 1..S.n |-> i], LAMBDA v : W(u, v) > 0)   \* neighbours in increasing order
Tape    == S.tape
Tmin    == S.tmin
Tmax    == S.tmax
I0      == {u \in Nodes : S.init[u] = "I"}

Ev(t, c, k, a, b) == [time |-> t, ctr |-> c, kind |-> k, src |-> a, tgt |-> b]

\* one draw from the tape (an exhausted tape repeats its last value: scenarios are generated with enough draws)
Draw(p) == Tape[IF p <= Len(Tape) THEN p ELSE Len(Tape)]

\* _find_next_trans_SIS_Markov(Q, time, rate, source, target, ...): returns the new
\* tape position, the requested rates and the event to add (if any)
FindNext(acc, t, rate, s, v, rt) ==
    IF ~(rt[v] < rt[s]) \/ rate = 0 THEN acc
    ELSE LET d1 == Draw(acc.pos)
             t1 == t + d1
             redraw == t1 < rt[v]
             d2 == Draw(acc.pos + 1)
             tt == IF redraw THEN rt[v] + d2 ELSE t1
             np == IF redraw THEN acc.pos + 2 ELSE acc.pos + 1
             nr == IF redraw THEN acc.rates \o <<rate, rate>> ELSE Append(acc.rates, rate)
         IN [pos |-> np, rates |-> nr, c |-> acc.c + 1,
             evs |-> IF tt < rt[s] /\ tt < Tmax THEN acc.evs \cup {Ev(tt, acc.c, "T", s, v)} ELSE acc.evs]

RECURSIVE OverNbrs(_, _, _, _, _)
OverNbrs(acc, t, x, vs, rt) ==
    IF vs = <<>> THEN acc
    ELSE OverNbrs(FindNext(acc, t, S.tau * W(x, Head(vs)), x, Head(vs), rt), t, x, Tail(vs), rt)

Init ==
    /\ sc \in 1..NS
    /\ st = [u \in Nodes |-> "S"]
    /\ recT = [u \in Nodes |-> Tmin - 1]            \* scenarios have tmin >= 1
    /\ Q = IF Tmin < Tmax THEN {Ev(Tmin, u, "T", 0, u) : u \in I0} ELSE {}
    /\ pos = 1
    /\ log = <<>>
    /\ rates = <<>>
    /\ ctr = S.n + 1

\* the queue orders by (time, counter)
Earliest(e) == \A f \in Q : f.time > e.time \/ (f.time = e.time /\ f.ctr >= e.ctr)

ProcessTrans(e) ==
    /\ e \in Q /\ e.kind = "T" /\ Earliest(e)
    /\ LET t == e.time
           x == e.tgt
           infect == st[x] = "S"
           rrate == S.gam * S.g[x]
           acc0 == [pos |-> pos, rates |-> rates, c |-> ctr + 1, evs |-> {}]
           \* recovery draw
           acc1 == IF infect /\ rrate > 0
                   THEN [acc0 EXCEPT !.pos = pos + 1, !.rates = Append(rates, rrate)] ELSE acc0
           rtx  == IF infect THEN (IF rrate > 0 THEN t + Draw(pos) ELSE INF) ELSE recT[x]
           rt1  == [recT EXCEPT ![x] = rtx]
           recEv == IF infect /\ rtx < Tmax THEN {Ev(rtx, ctr, "R", 0, x)} ELSE {}
           acc2 == IF infect THEN OverNbrs(acc1, t, x, NbrSeq(x), rt1) ELSE acc1
           acc3 == IF e.src # 0 THEN FindNext(acc2, t, S.tau * W(e.src, x), e.src, x, rt1) ELSE acc2
       IN /\ st' = IF infect THEN [st EXCEPT ![x] = "I"] ELSE st
          /\ recT' = rt1
          /\ log' = IF infect /\ e.src # 0 THEN Append(log, <<t, "I", x, e.src>>) ELSE log
          /\ Q' = (Q \ {e}) \cup recEv \cup acc3.evs
          /\ pos' = acc3.pos
          /\ rates' = acc3.rates
          /\ ctr' = acc3.c + 1
    /\ UNCHANGED sc

ProcessRec(e) ==
    /\ e \in Q /\ e.kind = "R" /\ Earliest(e)
    /\ st' = [st EXCEPT ![e.tgt] = "S"]
    /\ log' = Append(log, <<e.time, "R", e.tgt, 0>>)
    /\ Q' = Q \ {e}
    /\ UNCHANGED <<sc, recT, pos, rates, ctr>>

DoTrans == \E e \in Q : ProcessTrans(e)
DoRec   == \E e \in Q : ProcessRec(e)
Next == DoTrans \/ DoRec
Spec == Init /\ [][Next]_vars
Done == Q = {}

-----------------------------------------------------------------------------
\* every infection that fires is an enabled transmission of the reference chain
FiredIsEnabled ==
    [][\A v \in Nodes : (st[v] = "S" /\ st'[v] = "I") =>
          LET ev == log'[Len(log')] IN
              \/ Len(log') = Len(log)                       \* initial infection (not logged)
              \/ (ev[3] = v /\ W(ev[4], v) > 0 /\ st[ev[4]] = "I")]_vars
\* queued transmissions lie before the source's recovery and before the horizon
QueueSound == \A e \in Q : e.time < Tmax /\ (e.kind = "T" /\ e.src # 0 => e.time < recT[e.src])
LogOrdered == \A i \in 1..(Len(log) - 1) : log[i][1] <= log[i + 1][1]
\* draws are requested only with the rates of the chain
RatesAreChainRates == \A i \in 1..Len(rates) :
    \/ \E u \in Nodes : rates[i] = S.gam * S.g[u]
    \/ \E u, v \in Nodes : W(u, v) > 0 /\ rates[i] = S.tau * W(u, v)

EmitRef == Done => PrintT(<<"REF", sc, log, rates, pos - 1>>)
=============================================================================

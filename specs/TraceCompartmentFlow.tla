------------------------ MODULE TraceCompartmentFlow ------------------------
(***************************************************************************)
(* Batched trace validation of the (t, S, I[, R]) arrays returned by the   *)
(* real ODE entry points against the reference CompartmentFlow (C06 (b)).  *)
(*                                                                         *)
(* One TLC start validates a whole file of traces: one initial state per   *)
(* trace id, each trace consumed independently, one action per output row. *)
(* The monitor is TOTAL: at every row either Step (all clauses of the      *)
(* reference hold between the bound row and the next one) or Reject, which *)
(* evaluates every clause separately and prints the trace id, the failing  *)
(* row and the names of the failed clauses -- so a rejected trace is       *)
(* diagnosed in the same run and the remaining traces are still examined.  *)
(* Done fires when a trace has been consumed completely.                   *)
(*                                                                         *)
(* Trace record (written by harness/c06_trace.py, fixed point = value*10^6 *)
(* rounded; non-finite or out-of-range values are the sentinel Bad):       *)
(*   [N, sir, disc, tau0, gam0, tmin, tmax, tcount, rows : Seq(<<T,S,I,R>>)]*)
(***************************************************************************)
EXTENDS Integers, Sequences, FiniteSets, TLC, Json

CONSTANTS TraceFile,   \* path of the JSON file (array of trace records)
          Slack        \* extra fixed-point units of tolerance for rounding (eps = N / 10^6 scaled + Slack)

Traces == JsonDeserialize(TraceFile)

VARIABLES tid,    \* trace id (index into Traces) -- frozen
          l,      \* number of rows consumed so far; -1 = rejected
          par, S, I, R, k

CF == INSTANCE CompartmentFlow WITH MaxPop <- 0, MaxRows <- 0

vars == <<tid, l, par, S, I, R, k>>

Tr      == Traces[tid]
Rows    == Tr.rows
Unit    == 1000000
Eps     == (Tr.N \div Unit) + Slack         \* 1e-6 * N (N in fixed point) plus rounding slack
ParOf(t) == [N |-> t.N, sir |-> t.sir, disc |-> t.disc, tau0 |-> t.tau0, gam0 |-> t.gam0,
             tcount |-> t.tcount]

Clauses == {"RowCount", "Grid", "Bounds", "Conserved", "NoRecoveredInSIS",
            "MonotoneS", "MonotoneR", "Balance", "TauZero", "GammaZero", "DiscreteRecovery"}

\* does clause c hold when row j = l + 1 is appended to the rows consumed so far?
Holds(c, j) ==
    LET row == Rows[j]
        T2 == row[1]  s2 == row[2]  i2 == row[3]  r2 == row[4]
        p == ParOf(Tr)
        first == (j = 1)
    IN CASE c = "RowCount" -> Len(Rows) = Tr.tcount
         [] c = "Grid"     -> CF!GridOK(Tr.tmin, Tr.tmax, Tr.tcount, j - 1, T2)
         [] c = "Bounds"   -> CF!BoundsOK(p, s2, i2, r2, Eps)
         [] c = "Conserved" -> CF!BoundsOK(p, s2, i2, r2, Eps) => CF!ConservedOK(p, s2, i2, r2, Eps)
         [] c = "NoRecoveredInSIS" -> CF!NoRecoveredInSIS(p, r2)
         [] c = "MonotoneS" -> first \/ CF!MonotoneSOK(p, S, s2, Eps)
         [] c = "MonotoneR" -> first \/ CF!MonotoneROK(p, R, r2, Eps)
         [] c = "Balance"   -> first \/ (CF!BoundsOK(p, s2, i2, r2, Eps) => CF!BalanceOK(p, S, I, R, s2, i2, r2, 2 * Eps))
         [] c = "TauZero"   -> first \/ CF!TauZeroOK(p, S, I, s2, i2, Eps)
         [] c = "GammaZero" -> first \/ CF!GammaZeroOK(p, S, R, s2, r2, Eps)
         [] c = "DiscreteRecovery" -> first \/ CF!DiscreteOK(p, I, R, r2, Eps)

Failed(j) == {c \in Clauses : ~Holds(c, j)}

Init == /\ tid \in 1..Len(Traces)
        /\ l = 0 /\ k = -1
        /\ par = ParOf(Traces[tid])
        /\ S = 0 /\ I = 0 /\ R = 0

\* consume row l + 1: bind the logged fields, require the reference's clauses
Step == /\ l >= 0 /\ l < Len(Rows)
        /\ Failed(l + 1) = {}
        /\ l' = l + 1 /\ k' = k + 1
        /\ S' = Rows[l + 1][2] /\ I' = Rows[l + 1][3] /\ R' = Rows[l + 1][4]
        /\ UNCHANGED <<tid, par>>

Reject == /\ l >= 0 /\ l < Len(Rows)
          /\ Failed(l + 1) # {}
          /\ PrintT(<<"REJ", tid, l + 1, Failed(l + 1)>>)
          /\ l' = -1
          /\ UNCHANGED <<tid, par, S, I, R, k>>

\* a trace with no rows at all cannot be bound to the reference
RejectEmpty == /\ l = 0 /\ Len(Rows) = 0
               /\ PrintT(<<"REJ", tid, 0, {"RowCount"}>>)
               /\ l' = -1
               /\ UNCHANGED <<tid, par, S, I, R, k>>

Done == /\ l = Len(Rows) /\ l > 0
        /\ l' = l + 1
        /\ UNCHANGED <<tid, par, S, I, R, k>>

Next == Step \/ Reject \/ RejectEmpty \/ Done
TraceSpec == Init /\ [][Next]_vars

\* every state bound by Step is a state of the reference within tolerance
BoundRowsOK == (l >= 1 /\ l <= Len(Rows)) => CF!RowOK(par, S, I, R, Eps)
Frozen == [][tid' = tid /\ par' = par]_vars
=============================================================================

------------------------------ MODULE EventSIR ------------------------------
(***************************************************************************)
(* Event-driven SIR with arbitrary (user supplied) transmission delays and *)
(* infection durations: fast_nonMarkov_SIR, and fast_SIR on its weighted / *)
(* zero-rate path (property C11; also used by C01, C04, C09, C14).         *)
(*                                                                         *)
(* Two things are specified and compared by TLC for every scenario:        *)
(*                                                                         *)
(*  Ref  - the first-passage-percolation statement of the property: node v *)
(*         is infected at tmin + dist(I0, v) in the directed graph H that  *)
(*         keeps u->v iff delay(u,v) <= duration(u), initially recovered   *)
(*         nodes removed; v recovers duration(v) later; nothing at or      *)
(*         after tmax is reported; the infector is a predecessor on a      *)
(*         shortest path.  (Operators with an explicit scenario argument.) *)
(*                                                                         *)
(*  Impl - the algorithm of EoN/simulation.py: a priority queue of events, *)
(*         _process_trans_SIR_ (scheduling rule inf_time <= rec_time,      *)
(*         inf_time < pred_inf_time, inf_time <= tmax), _process_rec_SIR_, *)
(*         myQueue.add's cut-off time < tmax.  Any minimal-time event may  *)
(*         be popped (all tie orders; the code's (time, counter) order is  *)
(*         one of them).                                                   *)
(*                                                                         *)
(* Scenarios (graph, initial sets, delay and duration tables, tmin, tmax)  *)
(* are read from the JSON file named by the environment variable           *)
(* EON_SCENARIOS - the same file the conformance harness replays into the  *)
(* real code - and the reference outcome of each is emitted with PrintT.   *)
(* Times are integer ticks; INF stands for float('Inf').                   *)
(***************************************************************************)
EXTENDS Naturals, FiniteSets, Sequences, TLC, Json, IOUtils

INF == 1000000
Scenarios == JsonDeserialize(IOEnv.EON_SCENARIOS)
NS == Len(Scenarios)

Plus(a, b) == IF a >= INF \/ b >= INF THEN INF ELSE a + b
MinOf(S) == CHOOSE x \in S : \A y \in S : x <= y

Nodes(s)      == 1..Scenarios[s].n
Adj(s, u, v)  == Scenarios[s].adj[u][v] = 1
Delay(s, u, v) == Scenarios[s].delay[u][v]
Dur(s, u)     == Scenarios[s].dur[u]
Tmin(s)       == Scenarios[s].tmin
Tmax(s)       == Scenarios[s].tmax
Ini(s, u)     == Scenarios[s].init[u]
I0(s)         == {u \in Nodes(s) : Ini(s, u) = "I"}
R0(s)         == {u \in Nodes(s) : Ini(s, u) = "R"}

-----------------------------------------------------------------------------
(* Reference: first-passage percolation                                    *)

\* the directed percolation graph the property names (all nodes of G)
HEdge(s, u, v) == Adj(s, u, v) /\ Delay(s, u, v) <= Dur(s, u)
\* ... with the initially recovered nodes removed
HLive(s, u, v) == HEdge(s, u, v) /\ u \notin R0(s) /\ v \notin R0(s)

\* Bellman-Ford on a set of <<node, distance>> pairs: TLC evaluates sets eagerly, whereas
\* nested function constructors stay lazy and are re-evaluated at every application
Get(P, v) == (CHOOSE p \in P : p[1] = v)[2]
P0(s) == {<<v, IF v \in I0(s) THEN 0 ELSE INF>> : v \in Nodes(s)}
RelaxP(s, P) ==
    {<<v, IF v \in R0(s) THEN INF
          ELSE MinOf({Get(P, v)} \cup {Plus(Get(P, u), Delay(s, u, v)) : u \in {x \in Nodes(s) : HLive(s, x, v)}})>>
        : v \in Nodes(s)}
RECURSIVE IterP(_, _, _)
IterP(s, P, k) == IF k = 0 THEN P ELSE IterP(s, RelaxP(s, P), k - 1)
Dist(s) == LET P == IterP(s, P0(s), Scenarios[s].n) IN [v \in Nodes(s) |-> Get(P, v)]

RefInf(s) == LET D == Dist(s) IN
    [v \in Nodes(s) |-> IF D[v] < INF /\ Plus(Tmin(s), D[v]) < Tmax(s) THEN Tmin(s) + D[v] ELSE INF]
\* recovery time as the code knows it (may lie beyond tmax) and as reported
RefRecAll(s) == LET F == RefInf(s) IN
    [v \in Nodes(s) |-> IF F[v] < INF THEN Plus(F[v], Dur(s, v)) ELSE INF]
RefRec(s) == LET A == RefRecAll(s) IN
    [v \in Nodes(s) |-> IF A[v] < Tmax(s) THEN A[v] ELSE INF]
RefPreds(s) == LET D == Dist(s) F == RefInf(s) IN
    [v \in Nodes(s) |->
        IF F[v] = INF \/ v \in I0(s) THEN {}
        ELSE {u \in Nodes(s) : HLive(s, u, v) /\ D[u] < INF /\ Plus(D[u], Delay(s, u, v)) = D[v]}]
\* out-component of the initial infecteds in H with R0 removed (get_infected_nodes)
RefOut(s) == LET D == Dist(s) IN {v \in Nodes(s) : D[v] < INF}
\* the percolated digraph itself
RefH(s) == {<<u, v>> \in Nodes(s) \X Nodes(s) : HEdge(s, u, v)}

\* emitted once per scenario for the conformance harness
ASSUME \A s \in 1..NS :
    PrintT(<<"REF", s, RefInf(s), RefRec(s), RefPreds(s), RefOut(s), RefH(s)>>)

-----------------------------------------------------------------------------
(* Implementation-shaped specification                                     *)

VARIABLES sc,        \* scenario index (frozen)
          st,        \* status
          Q,         \* set of queued events [time, kind, src, tgt]
          predInf,   \* pred_inf_time
          recTime,   \* rec_time (INF = not set)
          infTime,   \* time at which the node was actually infected (INF = never)
          infector,  \* recorded source (0 = None)
          rows       \* number of rows appended so far

vars == <<sc, st, Q, predInf, recTime, infTime, infector, rows>>

Ev(t, k, a, b) == [time |-> t, kind |-> k, src |-> a, tgt |-> b]
\* myQueue.add: events at or after tmax are dropped
Keep(s, E) == {e \in E : e.time < Tmax(s)}

Init ==
    /\ sc \in 1..NS
    /\ st = [u \in Nodes(sc) |-> IF u \in R0(sc) THEN "R" ELSE "S"]
    /\ predInf = [u \in Nodes(sc) |-> IF u \in I0(sc) THEN Tmin(sc) ELSE INF]
    /\ recTime = [u \in Nodes(sc) |-> INF]
    /\ infTime = [u \in Nodes(sc) |-> INF]
    /\ infector = [u \in Nodes(sc) |-> 0]
    /\ Q = Keep(sc, {Ev(Tmin(sc), "T", 0, u) : u \in I0(sc)})
    /\ rows = 0

IsMin(e) == \A f \in Q : f.time >= e.time

PopTrans(e) ==
    /\ e \in Q /\ e.kind = "T" /\ IsMin(e)
    /\ UNCHANGED sc
    /\ IF st[e.tgt] # "S"
       THEN /\ Q' = Q \ {e}
            /\ UNCHANGED <<st, predInf, recTime, infTime, infector, rows>>
       ELSE LET t   == e.time
                x   == e.tgt
                rt  == Plus(t, Dur(sc, x))
                sus == {v \in Nodes(sc) : Adj(sc, x, v) /\ st[v] = "S" /\ v # x}
                it(v) == Plus(t, Delay(sc, x, v))
                new == {v \in sus : it(v) <= rt /\ it(v) < predInf[v] /\ it(v) <= Tmax(sc)}
            IN /\ st' = [st EXCEPT ![x] = "I"]
               /\ infTime' = [infTime EXCEPT ![x] = t]
               /\ infector' = [infector EXCEPT ![x] = e.src]
               /\ recTime' = [recTime EXCEPT ![x] = rt]
               /\ predInf' = [v \in Nodes(sc) |-> IF v \in new THEN it(v) ELSE predInf[v]]
               /\ Q' = (Q \ {e})
                        \cup Keep(sc, IF rt <= Tmax(sc) THEN {Ev(rt, "R", 0, x)} ELSE {})
                        \cup Keep(sc, {Ev(it(v), "T", x, v) : v \in new})
               /\ rows' = rows + 1

PopRec(e) ==
    /\ e \in Q /\ e.kind = "R" /\ IsMin(e)
    /\ st' = [st EXCEPT ![e.tgt] = "R"]
    /\ Q' = Q \ {e}
    /\ rows' = rows + 1
    /\ UNCHANGED <<sc, predInf, recTime, infTime, infector>>

DoTrans == \E e \in Q : PopTrans(e)
DoRec   == \E e \in Q : PopRec(e)
Next == DoTrans \/ DoRec

Spec == Init /\ [][Next]_vars

-----------------------------------------------------------------------------
(* What TLC checks, for every scenario and every tie order                 *)

Done == Q = {}

\* the algorithm realises first-passage percolation
Correct ==
    Done => LET F == RefInf(sc) RA == RefRecAll(sc) RR == RefRec(sc) P == RefPreds(sc) IN
        \A v \in Nodes(sc) :
            /\ infTime[v] = F[v]
            /\ (F[v] < INF) => recTime[v] = RA[v]
            /\ st[v] = (IF v \in R0(sc) THEN "R"
                        ELSE IF F[v] = INF THEN "S"
                        ELSE IF RR[v] < INF THEN "R" ELSE "I")
            /\ (F[v] < INF /\ v \notin I0(sc)) => infector[v] \in P[v]
            /\ (v \in I0(sc) /\ F[v] < INF) => infector[v] = 0

\* nothing at or after tmax is ever queued or processed; time never runs backwards
QueueBounded == \A e \in Q : e.time < Tmax(sc) /\ e.time >= Tmin(sc)
Ordered == [][\A e \in Q' \ Q : \A f \in Q \ Q' : e.time >= f.time]_vars
\* an infected node was infected at its predicted time, and never earlier than predicted for others
PredConsistent == \A v \in Nodes(sc) : st[v] \in {"I", "R"} /\ v \notin R0(sc) => infTime[v] = predInf[v]
\* SIR monotonicity and the initially recovered nodes never change
Mono == [][\A v \in Nodes(sc) : (st[v] = "R" => st'[v] = "R") /\ (st'[v] = "S" => st[v] = "S")]_vars
RowsCount == Done => rows = Cardinality({v \in Nodes(sc) : infTime[v] < INF})
                            + Cardinality({v \in Nodes(sc) : st[v] = "R" /\ v \notin R0(sc)})
=============================================================================

---------------------------- MODULE TraceCounts ----------------------------
(***************************************************************************)
(* Count-level reference of every epidemic simulator (CountEpi) and the    *)
(* trace specification that validates the (t, S, I[, R]) arrays - or the   *)
(* generic per-status count arrays - returned by the real code (C04).      *)
(*                                                                         *)
(* The count-level model is the projection of the node-level chains        *)
(* (NetEpi, SimpleContagion, DiscreteEpi): a state is the vector of        *)
(* per-status counts; in continuous time one step moves exactly one node   *)
(* along a legal move  a -> b  (optionally requiring that some node has    *)
(* the inducing status); in discrete time one step is one generation.      *)
(*                                                                         *)
(* Traces are read from the JSON file named by EON_TRACES.  Each trace is  *)
(* validated independently (one initial state per trace); TLC infers which *)
(* legal move explains each row.  A trace is accepted when all its rows    *)
(* are consumed and the end condition holds; accepted ids are printed.     *)
(* In diagnostic mode (EON_DIAG=1) every reached position is printed with  *)
(* the truth value of each clause for the next row, so the verdict names   *)
(* the failing row and clause.                                             *)
(***************************************************************************)
EXTENDS Naturals, Integers, FiniteSets, Sequences, TLC, Json, IOUtils

INF == 1000000
Traces == JsonDeserialize(IOEnv.EON_TRACES)
NT == Len(Traces)
DiagMode == "EON_DIAG" \in DOMAIN IOEnv /\ IOEnv.EON_DIAG = "1"

VARIABLES tid, l, c, t
vars == <<tid, l, c, t>>

Tr      == Traces[tid]
Rows(i) == Traces[i].rows           \* rows[k] = <<time, c1, ..., cK>>
NSt(i)  == Len(Traces[i].rows[1]) - 1
Cnt(r)  == [k \in 1..(Len(r) - 1) |-> r[k + 1]]
SumSeq(s) == LET RECURSIVE S(_)
                 S(k) == IF k = 0 THEN 0 ELSE s[k] + S(k - 1)
             IN S(Len(s))

-----------------------------------------------------------------------------
(* CountEpi: the legal steps                                               *)

\* continuous time: exactly one node moves a -> b; `ind` is the status a node must
\* have to induce the move (0 = spontaneous)
Move(cc, cc2, m) ==
    /\ cc[m[1]] >= 1
    /\ m[3] # 0 => cc[m[3]] >= 1
    /\ cc2 = [k \in DOMAIN cc |-> IF k = m[1] /\ k = m[2] THEN cc[k]
                                    ELSE IF k = m[1] THEN cc[k] - 1
                                    ELSE IF k = m[2] THEN cc[k] + 1 ELSE cc[k]]
OneMove(i, cc, cc2) == \E j \in 1..Len(Traces[i].moves) : Move(cc, cc2, Traces[i].moves[j])

\* discrete time: one generation.  Status 1 = S, 2 = I, 3 = R (if present).
\* Nobody is infected without an infectious node, S never grows in SIR, R never
\* shrinks, the population is conserved; the loop stops when nobody is infectious.
Generation(i, cc, cc2) ==
    /\ cc[2] >= 1
    /\ SumSeq(cc2) = Traces[i].n
    /\ \A k \in DOMAIN cc2 : cc2[k] >= 0
    /\ IF Traces[i].kind = "SIR" THEN cc2[1] <= cc[1] /\ cc2[3] >= cc[3] ELSE TRUE

-----------------------------------------------------------------------------
(* clauses about one row transition (named so that a rejection names them)  *)

LegalStep(i, r, r2) == IF Traces[i].disc = 1 THEN Generation(i, Cnt(r), Cnt(r2))
                       ELSE OneMove(i, Cnt(r), Cnt(r2))
TimeStep(i, r, r2)  == IF Traces[i].disc = 1
                       THEN (IF Traces[i].gaps = 1 THEN r2[1] > r[1] ELSE r2[1] = r[1] + 1)   \* gaps: rows derived from histories
                       ELSE r2[1] >= r[1]
Horizon(i, r2)      == IF Traces[i].disc = 1
                       THEN (Traces[i].whole = 1 => r2[1] <= Traces[i].tmax)
                       ELSE r2[1] < Traces[i].tmax
FirstRow(i) == LET r == Rows(i)[1] IN
    /\ Traces[i].equal_lengths = 1
    /\ Traces[i].integers = 1
    /\ r[1] = Traces[i].tmin
    /\ SumSeq(Cnt(r)) = Traces[i].n
    /\ \A k \in 1..NSt(i) : r[k + 1] >= 0
EndOK(i, r) == Traces[i].must_die_out = 1 => r[3] = 0

-----------------------------------------------------------------------------
Init == /\ tid \in 1..NT
        /\ l = 1
        /\ FirstRow(tid)
        /\ c = Cnt(Rows(tid)[1])
        /\ t = Rows(tid)[1][1]

Step == /\ l < Len(Rows(tid))
        /\ LET r == Rows(tid)[l] r2 == Rows(tid)[l + 1] IN
              /\ LegalStep(tid, r, r2)
              /\ TimeStep(tid, r, r2)
              /\ Horizon(tid, r2)
              /\ c' = Cnt(r2) /\ t' = r2[1]
        /\ l' = l + 1
        /\ UNCHANGED tid

Next == Step
Spec == Init /\ [][Next]_vars

\* state invariants of the count-level model, evaluated on every validated row
Conserved  == SumSeq(c) = Traces[tid].n
NonNegative == \A k \in DOMAIN c : c[k] >= 0
SIRMonotone == [][Traces[tid].kind = "SIR" => (c'[1] <= c[1] /\ c'[3] >= c[3])]_vars
TimeMonotone == [][t' >= t]_vars

Accepted == l = Len(Rows(tid)) /\ EndOK(tid, Rows(tid)[l])
EmitAccepted == Accepted => PrintT(<<"OK", tid>>)

\* diagnostics (second pass over rejected traces only)
EmitDiag == DiagMode =>
    IF l < Len(Rows(tid))
    THEN LET r == Rows(tid)[l] r2 == Rows(tid)[l + 1] IN
         PrintT(<<"AT", tid, l, [legal_step |-> LegalStep(tid, r, r2), time_step |-> TimeStep(tid, r, r2),
                                 before_tmax |-> Horizon(tid, r2)]>>)
    ELSE PrintT(<<"AT", tid, l, [end_condition |-> EndOK(tid, Rows(tid)[l])]>>)
ASSUME DiagMode => \A i \in 1..NT :
    PrintT(<<"FIRST", i, [equal_lengths |-> Traces[i].equal_lengths = 1, integers |-> Traces[i].integers = 1,
                          starts_at_tmin |-> Rows(i)[1][1] = Traces[i].tmin,
                          sums_to_N |-> SumSeq(Cnt(Rows(i)[1])) = Traces[i].n]>>)
=============================================================================

----------------------------- MODULE NetEpiOne -----------------------------
(* NetEpi restricted to ONE weighted graph and rate pair (constants), every   *)
(* status vector: used to emit the generator matrix of a single chain for the *)
(* master-equation oracle (C01/C02 statistical layer, C08).                   *)
EXTENDS NetEpi
CONSTANTS W0, G0, Tau0, Gam0
InitOne == /\ w = W0 /\ g = G0 /\ tau = Tau0 /\ gam = Gam0
           /\ st \in [Node -> Status] /\ ev = NoEvent
SpecOne == InitOne /\ [][Next]_vars
=============================================================================

------------------------------ MODULE EventSIS ------------------------------
(***************************************************************************)
(* Event-driven SIS with arbitrary infection durations and lists of        *)
(* transmission delays: fast_nonMarkov_SIS (property C13; also C04, C09).  *)
(*                                                                         *)
(* Ref  - the plain reference semantics of the property: a node infected   *)
(*        at s recovers at s+duration and attempts transmission to each    *)
(*        neighbour at s+d for every listed delay d; an attempt infects    *)
(*        the neighbour iff it is susceptible at that instant; nothing     *)
(*        else changes a status; events at or after tmax do not happen.    *)
(*        Every attempt is kept pending - no pruning.                      *)
(* Impl - the algorithm of _process_trans_SIS_nonMarkov_: only the next    *)
(*        attempt of a source->target pair is queued, the rest is chained  *)
(*        behind it, and attempts not later than the target's current      *)
(*        recovery time are pruned.                                        *)
(*                                                                         *)
(* Both run in lock step on every scenario of the JSON file named by       *)
(* EON_SCENARIOS; TLC checks that their logs of status changes coincide    *)
(* whenever event times are pairwise distinct (the property's quantifier), *)
(* and emits the reference log for the conformance harness.                *)
(* The k-th infection of node u uses row ((k-1) mod K)+1 of u's tables, so *)
(* user functions that answer differently on every call are covered.       *)
(***************************************************************************)
EXTENDS Naturals, FiniteSets, Sequences, SequencesExt, TLC, Json, IOUtils

INF == 1000000
Scenarios == JsonDeserialize(IOEnv.EON_SCENARIOS)
NS == Len(Scenarios)

VARIABLES sc,
          \* reference
          stR, cntR, pendR, logR, tied,
          \* implementation-shaped
          stI, cntI, QI, recI, logI, ctr

refvars  == <<stR, cntR, pendR, logR, tied>>
implvars == <<stI, cntI, QI, recI, logI, ctr>>
vars == <<sc, stR, cntR, pendR, logR, tied, stI, cntI, QI, recI, logI, ctr>>

Nodes      == 1..Scenarios[sc].n
Adj(u, v)  == Scenarios[sc].adj[u][v] = 1
Nbrs(u)    == {v \in Nodes : Adj(u, v)}
K          == Scenarios[sc].k
Row(k)     == ((k - 1) % K) + 1
Dur(u, k)  == Scenarios[sc].dur[u][Row(k)]
Dly(u, v, k) == Scenarios[sc].delay[u][v][Row(k)]      \* a sequence of delays
Tmin       == Scenarios[sc].tmin
Tmax       == Scenarios[sc].tmax
I0         == {u \in Nodes : Scenarios[sc].init[u] = "I"}

SeqToSet(s) == {s[i] : i \in 1..Len(s)}
MinTime(S)  == CHOOSE t \in {e.time : e \in S} : \A f \in S : f.time >= t

-----------------------------------------------------------------------------
(* Reference                                                               *)

\* everything a node infected at time t (its k-th infection) will ever do
AttemptsTo(u, v, t, k) ==
    {[time |-> t + Dly(u, v, k)[i], kind |-> "A", src |-> u, tgt |-> v] : i \in 1..Len(Dly(u, v, k))}
RefSchedule(u, t, k) ==
    {e \in {[time |-> t + Dur(u, k), kind |-> "R", src |-> 0, tgt |-> u]}
           \cup UNION {AttemptsTo(u, v, t, k) : v \in Nbrs(u)}
        : e.time < Tmax}

RefInit ==
    /\ stR = [u \in Nodes |-> IF u \in I0 THEN "I" ELSE "S"]
    /\ cntR = [u \in Nodes |-> IF u \in I0 THEN 1 ELSE 0]
    /\ pendR = IF Tmin < Tmax THEN UNION {RefSchedule(u, Tmin, 1) : u \in I0} ELSE {}
    /\ logR = <<>>
    /\ tied = FALSE

RefDone == pendR = {}

RefStep ==
    /\ pendR # {}
    /\ \E e \in pendR :
        /\ e.time = MinTime(pendR)
        /\ tied' = (tied \/ Cardinality({f \in pendR : f.time = e.time}) > 1)
        /\ IF e.kind = "R"
           THEN /\ stR' = [stR EXCEPT ![e.tgt] = "S"]
                /\ logR' = Append(logR, <<e.time, "R", e.tgt, 0>>)
                /\ pendR' = pendR \ {e}
                /\ UNCHANGED cntR
           ELSE IF stR[e.tgt] = "S"
                THEN /\ stR' = [stR EXCEPT ![e.tgt] = "I"]
                     /\ cntR' = [cntR EXCEPT ![e.tgt] = @ + 1]
                     /\ logR' = Append(logR, <<e.time, "I", e.tgt, e.src>>)
                     /\ pendR' = (pendR \ {e}) \cup RefSchedule(e.tgt, e.time, cntR[e.tgt] + 1)
                ELSE /\ pendR' = pendR \ {e}
                     /\ UNCHANGED <<stR, cntR, logR>>

-----------------------------------------------------------------------------
(* Implementation-shaped (simulation.py: _process_trans_SIS_nonMarkov_,    *)
(* _process_rec_SIS_, myQueue)                                             *)

Ev(t, c, k, a, b, fut) == [time |-> t, ctr |-> c, kind |-> k, src |-> a, tgt |-> b, fut |-> fut]
Shifted(s, t) == [i \in 1..Len(s) |-> t + s[i]]
FilterGT(s, x) == SelectSeq(s, LAMBDA y : y > x)

\* the events _process_trans_SIS_nonMarkov_ adds when `tgt` is infected at time t,
\* as a sequence (neighbours in increasing order; only used for counters)
RECURSIVE NbrEvents(_, _, _, _, _)
NbrEvents(x, t, k, vs, c) ==
    IF vs = {} THEN {}
    ELSE LET v == CHOOSE y \in vs : \A z \in vs : y <= z
             tt0 == SortSeq(Shifted(Dly(x, v, k), t), LAMBDA a, b : a < b)   \* sorted since the fix of the unsorted-list defect
             \* a self-loop (v = x): x has just been marked infected and its recovery time set, so its own attempts
             \* are filtered against its NEW recovery time t + Dur(x, k)
             tt == IF v = x THEN FilterGT(tt0, t + Dur(x, k))
                   ELSE IF stI[v] = "I" THEN FilterGT(tt0, recI[v]) ELSE tt0
         IN (IF Len(tt) > 0 /\ tt[1] < Tmax
             THEN {Ev(tt[1], c, "T", x, v, Tail(tt))} ELSE {})
            \cup NbrEvents(x, t, k, vs \ {v}, c + 1)

ImplInit ==
    /\ stI = [u \in Nodes |-> "S"]
    /\ cntI = [u \in Nodes |-> 0]
    /\ recI = [u \in Nodes |-> Tmin - 1]
    /\ QI = IF Tmin < Tmax THEN {Ev(Tmin, u, "T", 0, u, <<>>) : u \in I0} ELSE {}
    /\ logI = <<>>
    /\ ctr = Scenarios[sc].n + 1

ImplDone == QI = {}

ImplStep ==
    /\ QI # {}
    /\ \E e \in QI :
        /\ e.time = MinTime(QI)
        /\ IF e.kind = "R"
           THEN /\ stI' = [stI EXCEPT ![e.tgt] = "S"]
                /\ logI' = Append(logI, <<e.time, "R", e.tgt, 0>>)
                /\ QI' = QI \ {e}
                /\ UNCHANGED <<cntI, recI, ctr>>
           ELSE LET x == e.tgt
                    t == e.time
                    infect == stI[x] = "S"
                    k == cntI[x] + 1
                    rt == IF infect THEN t + Dur(x, k) ELSE recI[x]
                    recEv == IF infect /\ rt < Tmax THEN {Ev(rt, ctr, "R", 0, x, <<>>)} ELSE {}
                    nbrEv == IF infect THEN NbrEvents(x, t, k, Nbrs(x), ctr + 1) ELSE {}
                    fut == FilterGT(e.fut, rt)
                    chain == IF e.src # 0 /\ Len(fut) > 0 /\ fut[1] < Tmax
                             THEN {Ev(fut[1], ctr + 100, "T", e.src, x, Tail(fut))} ELSE {}
                IN /\ stI' = IF infect THEN [stI EXCEPT ![x] = "I"] ELSE stI
                   /\ cntI' = IF infect THEN [cntI EXCEPT ![x] = k] ELSE cntI
                   /\ recI' = [recI EXCEPT ![x] = rt]
                   /\ logI' = IF infect /\ e.src # 0 THEN Append(logI, <<t, "I", x, e.src>>) ELSE logI
                   /\ QI' = (QI \ {e}) \cup recEv \cup nbrEv \cup chain
                   /\ ctr' = ctr + 200

-----------------------------------------------------------------------------
Init == /\ sc \in 1..NS /\ RefInit /\ ImplInit

RefMove  == RefStep /\ UNCHANGED sc
ImplMove == ImplStep /\ UNCHANGED sc

\* lock step: each side moves if it can
Next == /\ ~(RefDone /\ ImplDone)
        /\ (RefStep \/ (RefDone /\ UNCHANGED refvars))
        /\ (ImplStep \/ (ImplDone /\ UNCHANGED implvars))
        /\ UNCHANGED sc

Spec == Init /\ [][Next]_vars

Done == RefDone /\ ImplDone

\* C13: with pairwise distinct event times the pruned/chained queue produces
\* exactly the reference history
SameHistory == (Done /\ ~tied) => logI = logR

\* no reported event at or after tmax, time never decreases in the reference log
LogBounded == \A i \in 1..Len(logR) : logR[i][1] < Tmax /\ logR[i][1] >= Tmin
LogOrdered == \A i \in 1..(Len(logR) - 1) : logR[i][1] <= logR[i + 1][1]
\* every logged infection has an infectious neighbour as its source at that instant
\* (checked on the reference state just before the event by the action property)
\* (only when every listed delay lies within the source's infectious period, as the docstring asks of the user;
\* scenarios flagged `late` deliberately list later attempts, which the property's semantics still honours)
InfectionCaused ==
    [][Scenarios[sc].late = 1 \/ \A v \in Nodes : (stR[v] = "S" /\ stR'[v] = "I") =>
            LET ev == logR'[Len(logR')] IN ev[3] = v /\ Adj(ev[4], v) /\ stR[ev[4]] = "I"]_refvars

\* emitted once per finished scenario for the harness (evaluated as an invariant)
EmitRef == Done => PrintT(<<"REF", sc, tied, logR>>)
=============================================================================

----------------------------- MODULE WeightedBag -----------------------------
(***************************************************************************)
(* Reference semantics of the candidate set used by every Gillespie        *)
(* simulator of EoN (class _ListDict_, EoN/simulation.py:205-361),         *)
(* property C16.                                                           *)
(*                                                                         *)
(* The abstract state is a partial function wt : Item -> weight.  The      *)
(* operations are the ones the simulators perform:                         *)
(*   Insert(x,w)  replace the weight of x by w; w = 0 means "remove and do *)
(*                not insert" (docstring of _ListDict_.insert)             *)
(*   Update(x,d)  d >= 0: add d to the weight of x, inserting x when it is *)
(*                absent (it is then present with weight d, also for d=0)  *)
(*   Remove(x)    only for a present x                                     *)
(*   Resum        update_total_weight(): no abstract effect                *)
(*   Select(x)    random_removal(): x is drawn with probability            *)
(*                SelNum(x)/SelDen and removed; enabled iff wt[x] > 0      *)
(* The selection law is the pair of operators SelNum / SelDen; choose_random*)
(* (selection without removal) obeys the same law and has no effect on wt. *)
(*                                                                         *)
(* k counts the operations of the history, op is the last operation (both  *)
(* hidden from the fingerprint by VIEW), so that with one worker TLC walks *)
(* the op-labelled graph on wt breadth first and EmitEdge / EmitState      *)
(* print it for the conformance harness: every state reachable by at most  *)
(* MaxOps operations, and every edge leaving a state reachable by fewer.   *)
(* A history of the bounded alphabet is a path of this graph; the harness  *)
(* walks the paths with the real class.                                    *)
(*                                                                         *)
(* The unweighted candidate set (_ListDict_()) is the instance             *)
(* Weights = {1}, Incs = {}: both insert(x) and update(x) mean Insert(x,1).*)
(***************************************************************************)
EXTENDS Integers, FiniteSets, Sequences, TLC

CONSTANTS N,           \* items are 1..N
          Weights,     \* weights that Insert may assign (contains 0 in the weighted runs)
          Incs,        \* increments that Update may add (all >= 0, contains 0)
          MaxOps,      \* bound on the length of a history
          AllowResum   \* TRUE: Resum is part of the alphabet

Item == 1 .. N

VARIABLES wt,   \* partial function Item -> Nat
          k,    \* number of operations so far
          op    \* last operation <<kind, item, argument>>

vars == <<wt, k, op>>
View == wt

-----------------------------------------------------------------------------
Present(x) == x \in DOMAIN wt
Get(x)     == IF x \in DOMAIN wt THEN wt[x] ELSE 0

Put(f, x, w) == [y \in DOMAIN f \cup {x} |-> IF y = x THEN w ELSE f[y]]
Drop(f, x)   == [y \in DOMAIN f \ {x} |-> f[y]]

RECURSIVE SumF(_, _)
SumF(f, S) == IF S = {} THEN 0
              ELSE LET x == CHOOSE y \in S : TRUE IN f[x] + SumF(f, S \ {x})

\* ---- the observables of the API -------------------------------------------
Size   == Cardinality(DOMAIN wt)          \* len()
Total  == SumF(wt, DOMAIN wt)             \* total_weight()
\* selection law: P(select x) = SelNum(x) / SelDen, defined when SelDen > 0
SelNum(x) == Get(x)
SelDen    == Total

NoOp == <<"-", 0, 0>>

Init == wt = <<>> /\ k = 0 /\ op = NoOp

Tick == k < MaxOps /\ k' = k + 1

Insert(x, w) == /\ Tick
                /\ wt' = IF w = 0 THEN Drop(wt, x) ELSE Put(wt, x, w)
                /\ op' = <<"I", x, w>>
Update(x, d) == /\ Tick
                /\ wt' = Put(wt, x, Get(x) + d)
                /\ op' = <<"U", x, d>>
Remove(x)    == /\ Tick
                /\ Present(x)
                /\ wt' = Drop(wt, x)
                /\ op' = <<"R", x, 0>>
Resum        == /\ Tick
                /\ AllowResum
                /\ wt' = wt
                /\ op' = <<"T", 0, 0>>
\* random_removal(): the third component is the numerator of the probability
Select(x)    == /\ Tick
                /\ Present(x) /\ SelNum(x) > 0
                /\ wt' = Drop(wt, x)
                /\ op' = <<"S", x, SelNum(x)>>

Next == \/ \E x \in Item, w \in Weights : Insert(x, w)
        \/ \E x \in Item, d \in Incs : Update(x, d)
        \/ \E x \in Item : Remove(x)
        \/ Resum
        \/ \E x \in Item : Select(x)

Spec == Init /\ [][Next]_vars

-----------------------------------------------------------------------------
(* What TLC checks about the reference itself                               *)

TypeOK == /\ DOMAIN wt \subseteq Item
          /\ \A x \in DOMAIN wt : wt[x] \in Nat
          /\ k \in 0 .. MaxOps

RECURSIVE SumNum(_)
SumNum(S) == IF S = {} THEN 0
             ELSE LET x == CHOOSE y \in S : TRUE IN SelNum(x) + SumNum(S \ {x})

\* the numerators form a probability vector over the present items whenever
\* the denominator is positive; zero-weight and absent items have numerator 0
SelLaw == /\ SumNum(Item) = SelDen
          /\ \A x \in Item : /\ SelNum(x) >= 0 /\ SelNum(x) <= SelDen
                             /\ (~Present(x) => SelNum(x) = 0)
                             /\ (Present(x) /\ wt[x] = 0 => SelNum(x) = 0)
          /\ Total = SelDen
          /\ (Size = 0 => Total = 0)

\* a selection is possible exactly when the clock rate is positive
SelectIffPositive == k < MaxOps => ((ENABLED (\E x \in Item : Select(x))) <=> (SelDen > 0))

\* an operation touches the item it names and nothing else, and the total
\* moves by exactly the change of that item's weight
Frame == [][\A y \in Item : y # op'[2] =>
               /\ (y \in DOMAIN wt') <=> (y \in DOMAIN wt)
               /\ (y \in DOMAIN wt => wt'[y] = wt[y])]_vars
TotalTracks == [][LET x == op'[2]
                      a == IF x \in DOMAIN wt  THEN wt[x]  ELSE 0
                      b == IF x \in DOMAIN wt' THEN wt'[x] ELSE 0
                  IN Total' = Total - a + b]_vars
\* Insert replaces (never accumulates); weight 0 leaves the item absent
InsertReplaces == [][op'[1] = "I" =>
                       IF op'[3] = 0 THEN op'[2] \notin DOMAIN wt'
                       ELSE op'[2] \in DOMAIN wt' /\ wt'[op'[2]] = op'[3]]_vars

-----------------------------------------------------------------------------
(* Emission for the conformance harness (one worker)                        *)
Enc(f) == [x \in Item |-> IF x \in DOMAIN f THEN f[x] ELSE -1]
\* ACTION_CONSTRAINT: every edge of the op-labelled graph
EmitEdge == PrintT(<<"G", Enc(wt), op', Enc(wt')>>)
\* INVARIANT: the observables of every state
EmitState == PrintT(<<"O", Enc(wt), Size, Total, [x \in Item |-> SelNum(x)]>>)
=============================================================================

----------------------------- MODULE ListDictImpl -----------------------------
(***************************************************************************)
(* Implementation-shaped specification of class _ListDict_                 *)
(* (EoN/simulation.py:205-361), property C16: a statement-by-statement     *)
(* transcription of the Python methods.  One action per API call (the class*)
(* is used sequentially, a call is one critical section); the Python        *)
(* statements of a method are the LET-chain of the corresponding operator, *)
(* in program order, with the source line in the comment.                  *)
(*                                                                         *)
(*   Python attribute          variable                                    *)
(*   self.items                items    sequence (Python index i = TLA i+1)*)
(*   self.item_to_position     pos      partial function item -> 0-based   *)
(*   self.weight (defaultdict) weight   partial function, absent reads as 0*)
(*   self._total_weight        total                                       *)
(*   self.max_weight           maxw                                        *)
(*   self.max_weight_count     maxcnt   (may go negative: as coded)        *)
(*   an exception              err      name of the exception, else "none" *)
(*                                                                         *)
(* "Model what the code does": update() with a zero increment on an item   *)
(* whose weight equals max_weight takes the `else' branch (written for     *)
(* negative increments), decrements max_weight_count twice and, at line    *)
(* 302, only *references* self._update_max_weight without calling it.      *)
(* remove() recounts the maximum only when max_weight_count reaches exactly*)
(* 0 and the bag is not empty.  So maxcnt drifts away from the true        *)
(* multiplicity of the maximum; what TLC establishes here is that maxw     *)
(* nevertheless always stays an upper bound of all weights, which is what  *)
(* rejection sampling needs (invariants UpperBound, SelectionExact).       *)
(*                                                                         *)
(* Comments of the form @cov:<name> mark branches whose TLC coverage count  *)
(* the check reads to rule out a vacuous run.                              *)
(*                                                                         *)
(* Only the calls the simulators make are in the alphabet: insert with     *)
(* weight >= 0, update with increment >= 0 (None in the unweighted class), *)
(* remove of a present item, update_total_weight, random_removal /         *)
(* choose_random when the total weight is positive.                        *)
(*                                                                         *)
(* Refinement: Ref == INSTANCE WeightedBag with wt <- Proj (what the API   *)
(* shows: membership from item_to_position, weights from self.weight); TLC *)
(* checks ListDictImpl => Ref!Spec, i.e. after every call the projection   *)
(* of the implementation state is the reference state after the same       *)
(* operation.                                                              *)
(***************************************************************************)
EXTENDS Integers, FiniteSets, Sequences, TLC

CONSTANTS N, Weights, Incs, MaxOps, AllowResum,
          Weighted     \* TRUE: _ListDict_(weighted=True); FALSE: _ListDict_()

Item == 1 .. N
None == -1             \* Python's None as an argument value

VARIABLES items, pos, weight, total, maxw, maxcnt, err,
          k,     \* number of calls so far
          op,    \* the reference-level name of the last call (see RefOp)
          hist   \* the calls made so far, as <<kind, item, argument>> (hidden by VIEW)

ivars == <<items, pos, weight, total, maxw, maxcnt, err>>
vars  == <<items, pos, weight, total, maxw, maxcnt, err, k, op, hist>>
View    == <<items, pos, weight, total, maxw, maxcnt, err, k>>   \* exhaustive run
ViewNoK == <<items, pos, weight, total, maxw, maxcnt, err>>      \* emission run (1 worker, BFS)

-----------------------------------------------------------------------------
Put(f, x, w) == [y \in DOMAIN f \cup {x} |-> IF y = x THEN w ELSE f[y]]
Drop(f, x)   == [y \in DOMAIN f \ {x} |-> f[y]]
Range(s)     == {s[i] : i \in 1 .. Len(s)}
SetMax(S)    == CHOOSE m \in S : \A y \in S : y <= m
RECURSIVE SumF(_, _)
SumF(f, S) == IF S = {} THEN 0
              ELSE LET x == CHOOSE y \in S : TRUE IN f[x] + SumF(f, S \ {x})

\* the object as one record, so that methods can call each other
Obj == [items |-> items, pos |-> pos, weight |-> weight, total |-> total,
        maxw |-> maxw, maxcnt |-> maxcnt, err |-> err]
Becomes(s) == /\ items' = s.items /\ pos' = s.pos /\ weight' = s.weight
              /\ total' = s.total /\ maxw' = s.maxw /\ maxcnt' = s.maxcnt
              /\ err' = s.err
Raise(s, e) == [s EXCEPT !.err = e]

\* self.weight[x] of a defaultdict(int) read: absent keys read as 0 (the key
\* that the read creates is assigned in the same call in every use below)
W(s, x) == IF x \in DOMAIN s.weight THEN s.weight[x] ELSE 0

\* ---- __init__ (237-246) ----------------------------------------------------
Init == /\ items = <<>> /\ pos = <<>>
        /\ weight = <<>> /\ total = 0 /\ maxw = 0 /\ maxcnt = 0
        /\ err = "none" /\ k = 0 /\ op = <<"-", 0, 0>> /\ hist = <<>>

\* ---- __len__, __contains__, total_weight (249-253, 355-359) ----------------
LenOf(s)      == Len(s.items)
Contains(s,x) == x \in DOMAIN s.pos
TotalWeight(s) == IF Weighted THEN s.total ELSE Len(s.items)

\* ---- _update_max_weight (255-258) -------------------------------------------
UpdateMaxWeight(s) ==
    IF DOMAIN s.weight = {} THEN Raise(s, "ValueError")            \* max() of an empty sequence
    ELSE LET vals == {s.weight[y] : y \in DOMAIN s.weight}
             m    == SetMax(vals)                                     \* 257
         IN [s EXCEPT !.maxw = m,
                      !.maxcnt = Cardinality({y \in DOMAIN s.weight : s.weight[y] = m})]   \* 258

\* ---- remove (311-328) --------------------------------------------------------
RemoveM(s, choice) ==
    IF choice \notin DOMAIN s.pos THEN Raise(s, "KeyError")         \* 312 pop of a missing key
    ELSE IF Len(s.items) = 0 THEN Raise(s, "IndexError")            \* 313 pop from empty list
    ELSE
    LET position == s.pos[choice]                                     \* 312
        pos1     == Drop(s.pos, choice)                               \* 312
        n        == Len(s.items)
        lastItem == s.items[n]                                        \* 313
        items1   == SubSeq(s.items, 1, n - 1)                         \* 313
        moved    == position # Len(items1)                            \* 314
        bad      == moved /\ ~(position + 1 \in 1 .. Len(items1))     \* 315 would raise IndexError
        items2   == IF moved /\ ~bad
                    THEN [items1 EXCEPT ![position + 1] = lastItem]   \* 315  @cov:move-last
                    ELSE items1
        pos2     == IF moved /\ ~bad
                    THEN Put(pos1, lastItem, position)                \* 316
                    ELSE pos1
        s1       == [s EXCEPT !.items = items2, !.pos = pos2]
    IN IF bad THEN Raise(s1, "IndexError")
       ELSE IF ~Weighted THEN s1                                      \* 318
       ELSE IF choice \notin DOMAIN s1.weight THEN Raise(s1, "KeyError")   \* 319
       ELSE
       LET w  == s1.weight[choice]                                    \* 319
           s2 == [s1 EXCEPT !.weight = Drop(s1.weight, choice),       \* 319
                            !.total  = s1.total - w]                  \* 320
           s4 == IF w = s2.maxw                                       \* 321
                 THEN LET s3 == [s2 EXCEPT !.maxcnt = s2.maxcnt - 1]  \* 326
                      IN IF s3.maxcnt = 0 /\ Len(s3.items) > 0        \* 327
                         THEN UpdateMaxWeight(s3)                     \* 328  @cov:recount
                         ELSE s3
                 ELSE s2
       \* 330-333 (fix 3c9b161): nothing with positive weight is left -> the running total is reset to exactly 0
       \* (sheds the rounding residue of the float total; in exact arithmetic it is already 0: TotalIsSum, UpperBound)
       IN IF s4.err = "none" /\ (Len(s4.items) = 0 \/ s4.maxw = 0)
          THEN [s4 EXCEPT !.total = 0]                                \* @cov:reset-total
          ELSE s4

\* ---- update (279-309) --------------------------------------------------------
UpdateM(s, item, inc) ==
    LET s1 ==
        IF inc # None                                                 \* 287
        THEN IF ~Weighted THEN Raise(s, "AttributeError")             \* no self.weight in the unweighted class
             ELSE IF inc > 0 \/ W(s, item) # s.maxw                   \* 288
             THEN LET nw == W(s, item) + inc                          \* 289
                      a  == [s EXCEPT !.weight = Put(s.weight, item, nw),  \* 289
                                      !.total  = s.total + inc]       \* 290
                  IN IF nw > a.maxw                                   \* 291
                     THEN [a EXCEPT !.maxcnt = 1, !.maxw = nw]        \* 292-293  @cov:new-max
                     ELSE IF nw = a.maxw                              \* 294
                     THEN [a EXCEPT !.maxcnt = a.maxcnt + 1]          \* 295  @cov:tie-max
                     ELSE a
             ELSE \* "it's a negative increment and was at max"; reached with inc = 0
                  LET nw == W(s, item) + inc
                      a  == [s EXCEPT !.maxcnt = s.maxcnt - 1 - 1,    \* 297 and 300  @cov:zero-inc-at-max
                                      !.weight = Put(s.weight, item, nw),   \* 298
                                      !.total  = s.total + inc]       \* 299
                  IN a   \* 301-302: `self._update_max_weight' is referenced, not called: no effect
        ELSE IF Weighted THEN Raise(s, "Exception")                   \* 303-304
        ELSE s
    IN IF s1.err # "none" THEN s1
       ELSE IF Contains(s1, item) THEN s1                             \* 306-307
       ELSE [s1 EXCEPT !.items = Append(s1.items, item),              \* 308
                       !.pos   = Put(s1.pos, item, Len(s1.items))]    \* 309 (len-1 after the append)

\* ---- insert (261-276) --------------------------------------------------------
InsertM(s, item, w) ==
    LET s1 == IF Contains(s, item) THEN RemoveM(s, item) ELSE s       \* 273-274
    IN IF s1.err # "none" THEN s1
       ELSE IF w # 0 THEN UpdateM(s1, item, w) ELSE s1                \* 275-276

\* ---- update_total_weight (360-361) ------------------------------------------
ResumM(s) ==
    LET n  == Len(s.items)
        \* the defaultdict reads create the missing keys with weight 0
        w2 == [y \in DOMAIN s.weight \cup Range(s.items) |-> W(s, y)]
    IN [s EXCEPT !.weight = w2,
                 !.total  = SumF([i \in 1 .. n |-> w2[s.items[i]]], 1 .. n)]     \* 361

\* ---- choose_random (330-346): one round = uniform pick, then accept test ----
\* P(round picks x and accepts) = (1/len) * AccNum(x)/AccDen.  The accept test
\* `random() < weight/max_weight' saturates at 1 when weight > max_weight, hence Min.
AccDen(s)    == IF Weighted THEN s.maxw ELSE 1
AccNum(s, x) == IF ~Weighted THEN 1
                ELSE IF W(s, x) <= s.maxw THEN W(s, x) ELSE s.maxw
\* occurrences of x in the list (1 when the structure is consistent)
Occ(s, x) == Cardinality({i \in 1 .. Len(s.items) : s.items[i] = x})
\* numerator of P(select x) after folding the rejection loop; denominator SelDenI
SelNumI(s, x) == Occ(s, x) * AccNum(s, x)
SelDenI(s)    == SumF([x \in Item |-> SelNumI(s, x)], Item)
\* the loop terminates with probability 1 iff some round can accept
CanChoose(s)  == Len(s.items) > 0 /\ AccDen(s) > 0 /\ SelDenI(s) > 0

-----------------------------------------------------------------------------
(* Binding of calls to reference operations.  In the unweighted class       *)
(* insert(x) and update(x) both mean "make x present": Insert(x,1).         *)
RefOp(c) == IF Weighted THEN c
            ELSE IF c[1] \in {"I", "U"} THEN <<"I", c[2], 1>> ELSE c

Call(c, s) == /\ err = "none" /\ k < MaxOps /\ k' = k + 1
              /\ Becomes(s)
              /\ hist' = Append(hist, c)
              /\ op' = RefOp(c)

Args == IF Weighted THEN Weights ELSE {None}
IncArgs == IF Weighted THEN Incs ELSE {None}

Insert(x, w)  == x \in Item /\ Call(<<"I", x, w>>, InsertM(Obj, x, w))
Update(x, d)  == x \in Item /\ Call(<<"U", x, d>>, UpdateM(Obj, x, d))
Remove(x)     == Contains(Obj, x) /\ Call(<<"R", x, 0>>, RemoveM(Obj, x))
Resum         == AllowResum /\ Weighted /\ Call(<<"T", 0, 0>>, ResumM(Obj))
\* random_removal (349-353): the item the rejection loop can return, then remove
Pick(x)       == /\ CanChoose(Obj) /\ SelNumI(Obj, x) > 0
                 /\ Call(<<"S", x, IF Weighted THEN W(Obj, x) ELSE 1>>, RemoveM(Obj, x))

Next == \/ \E x \in Item, w \in Args : Insert(x, w)
        \/ \E x \in Item, d \in IncArgs : Update(x, d)
        \/ \E x \in Item : Remove(x)
        \/ Resum
        \/ \E x \in Item : Pick(x)

Spec == Init /\ [][Next]_vars

-----------------------------------------------------------------------------
(* Invariants of the algorithm                                              *)

NoError == err = "none"

\* items / item_to_position describe the same duplicate-free list
PosItemsConsistent ==
    /\ DOMAIN pos = Range(items)
    /\ Cardinality(Range(items)) = Len(items)
    /\ \A x \in DOMAIN pos : pos[x] + 1 \in 1 .. Len(items) /\ items[pos[x] + 1] = x

\* the weight dictionary has exactly the listed items as keys, weights >= 0
KeysConsistent == Weighted => /\ DOMAIN weight = Range(items)
                              /\ \A x \in DOMAIN weight : weight[x] >= 0
TypeOK == /\ Range(items) \subseteq Item /\ DOMAIN pos \subseteq Item
          /\ total \in Int /\ maxw \in Int /\ maxcnt \in Int /\ k \in 0 .. MaxOps

\* _total_weight is the sum of the current weights
TotalIsSum == Weighted => total = SumF(weight, DOMAIN weight)

\* what rejection sampling needs: max_weight bounds every weight from above
\* and is positive as soon as some weight is
UpperBound == Weighted => /\ \A x \in DOMAIN weight : weight[x] <= maxw
                          /\ ((\E x \in DOMAIN weight : weight[x] > 0) => maxw > 0)

\* informational (expected to FAIL, checked in a separate run and reported as a
\* NOTE): max_weight is the exact maximum / max_weight_count its multiplicity
MaxTight == Weighted /\ Len(items) > 0 =>
              \E x \in DOMAIN weight : weight[x] = maxw
CountExact == Weighted /\ Len(items) > 0 =>
              maxcnt = Cardinality({x \in DOMAIN weight : weight[x] = maxw})

-----------------------------------------------------------------------------
(* Refinement of the reference                                              *)
Proj == [x \in DOMAIN pos |-> IF Weighted THEN W(Obj, x) ELSE 1]

Ref == INSTANCE WeightedBag WITH wt <- Proj
RefSpec == Ref!Spec

\* API observables agree with the reference's
ObservablesAgree == /\ LenOf(Obj) = Ref!Size
                    /\ TotalWeight(Obj) = Ref!Total

\* the folded selection law of the implementation is the reference law:
\*   SelNumI(x)/SelDenI = SelNum(x)/SelDen  (cross-multiplied), whenever the
\* reference allows a selection; and then the loop does terminate
SelectionExact ==
    Ref!SelDen > 0 =>
        /\ CanChoose(Obj)
        /\ \A x \in Item : SelNumI(Obj, x) * Ref!SelDen = Ref!SelNum(x) * SelDenI(Obj)
\* zero-weight and absent items are never returned
ZeroNeverSelected == \A x \in Item : Ref!SelNum(x) = 0 => SelNumI(Obj, x) = 0

-----------------------------------------------------------------------------
(* Emission for the conformance harness: one shortest history per distinct  *)
(* implementation state (INVARIANT, VIEW ViewNoK, one worker), together    *)
(* with the implementation-level values, which the harness compares with    *)
(* the private attributes of the real object for information only           *)
EmitHist == PrintT(<<"H", hist, items, total, maxw, maxcnt>>)
=============================================================================

----------------------------- MODULE ListDictInd -----------------------------
(***************************************************************************)
(* "After ANY history" (C16) without a bound on the length of the history: *)
(* the conjunction IndInv of the algorithm's invariants is INDUCTIVE for    *)
(* the implementation-shaped ListDictImpl.                                  *)
(*                                                                         *)
(* TLC is started in EVERY state that satisfies IndInv with values inside  *)
(* a box (duplicate-free lists over Item, weights 0..WMax, any admissible  *)
(* max_weight, any max_weight_count in a window around the true one) - not *)
(* only in the states reachable from the empty object - and takes ONE call *)
(* of every kind (MaxOps = 1).  IndInv is required of every successor, and *)
(* so are the observable consequences (API observables agree with the      *)
(* reference bag, the folded selection law is weight/total, zero weights   *)
(* are never selected).  Since Init satisfies IndInv, IndInv holds after   *)
(* histories of any length whose values stay in the box - the successor    *)
(* states themselves are allowed to leave the box (weights up to WMax+max  *)
(* increment), which is why the box is part of IndInit and not of IndInv.  *)
(*                                                                         *)
(* This is the Apalache-style inductiveness check (Init => IndInv,         *)
(* IndInv /\ Next => IndInv') done by enumeration; the value box is the    *)
(* only bound.                                                             *)
(***************************************************************************)
EXTENDS ListDictImpl

CONSTANTS WMax, CntBelow, CntHi

IndInv == /\ NoError
          /\ PosItemsConsistent
          /\ KeysConsistent
          /\ TotalIsSum
          /\ UpperBound
          /\ TypeOK

DupFree(s) == \A i, j \in 1 .. Len(s) : i # j => s[i] # s[j]
Lists == {s \in UNION {[1 .. m -> Item] : m \in 0 .. N} : DupFree(s)}

IndInit ==
    /\ items \in Lists
    /\ pos = [x \in Range(items) |-> (CHOOSE i \in 1 .. Len(items) : items[i] = x) - 1]
    /\ IF Weighted
       THEN /\ weight \in [Range(items) -> 0 .. WMax]
            /\ total = SumF(weight, DOMAIN weight)
            /\ maxw \in 0 .. (WMax + 1)
            /\ maxcnt \in (0 - CntBelow) .. CntHi
       ELSE weight = <<>> /\ total = 0 /\ maxw = 0 /\ maxcnt = 0
    /\ err = "none" /\ k = 0 /\ op = <<"-", 0, 0>> /\ hist = <<>>
    /\ IndInv

IndSpec == IndInit /\ [][Next]_vars

\* Init of the real object lies inside the inductive set
InitInInd == (items = <<>> /\ pos = <<>> /\ weight = <<>> /\ total = 0 /\ maxw = 0 /\ maxcnt = 0 /\ err = "none") => IndInv
=============================================================================

---------------------------- MODULE NetEpiTrees ----------------------------
(***************************************************************************)
(* The network SIR chain of NetEpi restricted to contact networks that are *)
(* TREES (property C08, clause 1: the pair-based closure of                *)
(* SIR_pair_based is exact precisely because removing an infected node     *)
(* disconnects its neighbours, i.e. on trees), and, as the vacuity         *)
(* control, to connected networks that contain a cycle.                    *)
(*                                                                         *)
(* Nothing of the dynamics is restated: Next, the rates and the emission   *)
(* are NetEpi's.  Only the set of initial valuations of the frozen         *)
(* weight vector w is narrowed, by the predicate IsTree defined below.     *)
(* The definition itself is checked by TLC (CheckDefs = TRUE): on every    *)
(* graph on Node it agrees with two other classical characterisations      *)
(* (minimally connected; acyclic with N-1 edges) and the number of trees   *)
(* is Cayley's N^(N-2).                                                    *)
(***************************************************************************)
EXTENDS NetEpi

CONSTANTS Shape,      \* {} : every graph of the chosen kind on Node;
                      \* otherwise a set of pair indices: the support of w is exactly Shape
                      \* (bounds the emitted domain to one labelled graph; IsTree still decides)
          Cyclic,     \* FALSE: trees.  TRUE: connected graphs that are not trees (control)
          CheckDefs   \* TRUE: evaluate the definitional ASSUMEs below at start-up

-----------------------------------------------------------------------------
(* graph predicates on a weight vector ww (0 = no edge)                     *)
WtW(ww, u, v)  == IF u = v THEN 0 ELSE ww[PairIdx(u, v)]
NbrW(ww, u)    == {v \in Node : WtW(ww, u, v) > 0}
EdgesW(ww)     == {p \in 1..NP : ww[p] > 0}

\* nodes reachable from S in at most k steps (k = N-1 suffices)
RECURSIVE GrowW(_, _, _)
GrowW(ww, S, k) == IF k = 0 THEN S
                   ELSE GrowW(ww, S \cup UNION {NbrW(ww, u) : u \in S}, k - 1)
ConnectedW(ww) == GrowW(ww, {1}, N - 1) = Node

\* the definition used: connected with N-1 edges
TreeW(ww) == Cardinality(EdgesW(ww)) = N - 1 /\ ConnectedW(ww)

\* characterisation 2: minimally connected (removing any edge disconnects)
Without(ww, p) == [q \in 1..NP |-> IF q = p THEN 0 ELSE ww[q]]
MinConnW(ww)   == ConnectedW(ww) /\ \A p \in EdgesW(ww) : ~ ConnectedW(Without(ww, p))

\* characterisation 3: N-1 edges and acyclic.  A graph is acyclic iff repeatedly
\* deleting nodes of degree <= 1 deletes every node.
RECURSIVE PruneW(_, _, _)
PruneW(ww, Alive, k) ==
    IF k = 0 THEN Alive
    ELSE LET leaves == {u \in Alive : Cardinality(NbrW(ww, u) \cap Alive) <= 1}
         IN  PruneW(ww, Alive \ leaves, k - 1)
AcyclicW(ww)   == PruneW(ww, Node, N) = {}
AcycTreeW(ww)  == Cardinality(EdgesW(ww)) = N - 1 /\ AcyclicW(ww)

AllSupports == [1..NP -> {0, 1}]
RECURSIVE Pow(_, _)
Pow(b, e) == IF e = 0 THEN 1 ELSE b * Pow(b, e - 1)
NumTrees == Cardinality({ww \in AllSupports : TreeW(ww)})

ASSUME DefsAgree ==
    CheckDefs => \A ww \in AllSupports : /\ TreeW(ww) <=> MinConnW(ww)
                                         /\ TreeW(ww) <=> AcycTreeW(ww)
ASSUME Cayley ==
    CheckDefs => /\ NumTrees = (IF N <= 2 THEN 1 ELSE Pow(N, N - 2))
                 /\ PrintT(<<"TREES", N, NumTrees>>)

-----------------------------------------------------------------------------
IsTree   == TreeW(w)
IsCyclic == ConnectedW(w) /\ Cardinality(EdgesW(w)) >= N

WDomain == IF Shape = {} THEN [1..NP -> {0} \cup EW]
           ELSE {[p \in 1..NP |-> IF p \in Shape THEN f[p] ELSE 0] : f \in [Shape -> EW]}

\* NetEpi!Init with the weight vector narrowed (conjunct order matters for TLC:
\* the graph is filtered before the other frozen variables are enumerated)
InitTrees == /\ w \in WDomain
             /\ IF Cyclic THEN IsCyclic ELSE IsTree
             /\ g \in [Node -> NW]
             /\ tau \in TauSet /\ gam \in GamSet
             /\ st \in [Node -> Status]
             /\ ev = NoEvent

SpecTrees == InitTrees /\ [][Next]_vars

\* every initial state of SpecTrees is an initial state of NetEpi (checked as a PROPERTY)
InitRefines == Init
\* the restriction is stable: the graph stays the tree (or the cyclic graph) it was
KindFrozen == IF Cyclic THEN IsCyclic ELSE IsTree
\* a tree has exactly N-1 edges and every node has a neighbour (N >= 2)
TreeShape == (~ Cyclic) => /\ Cardinality(EdgesW(w)) = N - 1
                          /\ (N >= 2 => \A u \in Node : Nbr(u) # {})
=============================================================================

--------------------------- MODULE CompartmentFlow ---------------------------
(***************************************************************************)
(* Reference semantics of the compartment totals (S, I, R) reported by     *)
(* every ODE entry point of EoN/analytic.py (property C06, part (b); the   *)
(* tau = 0 / gamma = 0 guards are shared with C08).                        *)
(*                                                                         *)
(* Quantities are fixed-point integers (value * 10^6 in the trace binding; *)
(* small abstract units in the exhaustive configuration).  One action per  *)
(* output row:                                                             *)
(*     Flow(a, b):  a >= 0 moves from S to I  (enabled only when tau > 0)  *)
(*                  b >= 0 moves from I to R  (SIR) or back to S (SIS)     *)
(*                         (enabled only when gamma > 0; in the            *)
(*                          discrete-time models b = I: everybody          *)
(*                          infectious recovers after exactly one step)    *)
(* together with the row counter k that indexes the report grid            *)
(*     t_k = tmin + k (tmax - tmin) / (tcount - 1)  = linspace(...)[k].    *)
(*                                                                         *)
(* The parameters are a variable chosen in Init and frozen, so one TLC run *)
(* covers SIR and SIS, continuous and discrete, and the four zero/non-zero *)
(* rate combinations.  TLC checks on this module that the population is    *)
(* conserved, compartments stay within [0, N], S is non-increasing and R   *)
(* non-decreasing for SIR, nothing leaves S when tau = 0 and nothing       *)
(* leaves I when gamma = 0 -- and that every step of the reference         *)
(* satisfies the clause predicates (RowOK, FlowOK with eps = 0) that the   *)
(* monitor TraceCompartmentFlow evaluates, with tolerance eps, on the rows *)
(* returned by the real code.                                              *)
(***************************************************************************)
EXTENDS Integers

CONSTANTS MaxPop,   \* exhaustive configuration: population sizes 1..MaxPop (abstract units)
          MaxRows   \* exhaustive configuration: tcount \in 2..MaxRows

VARIABLES par,      \* [N, sir, disc, tau0, gam0, tcount] -- frozen
          S, I, R,  \* compartment totals
          k         \* index of the current output row (0-based)

vars == <<par, S, I, R, k>>

Params == [N : 1..MaxPop, sir : BOOLEAN, disc : BOOLEAN, tau0 : BOOLEAN, gam0 : BOOLEAN,
           tcount : 2..MaxRows]

(***************************************************************************)
(* Clause predicates over explicit arguments (pure), shared with the       *)
(* monitor.  eps is the tolerance in fixed-point units.                    *)
(***************************************************************************)
Near(x, y, eps) == x - y <= eps /\ y - x <= eps

BoundsOK(p, s, i, r, eps) ==
    /\ s >= -eps /\ s <= p.N + eps
    /\ i >= -eps /\ i <= p.N + eps
    /\ r >= -eps /\ r <= p.N + eps
ConservedOK(p, s, i, r, eps) == Near(s + i + r, p.N, eps)
NoRecoveredInSIS(p, r) == ~p.sir => r = 0
RowOK(p, s, i, r, eps) == BoundsOK(p, s, i, r, eps) /\ ConservedOK(p, s, i, r, eps) /\ NoRecoveredInSIS(p, r)

\* Between two consecutive rows (s,i,r) -> (s2,i2,r2) the flows are read off the rows:
\* SIR: a = s - s2 (left S), b = r2 - r (left I).  SIS: only the net flow c = i2 - i is observable.
MonotoneSOK(p, s, s2, eps) == p.sir => s2 <= s + eps                  \* a >= -eps
MonotoneROK(p, r, r2, eps) == p.sir => r2 >= r - eps                  \* b >= -eps
BalanceOK(p, s, i, r, s2, i2, r2, eps) ==                             \* I' = I + a - b
    IF p.sir THEN Near(i2, i + (s - s2) - (r2 - r), eps)
    ELSE Near(s2, s - (i2 - i), eps)
\* tau = 0: nothing leaves S.  SIR: S constant.  SIS: S can only grow (I can only shrink).
TauZeroOK(p, s, i, s2, i2, eps) ==
    p.tau0 => IF p.sir THEN Near(s2, s, eps) ELSE i2 <= i + eps
\* gamma = 0 (continuous time): nothing leaves I.  SIR: R constant.  SIS: S can only shrink.
GammaZeroOK(p, s, r, s2, r2, eps) ==
    (p.gam0 /\ ~p.disc) => IF p.sir THEN Near(r2, r, eps) ELSE s2 <= s + eps
\* discrete time: the infectious period is exactly one step, R' = R + I
DiscreteOK(p, i, r, r2, eps) == (p.disc /\ p.sir) => Near(r2, r + i, eps)

FlowOK(p, s, i, r, s2, i2, r2, eps) ==
    /\ MonotoneSOK(p, s, s2, eps) /\ MonotoneROK(p, r, r2, eps)
    /\ BalanceOK(p, s, i, r, s2, i2, r2, eps)
    /\ TauZeroOK(p, s, i, s2, i2, eps) /\ GammaZeroOK(p, s, r, s2, r2, eps)
    /\ DiscreteOK(p, i, r, r2, eps)

\* the report grid, in integers:  T (tcount-1) = tmin (tcount-1) + j (tmax-tmin), up to rounding of T
GridOK(tmin, tmax, tcount, j, T) ==
    /\ tcount >= 2
    /\ Near(T * (tcount - 1), tmin * (tcount - 1) + j * (tmax - tmin), tcount - 1)

(***************************************************************************)
(* The reference transition system (exact, eps = 0).                       *)
(***************************************************************************)
Init == /\ par \in Params
        /\ par.disc => par.sir                   \* the discrete-time models of the library are SIR
        /\ S \in 0..par.N /\ I \in 0..par.N /\ R \in 0..par.N
        /\ S + I + R = par.N
        /\ ~par.sir => R = 0
        /\ k = 0

Flow(a, b) ==
    /\ k < par.tcount - 1
    /\ a >= 0 /\ b >= 0 /\ a <= S /\ b <= I + a
    /\ par.tau0 => a = 0
    /\ (par.gam0 /\ ~par.disc) => b = 0
    /\ par.disc => b = I
    /\ S' = IF par.sir THEN S - a ELSE S - a + b
    /\ I' = I + a - b
    /\ R' = IF par.sir THEN R + b ELSE R
    /\ k' = k + 1
    /\ UNCHANGED par

Next == \E a \in 0..MaxPop : \E b \in 0..MaxPop : Flow(a, b)
Spec == Init /\ [][Next]_vars

TypeOK    == par \in Params /\ S \in Int /\ I \in Int /\ R \in Int /\ k \in 0..(par.tcount - 1)
Conserved == S + I + R = par.N
InBounds  == S \in 0..par.N /\ I \in 0..par.N /\ R \in 0..par.N
RowsOK    == RowOK(par, S, I, R, 0)
Monotone  == [][par.sir => (S' <= S /\ R' >= R)]_vars
TauZeroFreezesS  == [][par.tau0 => IF par.sir THEN S' = S ELSE I' <= I]_vars
GammaZeroFreezesR == [][(par.gam0 /\ ~par.disc) => IF par.sir THEN R' = R ELSE S' <= S]_vars
ParamsFrozen == [][par' = par]_vars
\* every reference step satisfies the monitor's clauses exactly
StepsSatisfyClauses == [][FlowOK(par, S, I, R, S', I', R', 0) /\ RowOK(par, S', I', R', 0)]_vars
=============================================================================

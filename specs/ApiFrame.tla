------------------------------ MODULE ApiFrame ------------------------------
(***************************************************************************)
(* The frame condition of every EoN entry point (property C19; the         *)
(* determinism clause is shared with C18).                                 *)
(*                                                                         *)
(* A caller owns a tuple of argument objects: the contact network G with   *)
(* its nodes, edges and all attributes, the containers holding the initial *)
(* condition, the model-specification graphs of Gillespie_simple_contagion,*)
(* degree-distribution dictionaries and numeric arrays.  `env` is the      *)
(* abstract value of these objects: one value per argument name, where two *)
(* values are equal iff the objects are indistinguishable through their    *)
(* public interface (for an array: shape, dtype and bytes; for a graph:    *)
(* node order, node/edge/graph attributes, adjacency order; ...).  The     *)
(* harness computes this value as a canonical fingerprint.                 *)
(*                                                                         *)
(* The only thing an entry point may do is Call: it returns a result and   *)
(* leaves env exactly as it found it.  It never ends in an exception on an *)
(* env on which it has returned before (env is unchanged, so every later   *)
(* call sees the same env).  For the deterministic entry points (ODE       *)
(* models, degree-distribution helpers, subsample) the result is a         *)
(* function of env: `memo` is the history variable that remembers the      *)
(* function built so far; the first call from an env chooses the result,   *)
(* every later call from the same env must reproduce it.                   *)
(*                                                                         *)
(* Only the caller can change env (CallerSets).  All simulator             *)
(* specifications keep G and the model frozen; this module makes the same  *)
(* statement about the caller's own objects.                               *)
(***************************************************************************)
EXTENDS Integers, FiniteSets, TLC

CONSTANTS Args,      \* argument names of the entry point
          Values,    \* abstract values an argument object can take
          Results    \* abstract results a call can return (positive integers)

Raised == 0          \* "the call ended in an exception" - not a result
None   == -1         \* no call made yet

ASSUME Raised \notin Results /\ None \notin Results

VARIABLES env,      \* [Args -> Values] : abstract value of the caller's argument objects
          result,   \* abstract value returned by the last call (None before the first)
          phase,    \* "idle" (caller's turn, nothing returned yet for this env) | "returned"
          memo,     \* partial function env -> result : what has been returned so far
          det       \* TRUE: deterministic entry point (frozen after Init)

vars == <<env, result, phase, memo, det>>

EmptyFn == [x \in {} |-> None]

TypeOK == /\ env \in [Args -> Values]
          /\ result \in Results \cup {None}
          /\ phase \in {"idle", "returned"}
          /\ det \in BOOLEAN
          /\ DOMAIN memo \subseteq [Args -> Values]
          /\ \A e \in DOMAIN memo : memo[e] \in Results

Init == /\ env \in [Args -> Values]
        /\ result = None
        /\ phase = "idle"
        /\ memo = EmptyFn
        /\ det \in BOOLEAN

(***************************************************************************)
(* The three clauses of a call, as separate operators so that the trace    *)
(* specification can name the one that a recorded call breaks.             *)
(*   e0, e1 : env before / after the call     r : what the call produced   *)
(***************************************************************************)
ReturnsOK(r)              == r # Raised
FrameOK(e0, e1)           == e1 = e0
FunctionalOK(d, m, e0, r) == (d /\ e0 \in DOMAIN m) => r = m[e0]

Call(r) ==
    /\ ReturnsOK(r)
    /\ FrameOK(env, env')                       \* env' = env
    /\ FunctionalOK(det, memo, env, r)
    /\ result' = r
    /\ memo' = IF env \in DOMAIN memo THEN memo ELSE (env :> r) @@ memo
    /\ phase' = "returned"
    /\ det' = det

\* the clauses of Call(r) that an observed call <<e1, r>> from the current state breaks
Broken(e1, r) ==
    (IF ~ReturnsOK(r) THEN {"call-fails"}
     ELSE IF ~FunctionalOK(det, memo, env, r) THEN {"nondeterministic-result"} ELSE {})
    \cup (IF FrameOK(env, e1) THEN {} ELSE {"argument-mutated"})

\* arguments whose abstract value differs between the current env and e1
Changed(e1) == {a \in DOMAIN env : a \notin DOMAIN e1 \/ e1[a] # env[a]}
               \cup (DOMAIN e1 \ DOMAIN env)

\* the caller rebinds / modifies one of its own objects between calls
CallerSets(a, v) ==
    /\ v # env[a]
    /\ env' = [env EXCEPT ![a] = v]
    /\ phase' = "idle"
    /\ UNCHANGED <<result, memo, det>>

Next == \/ \E r \in Results : Call(r)
        \/ \E a \in Args, v \in Values : CallerSets(a, v)

Spec == Init /\ [][Next]_vars

(***************************************************************************)
(* What the specification guarantees (checked by TLC on small constants).  *)
(***************************************************************************)
\* a step that returns leaves the caller's objects alone
Frame == [][phase' = "returned" => env' = env]_vars

\* after a return, result is what memo records for env; with det the value
\* recorded for an env never changes
ResultIsMemo == phase = "returned" => (env \in DOMAIN memo /\ (det => result = memo[env]))
MemoStable   == [][\A e \in DOMAIN memo : e \in DOMAIN memo' /\ (det => memo'[e] = memo[e])]_vars

\* two consecutive calls of a deterministic entry point return equal results
Repeatable == [][(det /\ phase = "returned" /\ phase' = "returned") => result' = result]_vars

\* more generally: same env, same result, whatever happened in between
SameEnvSameResult ==
    [][(det /\ phase' = "returned" /\ env' \in DOMAIN memo) => result' = memo[env']]_vars

DetFrozen == [][det' = det]_vars
=============================================================================

----------------------------- MODULE CheckInit -----------------------------
(* Exhaustive check of the request semantics of InitRequest on every small  *)
(* request: TLC enumerates N, the disjoint sets and the fraction.           *)
EXTENDS InitRequest
CONSTANTS MaxN, Dens
VARIABLES N, inf, rec, a, b, mode
vars == <<N, inf, rec, a, b, mode>>
Init == /\ N \in 1..MaxN
        /\ inf \in SUBSET (1..MaxN) /\ rec \in SUBSET (1..MaxN)
        /\ inf \subseteq 1..N /\ rec \subseteq 1..N /\ inf \cap rec = {}
        /\ b \in Dens /\ a \in 0..b
        /\ mode \in {"explicit", "rho", "default"}
Next == UNCHANGED vars
Spec == Init /\ [][Next]_vars
\* the rounded number is within half of N*rho and a legal count
RoundOK == LET k == RoundHalfEven(N * a, b) IN
            /\ k \in 0..N
            /\ 2 * b * k <= 2 * N * a + b /\ 2 * b * k + b >= 2 * N * a
RowSums == LET st == ExplicitStart(N, inf, rec) r == Row0(st) IN
            /\ r[1] + r[2] + r[3] = N
            /\ r[2] = Cardinality(inf) /\ r[3] = Cardinality(rec)
            /\ Admissible(N, "explicit", inf, rec, a, b, st)
\* some start state is admissible for a rho request whenever enough nodes are free
RhoSatisfiable == (mode = "rho" /\ RoundHalfEven(N * a, b) <= N - Cardinality(rec)) =>
            \E st \in [1..N -> {"S", "I", "R"}] : Admissible(N, "rho", {}, rec, a, b, st)
=============================================================================

---------------------------- MODULE HierarchyPos ----------------------------
(***************************************************************************)
(* EoN.hierarchy_pos (auxiliary.py): the hierarchical layout of a tree,    *)
(* used to plot transmission trees.  Outside the twenty listed properties; *)
(* part of the growth of the specification over the rest of the library.   *)
(*                                                                         *)
(* A rooted ordered tree on 1..n is a parent function par with             *)
(* par[v] < v (root 1, children of a node ordered by their number; every   *)
(* plane tree has such a numbering - its preorder - so every plane tree    *)
(* with at most MaxN nodes is in the domain).  For a directed tree the     *)
(* layout may be asked for the descendants of any node r.                  *)
(*                                                                         *)
(* Def  : the layout as the docstring describes it -                       *)
(*        top down   : a node gets a horizontal interval, its k children   *)
(*                     split it in k equal parts in order, each sits in    *)
(*                     the middle of its part;                             *)
(*        bottom up  : the leaves, in depth-first order, are spread evenly *)
(*                     (step width/#leaves from 0), an inner node sits     *)
(*                     midway between its first and its last child;        *)
(*        y          : vert_loc - depth*vert_gap;                          *)
(*        x          : the mixture f*bottom_up + (1-f)*top_down, rescaled  *)
(*                     so that the rightmost node is at `width`.           *)
(* Impl : the recursion of _hierarchy_pos as it is written (running        *)
(*        `nextx`, `leftmost + leaf_count*leafdx`, returned leaf counts).  *)
(*                                                                         *)
(* TLC checks on every tree / root in the bound: Impl = Def for every node,*)
(* every division is exact in the integer scale, and the claims a user of  *)
(* the layout relies on: siblings appear left to right in adjacency order, *)
(* whole branches of two siblings do not overlap horizontally (in either   *)
(* layout, hence in every mixture), nodes of one level have different x,   *)
(* every x lies in [0, width].  The expected coordinates are emitted for   *)
(* replay into the real function (numerators in the scale 2*S and the      *)
(* maximum; TLC has no rationals, the last division is the harness's).     *)
(***************************************************************************)
EXTENDS Naturals, Sequences, FiniteSets, TLC

CONSTANTS MaxN,      \* largest tree
          S,         \* integer scale of `width` (every coordinate is a multiple of 1/S of the width)
          EmitOn

VARIABLES n, par, r, done
vars == <<n, par, r, done>>

Nodes == 1..n
Children(v) == {c \in 2..n : par[c] = v}
\* children in adjacency order = ascending number
RECURSIVE SetToSeq(_)
SetToSeq(A) == IF A = {} THEN <<>>
               ELSE LET m == CHOOSE x \in A : \A y \in A : x <= y IN <<m>> \o SetToSeq(A \ {m})
Kids(v) == SetToSeq(Children(v))
IsLeaf(v) == Children(v) = {}

RECURSIVE Desc(_)
Desc(v) == {v} \cup UNION {Desc(c) : c \in Children(v)}
Sub == Desc(r)                       \* the nodes that are laid out
RECURSIVE DepthFrom(_, _)
DepthFrom(a, v) == IF v = a THEN 0 ELSE 1 + DepthFrom(a, par[v])
Depth(v) == DepthFrom(r, v)

\* the code's leaf count: descendants (not the root itself) without children
LeafCount == Cardinality({v \in Sub \ {r} : IsLeaf(v)})

---------------------------------------------------------------------------
(* Def: declarative layout *)

\* depth-first (pre)order of the laid-out nodes
RECURSIVE Pre(_)
RECURSIVE PreAll(_)
Pre(v) == <<v>> \o PreAll(Kids(v))
PreAll(ks) == IF ks = <<>> THEN <<>> ELSE Pre(Head(ks)) \o PreAll(Tail(ks))
IsLeafSel(v) == IsLeaf(v)
LeafSeq == SelectSeq(Pre(r), IsLeafSel)
LeafIdx(l) == (CHOOSE i \in 1..Len(LeafSeq) : LeafSeq[i] = l) - 1

Div(a, b) == IF b = 0 THEN 0 ELSE a \div b      \* b = 0 only outside the domain (Defined), where nothing is claimed
Exact(a, b) == b > 0 /\ (a % b) = 0

\* bottom-up x (scale S)
RECURSIVE DefLX(_)
DefLX(v) == IF IsLeaf(v) THEN Div(LeafIdx(v) * S, LeafCount)
            ELSE LET ks == Kids(v) IN Div(DefLX(ks[1]) + DefLX(ks[Len(ks)]), 2)

\* top-down: width allotted to v and its centre (scale S); the root has S centred at S/2
RECURSIVE DefW(_)
DefW(v) == IF v = r THEN S ELSE Div(DefW(par[v]), Cardinality(Children(par[v])))
RankAmongSiblings(v) == Cardinality({c \in Children(par[v]) : c <= v})      \* 1-based
RECURSIVE DefRX(_)
DefRX(v) == IF v = r THEN Div(S, 2)
            ELSE LET p == par[v] IN
                 \* left end of the parent's interval + (rank - 1/2) * own width
                 (DefRX(p) - Div(DefW(p), 2)) + (RankAmongSiblings(v) - 1) * DefW(v) + Div(DefW(v), 2)

---------------------------------------------------------------------------
(* Impl: the recursion of _hierarchy_pos.  Returns <<rootpos, leafpos, leaf_count>> with the two
   dictionaries as functions on the nodes met so far. *)

Upd(f, v, x) == [u \in DOMAIN f \cup {v} |-> IF u = v THEN x ELSE f[u]]
MinOf(A) == CHOOSE x \in A : \A y \in A : x <= y
MaxOf(A) == CHOOSE x \in A : \A y \in A : x >= y

RECURSIVE HP(_, _, _, _, _, _)
RECURSIVE HPKids(_, _, _, _, _, _, _, _, _)
\* v, leftmost, width, xcenter, rootpos, leafpos            (leafdx = S / LeafCount throughout)
HP(v, leftmost, width, xc, rp, lp) ==
    LET rp1 == Upd(rp, v, xc)
        ks  == Kids(v)
    IN IF ks # <<>> THEN
          LET rootdx == Div(width, Len(ks))
              \* nextx = xcenter - width/2 - rootdx/2 needs halves of halves: carried doubled
              start2 == 2 * xc - width - rootdx            \* = 2*nextx before the loop
              res    == HPKids(ks, 1, leftmost, rootdx, start2, rp1, lp, 0, v)
              rp2    == res[1]
              lp2    == res[2]
              xs     == {lp2[c] : c \in Children(v)}
          IN <<rp2, Upd(lp2, v, Div(MinOf(xs) + MaxOf(xs), 2)), res[3]>>
       ELSE <<rp1, Upd(lp, v, leftmost), 1>>
\* the for loop over the children: i-th child, running 2*nextx, running leaf_count
HPKids(ks, i, leftmost, rootdx, nextx2, rp, lp, leafcount, v) ==
    IF i > Len(ks) THEN <<rp, lp, leafcount>>
    ELSE LET nx2 == nextx2 + 2 * rootdx
             sub == HP(ks[i], leftmost + leafcount * Div(S, LeafCount), rootdx, Div(nx2, 2), rp, lp)
         IN HPKids(ks, i + 1, leftmost, rootdx, nx2, sub[1], sub[2], leafcount + sub[3], v)

Empty == [u \in {} |-> 0]
ImplRes == HP(r, 0, S, Div(S, 2), Empty, Empty)
ImplRX == ImplRes[1]
ImplLX == ImplRes[2]

---------------------------------------------------------------------------
Trees(k) == {p \in [2..k -> 1..k] : \A v \in 2..k : p[v] < v}

Init == /\ n \in 1..MaxN
        /\ par \in Trees(n)
        /\ r \in 1..n
        /\ done = FALSE

Defined == LeafCount > 0          \* the code divides by the number of leaves below the root

\* mixture numerators for f = fn/2, scale 2S
P(fn, v) == fn * DefLX(v) + (2 - fn) * DefRX(v)
XMax(fn) == MaxOf({P(fn, v) : v \in Sub})

Record == <<"HP", n, [v \in 2..n |-> par[v]], r, SetToSeq(Sub),
            [v \in Sub |-> <<Depth(v), DefLX(v), DefRX(v)>>],
            <<XMax(0), XMax(1), XMax(2)>>, LeafCount>>

Emit == /\ ~done
        /\ done' = TRUE
        /\ UNCHANGED <<n, par, r>>
        /\ (EmitOn => PrintT(Record))
Next == Emit
Spec == Init /\ [][Next]_vars

---------------------------------------------------------------------------
(* checked in every initial state *)

TypeOK == n \in 1..MaxN /\ r \in Nodes /\ done \in BOOLEAN

\* every division of Def and Impl is exact in scale S (otherwise the integer model would lie)
RECURSIVE ExactW(_)
ExactW(v) == IF v = r THEN Exact(S, 2) ELSE Exact(DefW(par[v]), Cardinality(Children(par[v]))) /\ Exact(DefW(v), 2)
ScaleExact == Defined =>
    /\ Exact(S, LeafCount)
    /\ \A v \in Sub : ExactW(v)
    /\ \A v \in Sub : ~IsLeaf(v) => Exact(DefLX(Kids(v)[1]) + DefLX(Kids(v)[Len(Kids(v))]), 2)

ImplEqualsDef == Defined =>
    /\ DOMAIN ImplRX = Sub /\ DOMAIN ImplLX = Sub
    /\ \A v \in Sub : ImplRX[v] = DefRX(v) /\ ImplLX[v] = DefLX(v)
    /\ ImplRes[3] = Cardinality({v \in Sub : IsLeaf(v)})

\* siblings left to right in adjacency order, in both layouts
SiblingOrder == Defined => \A a, b \in Sub \ {r} :
    (par[a] = par[b] /\ a < b) => (DefLX(a) < DefLX(b) /\ DefRX(a) < DefRX(b))

\* branches of two siblings never overlap: everything under the earlier sibling is strictly to the left of
\* everything under the later one, in both layouts (hence in every mixture and after rescaling)
BranchesDisjoint == Defined => \A a, b \in Sub \ {r} :
    (par[a] = par[b] /\ a < b) =>
        \A u \in Desc(a), w \in Desc(b) : DefLX(u) < DefLX(w) /\ DefRX(u) < DefRX(w)

\* two nodes of one level never coincide
LevelDistinct == Defined => \A u, w \in Sub :
    (u # w /\ Depth(u) = Depth(w)) => \A fn \in 0..2 : P(fn, u) # P(fn, w)

InRange == Defined => \A v \in Sub :
    /\ 0 <= DefLX(v) /\ DefLX(v) <= S /\ 0 <= DefRX(v) /\ DefRX(v) <= S
    \* the final rescaling divides by the largest x: it is zero exactly for the pure bottom-up layout
    \* (f = 1) of a tree with a single leaf - a path hanging from the root - where every node sits at 0
    /\ \A fn \in 0..2 : (XMax(fn) = 0) <=> (fn = 2 /\ LeafCount = 1)

\* a parent lies within the horizontal extent of its children (bottom up: exactly midway)
ParentOverChildren == Defined => \A v \in Sub : ~IsLeaf(v) =>
    LET xs == {DefLX(c) : c \in Children(v)} IN MinOf(xs) <= DefLX(v) /\ DefLX(v) <= MaxOf(xs)
=============================================================================

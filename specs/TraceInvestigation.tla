------------------------- MODULE TraceInvestigation -------------------------
(***************************************************************************)
(* C10: the full-data object and the plain time series describe the same   *)
(* epidemic.                                                               *)
(*                                                                         *)
(* Investigation semantics (declarative):                                  *)
(*   a node history is a sequence of <<time, status>>;                     *)
(*   well-formed  iff it starts at tmin, is time-ordered and every         *)
(*                    consecutive pair is a legal move of the model;       *)
(*   StatusAt(h,T) = status of the last entry with time <= T;              *)
(*   Summary(H)    = for each distinct change time, the number of nodes    *)
(*                   with each status.                                     *)
(* A trace (JSON, EON_TRACES) holds, for one scenario and one seed: the    *)
(* arrays of the run without full data, and from the run with full data    *)
(* the node histories, summary(), t()/S()/I()/R(), summary(nodelist=sub)   *)
(* and the answers of node_status/get_statuses to a list of queries.       *)
(* Times are order-preserving integer codes (event times even, query       *)
(* midpoints odd).  The trace is accepted iff every clause below holds.    *)
(***************************************************************************)
EXTENDS Naturals, FiniteSets, Sequences, TLC, Json, IOUtils

Traces == JsonDeserialize(IOEnv.EON_TRACES)
NT == Len(Traces)
DiagMode == "EON_DIAG" \in DOMAIN IOEnv /\ IOEnv.EON_DIAG = "1"

VARIABLES tid
vars == <<tid>>

MaxOf(S) == CHOOSE x \in S : \A y \in S : x >= y
Hist(i, u) == Traces[i].hist[u]
Nodes(i) == 1..Traces[i].n
NSt(i) == Len(Traces[i].statuses)
Legal(i, a, b) == \E k \in 1..Len(Traces[i].moves) : Traces[i].moves[k][1] = a /\ Traces[i].moves[k][2] = b

StatusAt(h, T) == h[MaxOf({k \in 1..Len(h) : h[k][1] <= T})][2]
WellFormed(i, h) ==
    /\ Len(h) >= 1 /\ h[1][1] = Traces[i].tmin
    /\ \A k \in 1..(Len(h) - 1) : h[k][1] <= h[k + 1][1] /\ Legal(i, h[k][2], h[k + 1][2])
HistTimes(i, U) == UNION {{Hist(i, u)[k][1] : k \in 1..Len(Hist(i, u))} : u \in U}
CountAt(i, U, T, s) == Cardinality({u \in U : StatusAt(Hist(i, u), T) = s})
CountsAt(i, U, T) == [k \in 1..NSt(i) |-> CountAt(i, U, T, Traces[i].statuses[k])]
RowCounts(r) == [k \in 1..(Len(r) - 1) |-> r[k + 1]]
RowTimes(rows) == {rows[k][1] : k \in 1..Len(rows)}
StepAt(rows, T) == RowCounts(rows[MaxOf({k \in 1..Len(rows) : rows[k][1] <= T})])

\* the table `rows` is exactly Summary of the histories of the nodes U
\* (as a step function: when only some statuses are reported, a time at which no reported count changes
\* need not be listed)
IsSummary(i, U, rows) ==
    /\ Len(rows) >= 1 /\ rows[1][1] = Traces[i].tmin
    /\ RowTimes(rows) \subseteq HistTimes(i, U) \cup {Traces[i].tmin}
    /\ \A k \in 1..(Len(rows) - 1) : rows[k][1] < rows[k + 1][1]
    /\ \A T \in RowTimes(rows) \cup HistTimes(i, U) : StepAt(rows, T) = CountsAt(i, U, T)

HistoriesOK(i) == \A u \in Nodes(i) : WellFormed(i, Hist(i, u))
SummaryOK(i)   == HistoriesOK(i) => IsSummary(i, Nodes(i), Traces[i].summ)
AccessorsOK(i) == Traces[i].acc = Traces[i].summ
SubsetOK(i)    == HistoriesOK(i) => IsSummary(i, {Traces[i].sub_nodes[k] : k \in 1..Len(Traces[i].sub_nodes)}, Traces[i].sub_rows)
\* the arrays of the other return mode, read as a step function, agree with the histories at every time either names
ArraysOK(i) == (HistoriesOK(i) /\ Traces[i].has_arr = 1) =>
    LET rows == Traces[i].arr IN
    /\ Len(rows) >= 1 /\ rows[1][1] = Traces[i].tmin
    /\ \A T \in RowTimes(rows) \cup HistTimes(i, Nodes(i)) : StepAt(rows, T) = CountsAt(i, Nodes(i), T)
    \* continuous time: one row per event in the arrays, one row per event time in the summary - the same times
    \* (also for events that change no reported count)
    /\ Traces[i].cont = 1 => RowTimes(rows) = RowTimes(Traces[i].summ)
QueriesOK(i) == HistoriesOK(i) =>
    \A q \in 1..Len(Traces[i].queries) :
        LET Q == Traces[i].queries[q] IN Q[3] = StatusAt(Hist(i, Q[1]), Q[2])

Init == tid \in 1..NT
Next == FALSE /\ UNCHANGED tid
Spec == Init /\ [][Next]_vars

Accepted == HistoriesOK(tid) /\ SummaryOK(tid) /\ AccessorsOK(tid) /\ SubsetOK(tid) /\ ArraysOK(tid) /\ QueriesOK(tid)
EmitAccepted == Accepted => PrintT(<<"OK", tid>>)
EmitDiag == DiagMode => PrintT(<<"AT", tid, 1,
    [histories_well_formed |-> HistoriesOK(tid), summary_is_Summary_of_histories |-> SummaryOK(tid),
     t_S_I_R_equal_summary |-> AccessorsOK(tid), subset_summary |-> SubsetOK(tid),
     arrays_equal_histories |-> ArraysOK(tid), status_queries |-> QueriesOK(tid)]>>)
=============================================================================

-------------------------- MODULE ComplexContagion --------------------------
(***************************************************************************)
(* Gillespie_complex_contagion (C15): the node that changes next is drawn  *)
(* with probability rate(node)/sum of rates, where the rates are the user  *)
(* function evaluated on the CURRENT statuses of all nodes; the waiting    *)
(* time is exponential with that sum; the new status is the chooser's      *)
(* answer; the run stops exactly when all rates are zero (or at tmax).     *)
(*                                                                         *)
(* The user's model is a table (scenario file EON_SCENARIOS): for each     *)
(* status s a rule [from, cnt, dist, thr, base, coef, to, alt, altif]:     *)
(*   k       = number of nodes within graph distance `dist` with status cnt*)
(*   rate    = IF k >= thr THEN base + coef*k ELSE 0                       *)
(*   chooser = IF some node within `dist` has status altif THEN alt ELSE to*)
(*             (alt may equal the current status: a null transition, which *)
(*             still is an event with its own waiting time)                *)
(* and the influence set of u is every node within a radius that may       *)
(* depend on the status u has just taken (inflby).                         *)
(* Covers threshold contagion, SIR written as a complex contagion, cyclic  *)
(* 3-status models, long-range (distance-2) and population-wide (dist 9)   *)
(* influence.                                                              *)
(*                                                                         *)
(* Ref: Fire(u) with numerator Rate(u, st).                                *)
(* Impl: the bag `rates` of nodes_by_rate, re-rated only for u and its     *)
(* influence set; TLC checks rates[v] = Rate(v, st) whenever the influence *)
(* set covers every node whose rate can change, and must FIND a stale rate *)
(* for scenarios whose influence radius is deliberately too small          *)
(* (non-vacuity control, flag `small`).                                    *)
(***************************************************************************)
EXTENDS Naturals, FiniteSets, Sequences, TLC, Json, IOUtils

Scenarios == JsonDeserialize(IOEnv.EON_SCENARIOS)
NS == Len(Scenarios)

VARIABLES sc, st, rates, ev
vars == <<sc, st, rates, ev>>
View == <<sc, st, rates>>

Nodes      == 1..Scenarios[sc].n
Statuses   == {Scenarios[sc].statuses[i] : i \in 1..Len(Scenarios[sc].statuses)}
Adj(u, v)  == Scenarios[sc].adj[u][v] = 1
Rules      == Scenarios[sc].rules
\* d = 9: the whole population (mean-field / long-range influence read off the status dict)
Within(u, d) == IF d = 9 THEN Nodes \ {u} ELSE IF d = 1 THEN {v \in Nodes : Adj(u, v)}
                ELSE {v \in Nodes \ {u} : Adj(u, v) \/ \E x \in Nodes : Adj(u, x) /\ Adj(x, v)}
RuleOf(s)  == CHOOSE j \in 1..Len(Rules) : Rules[j].from = s
HasRule(s) == \E j \in 1..Len(Rules) : Rules[j].from = s

Rate(u, S) ==
    IF ~HasRule(S[u]) THEN 0
    ELSE LET r == Rules[RuleOf(S[u])]
             k == Cardinality({v \in Within(u, r.dist) : S[v] = r.cnt})
         IN IF k >= r.thr THEN r.base + r.coef * k ELSE 0
Choose(u, S) ==
    LET r == Rules[RuleOf(S[u])]
    IN IF \E v \in Within(u, r.dist) : S[v] = r.altif THEN r.alt ELSE r.to
\* the influence set is computed AFTER the change and may depend on the changed node's new status:
\* inflby[k] is the radius used when the node has just taken status number k (0 = nobody)
StatusIdx(x) == CHOOSE k \in 1..Len(Scenarios[sc].statuses) : Scenarios[sc].statuses[k] = x
InfluenceAfter(u, S2) == LET r == Scenarios[sc].inflby[StatusIdx(S2[u])] IN IF r = 0 THEN {} ELSE Within(u, r)

Init == /\ sc \in 1..NS
        /\ st \in [Nodes -> Statuses]
        /\ rates = [v \in Nodes |-> Rate(v, st)]
        /\ ev = <<0, "", 0>>

Fire(u) ==
    /\ rates[u] > 0
    /\ st' = [st EXCEPT ![u] = Choose(u, st)]
    /\ rates' = [v \in Nodes |-> IF v = u \/ v \in InfluenceAfter(u, st') THEN Rate(v, st') ELSE rates[v]]
    /\ ev' = <<u, Choose(u, st), rates[u]>>
    /\ UNCHANGED sc

Next == \E u \in Nodes : Fire(u)
Spec == Init /\ [][Next]_vars

TypeOK == st \in [Nodes -> Statuses]
\* the bag always holds up-to-date rates (when the influence set is adequate)
RatesFresh == Scenarios[sc].small = 0 => rates = [v \in Nodes |-> Rate(v, st)]
\* control: for the deliberately inadequate influence sets a stale rate must be reachable
StaleControl == Scenarios[sc].small = 1 => rates = [v \in Nodes |-> Rate(v, st)]
\* the run can stop only when every rate is zero
StopsIffZero == (~ ENABLED Next) <=> (\A v \in Nodes : rates[v] = 0)
OneNodeChanges == [][\E u \in Nodes : \A x \in Nodes \ {u} : st'[x] = st[x]]_View

Emit == PrintT(<<"E", sc, st, st', ev'>>)
=============================================================================

---------------------------- MODULE InitRequest ----------------------------
(***************************************************************************)
(* What a simulation starts from, given the caller's request (C05).        *)
(*                                                                         *)
(* A request names initially infected nodes explicitly, or gives a         *)
(* fraction rho = a/b, or neither (one random node), or - illegally -      *)
(* both.  Every accepted way of naming nodes (single node, list, tuple,    *)
(* set, range, array, positional or keyword) denotes the same SET, which   *)
(* is what the specification sees.                                         *)
(***************************************************************************)
EXTENDS Naturals, FiniteSets, Sequences, TLC

\* Python's int(round(x)) for x = num/den >= 0: round half to even
RoundHalfEven(num, den) ==
    LET q == num \div den
        r == num % den
    IN IF 2 * r < den THEN q
       ELSE IF 2 * r > den THEN q + 1
       ELSE IF q % 2 = 0 THEN q ELSE q + 1

\* status vector requested explicitly
ExplicitStart(N, inf, rec) ==
    [u \in 1..N |-> IF u \in inf THEN "I" ELSE IF u \in rec THEN "R" ELSE "S"]

CountOf(st, x) == Cardinality({u \in DOMAIN st : st[u] = x})
Row0(st) == <<CountOf(st, "S"), CountOf(st, "I"), CountOf(st, "R")>>

\* number of initially infected nodes for each kind of request
NumInfected(N, mode, inf, a, b) ==
    IF mode = "explicit" THEN Cardinality(inf)
    ELSE IF mode = "rho" THEN RoundHalfEven(N * a, b)
    ELSE 1

\* admissible start states: exactly the requested one, or any state with the
\* right number of infected nodes among the nodes not initially recovered
Admissible(N, mode, inf, rec, a, b, st) ==
    IF mode = "explicit" THEN st = ExplicitStart(N, inf, rec)
    ELSE /\ {u \in 1..N : st[u] = "R"} = rec
         /\ CountOf(st, "I") = NumInfected(N, mode, inf, a, b)
         /\ \A u \in 1..N : st[u] \in {"S", "I", "R"}
=============================================================================

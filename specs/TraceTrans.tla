----------------------------- MODULE TraceTrans -----------------------------
(***************************************************************************)
(* Trace validation for C09: recorded transmissions are causally valid and *)
(* complete.                                                               *)
(*                                                                         *)
(* A trace (JSON, EON_TRACES) is the full-data output of one run: the      *)
(* contact graph (directed adjacency), the user model as lists of          *)
(* spontaneous moves <<old, new>> and induced moves <<inducer, old, new>>, *)
(* the initial statuses, the time-ordered status changes                   *)
(* <<t, node, old, new>> read off the node histories, the transmission     *)
(* list <<t, source, target>> (source 0 = None) exactly as returned, and   *)
(* the edges of transmission_tree().                                       *)
(*                                                                         *)
(* The trace specification replays the node-level epidemic: it consumes    *)
(* the status changes in time order (any order among simultaneous ones in  *)
(* continuous time - TLC searches for an order that explains the trace).   *)
(* A change that is an induced move must be matched by exactly one         *)
(* transmission entry, and that entry must be an ENABLED transmission of   *)
(* the node-level model in the current state: the source is a neighbour    *)
(* along edge direction and has the inducing status at that instant        *)
(* (discrete time: at the step before), the target has the old status.     *)
(* At the end every sourced entry must have been used, source-less entries *)
(* may only name initially infected nodes, the list is time ordered, and   *)
(* transmission_tree() is the graph of the sourced entries.                *)
(***************************************************************************)
EXTENDS Naturals, FiniteSets, Sequences, TLC, Json, IOUtils

Traces == JsonDeserialize(IOEnv.EON_TRACES)
NT == Len(Traces)
DiagMode == "EON_DIAG" \in DOMAIN IOEnv /\ IOEnv.EON_DIAG = "1"

VARIABLES tid, st, done, used, cur, snap
vars == <<tid, st, done, used, cur, snap>>

T       == Traces[tid]
Nodes   == 1..T.n
Ch      == T.changes
Tr      == T.trans
Adj(u, v) == T.adj[u][v] = 1
Induced(old, new) == {k \in 1..Len(T.induced) : T.induced[k][2] = old /\ T.induced[k][3] = new}
IsSpont(old, new) == \E k \in 1..Len(T.spont) : T.spont[k][1] = old /\ T.spont[k][2] = new
\* time of the contact that explains a change at time t
ContactTime(t) == IF T.disc = 1 THEN t - 1 ELSE t
Matching(i) == {j \in 1..Len(Tr) : Tr[j][1] = ContactTime(Ch[i][1]) /\ Tr[j][3] = Ch[i][2] /\ Tr[j][2] # 0}

Init == /\ tid \in 1..NT
        /\ st = [u \in Nodes |-> T.init[u]]
        /\ done = {}
        /\ used = {}
        /\ cur = 0
        /\ snap = [u \in Nodes |-> T.init[u]]

Remaining == (1..Len(Ch)) \ done
MinTime == CHOOSE t \in {Ch[i][1] : i \in Remaining} : \A i \in Remaining : Ch[i][1] >= t
\* discrete time: canonical order inside a generation (the snapshot makes order irrelevant)
Eligible(i) == /\ i \in Remaining /\ Ch[i][1] = MinTime
               /\ T.disc = 1 => \A k \in Remaining : Ch[k][1] = MinTime => k >= i

\* state the source must be infectious in: the current one, or (discrete) the one before this generation
SrcState(t) == IF T.disc = 1 THEN (IF t > cur THEN st ELSE snap) ELSE st

Consume(i) ==
    /\ Eligible(i)
    /\ LET t == Ch[i][1] v == Ch[i][2] old == Ch[i][3] new == Ch[i][4] M == Matching(i) IN
       /\ st[v] = old
       /\ \/ \* neighbour-induced: exactly one entry, and it is an enabled transmission
             /\ Induced(old, new) # {}
             /\ Cardinality(M) = 1
             /\ LET j == CHOOSE x \in M : TRUE  u == Tr[j][2] IN
                   /\ j \notin used
                   /\ Adj(u, v)
                   /\ \E k \in Induced(old, new) : SrcState(t)[u] = T.induced[k][1]
                   /\ used' = used \cup {j}
          \/ \* spontaneous: a move of the model (an entry that no induced change consumes is
             \* caught at the end by EveryEntryUsed)
             /\ IsSpont(old, new)
             /\ used' = used
       /\ st' = [st EXCEPT ![v] = new]
       /\ snap' = IF t > cur THEN st ELSE snap
       /\ cur' = t
    /\ done' = done \cup {i}
    /\ UNCHANGED tid

Next == \E i \in 1..Len(Ch) : Consume(i)
Spec == Init /\ [][Next]_vars

AllConsumed == done = 1..Len(Ch)
Sourced == {j \in 1..Len(Tr) : Tr[j][2] # 0}
EveryEntryUsed == used = Sourced
SourcelessOnlyInitial == \A j \in 1..Len(Tr) : Tr[j][2] = 0 => T.init[Tr[j][3]] = T.infected_status
TimeOrdered == \A j \in 1..(Len(Tr) - 1) : Tr[j][1] <= Tr[j + 1][1]
TreeIsSourcedEntries ==
    /\ {<<T.tree[j][1], T.tree[j][2], T.tree[j][3]>> : j \in 1..Len(T.tree)} = {<<Tr[j][2], Tr[j][3], Tr[j][1]>> : j \in Sourced}
    /\ Len(T.tree) = Cardinality(Sourced)
\* SIR: the transmission tree is a forest rooted at the initially infected nodes
Forest == T.kind = "SIR" =>
    /\ \A v \in Nodes : Cardinality({j \in Sourced : Tr[j][3] = v}) <= 1
    /\ \A j \in Sourced : T.init[Tr[j][3]] # T.infected_status

Accepted == AllConsumed /\ EveryEntryUsed /\ SourcelessOnlyInitial /\ TimeOrdered /\ TreeIsSourcedEntries /\ Forest
EmitAccepted == Accepted => PrintT(<<"OK", tid>>)

\* causal validity as a state invariant of the replayed epidemic: a used entry's target left its old status
UsedEntriesAreInfections == \A j \in used : Tr[j][2] # 0

EmitDiag == DiagMode =>
    PrintT(<<"AT", tid, Cardinality(done) + 1,
             IF AllConsumed
             THEN [every_sourced_entry_matches_a_change |-> EveryEntryUsed, sourceless_only_initial |-> SourcelessOnlyInitial,
                   time_ordered |-> TimeOrdered, tree_is_sourced_entries |-> TreeIsSourcedEntries, sir_forest |-> Forest]
             ELSE LET i == CHOOSE x \in Remaining : Ch[x][1] = MinTime /\ \A k \in Remaining : Ch[k][1] = MinTime => k >= x
                      v == Ch[i][2] M == Matching(i) IN
                  [change_continues_history |-> st[v] = Ch[i][3],
                   exactly_one_entry_for_induced_change |-> (Induced(Ch[i][3], Ch[i][4]) = {} \/ IsSpont(Ch[i][3], Ch[i][4]) \/ Cardinality(M) = 1),
                   entry_along_an_edge |-> (\A j \in M : Adj(Tr[j][2], v)),
                   source_has_inducing_status |-> (\A j \in M : \E k \in 1..Len(T.induced) : SrcState(Ch[i][1])[Tr[j][2]] = T.induced[k][1]),
                   move_is_in_the_model |-> (Induced(Ch[i][3], Ch[i][4]) # {} \/ IsSpont(Ch[i][3], Ch[i][4]))]>>)
ASSUME DiagMode => \A i \in 1..NT : PrintT(<<"FIRST", i, [loaded |-> TRUE]>>)
=============================================================================

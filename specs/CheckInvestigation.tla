------------------------- MODULE CheckInvestigation -------------------------
(***************************************************************************)
(* Design check behind C10: the delta-accumulation algorithm of            *)
(* Simulation_Investigation.summary() (add +1 to the new status and -1 to  *)
(* the old one at every change time, then accumulate over sorted times)    *)
(* and the count-of-change-times algorithm of node_status/get_statuses     *)
(* (number of change times <= T picks the status) compute the declarative  *)
(* Summary / StatusAt for EVERY set of time-ordered node histories in the  *)
(* bound - and TLC exhibits a counterexample as soon as a history is not   *)
(* time-ordered (control).                                                 *)
(***************************************************************************)
EXTENDS Naturals, Integers, FiniteSets, Sequences, TLC

CONSTANTS MaxT, MaxLen, NNodes, Ordered
Status == {"S", "I", "R"}
Entry == (0..MaxT) \X Status
VARIABLES H
vars == <<H>>

Hists == UNION {[1..k -> Entry] : k \in 1..MaxLen}
TimeOrdered(h) == \A k \in 1..(Len(h) - 1) : h[k][1] <= h[k + 1][1]
Init == /\ H \in [1..NNodes -> Hists]
        /\ \A u \in 1..NNodes : H[u][1][1] = 0 /\ (Ordered => TimeOrdered(H[u]))
Next == UNCHANGED H
Spec == Init /\ [][Next]_vars

MaxOf(S) == CHOOSE x \in S : \A y \in S : x >= y
\* declarative
StatusAt(h, T) == h[MaxOf({k \in 1..Len(h) : h[k][1] <= T})][2]
CountAt(T, s) == Cardinality({u \in 1..NNodes : StatusAt(H[u], T) = s})
\* node_status: number of change times <= T, then index
Swaps(h, T) == Cardinality({k \in 1..Len(h) : h[k][1] <= T})
AlgStatus(h, T) == h[Swaps(h, T)][2]
\* summary(): deltas accumulated over the sorted distinct times
Delta(s, T) ==
    LET plus(u)  == Cardinality({k \in 1..Len(H[u]) : H[u][k][1] = T /\ H[u][k][2] = s})
        minus(u) == Cardinality({k \in 2..Len(H[u]) : H[u][k][1] = T /\ H[u][k - 1][2] = s})
        RECURSIVE Sum(_)
        Sum(u) == IF u = 0 THEN 0 ELSE plus(u) - minus(u) + Sum(u - 1)
    IN Sum(NNodes)
Times == UNION {{H[u][k][1] : k \in 1..Len(H[u])} : u \in 1..NNodes}
RECURSIVE Acc(_, _)
Acc(s, T) == IF T = 0 THEN Delta(s, 0) ELSE Acc(s, T - 1) + (IF T \in Times THEN Delta(s, T) ELSE 0)

SummaryAlgorithmCorrect == \A T \in Times : \A s \in Status : Acc(s, T) = CountAt(T, s)
StatusAlgorithmCorrect == \A u \in 1..NNodes : \A T \in 0..MaxT : AlgStatus(H[u], T) = StatusAt(H[u], T)

\* Emission for the replay into a hand-built Simulation_Investigation object (extra coverage X02): the histories,
\* the status of every node at every time, the counts of every status at every time, the set of change times.
\* Used as an INVARIANT (PrintT is TRUE), one record per set of histories.
EmitRecord == PrintT(<<"INV", H,
                       [T \in 0..MaxT |-> [u \in 1..NNodes |-> StatusAt(H[u], T)]],
                       [T \in 0..MaxT |-> <<CountAt(T, "S"), CountAt(T, "I"), CountAt(T, "R")>>],
                       Times>>)
=============================================================================

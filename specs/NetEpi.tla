------------------------------- MODULE NetEpi -------------------------------
(***************************************************************************)
(* Reference semantics of the Markovian network SIR / SIS epidemic that    *)
(* Gillespie_SIR, fast_SIR, Gillespie_SIS and fast_SIS claim to sample     *)
(* (properties C01, C02; projections used by C04, C05, C09).               *)
(*                                                                         *)
(* The contact network, its weights and the two rate constants are         *)
(* VARIABLES that are chosen in Init and frozen afterwards, so one TLC run *)
(* quantifies over every weighted graph on Node, every rate pair and every *)
(* status vector.  The state graph is a rate-labelled transition system:   *)
(* ev carries the last action and the numerator of its rate, i.e. the      *)
(* off-diagonal entries of the generator matrix of the CTMC.  ev is hidden *)
(* from the fingerprint by VIEW, and every transition is emitted by the    *)
(* ACTION_CONSTRAINT Emit for the conformance harness.                     *)
(***************************************************************************)
EXTENDS Naturals, FiniteSets, Sequences, TLC

CONSTANTS N,        \* number of nodes
          EW,       \* admissible (positive) edge weights
          NW,       \* admissible (positive) node weights
          TauSet,   \* admissible transmission-rate numerators (may contain 0)
          GamSet,   \* admissible recovery-rate numerators (may contain 0)
          SIS       \* TRUE: recovery returns to S;  FALSE: SIR

Node == 1..N
NP   == (N * (N - 1)) \div 2
\* unordered pair {u,v}, u # v, as an index into the weight vector w
PairIdx(u, v) == LET a == IF u < v THEN u ELSE v
                     b == IF u < v THEN v ELSE u
                 IN ((a - 1) * N - ((a - 1) * a) \div 2) + (b - a)

VARIABLES w,    \* w[PairIdx(u,v)] : weight of edge {u,v}; 0 = no edge
          g,    \* g[u] : recovery weight of node u
          tau,  \* transmission rate numerator
          gam,  \* recovery rate numerator
          st,   \* st[u] \in {"S","I","R"}
          ev    \* last event: <<kind, u, v, rate numerator>>

params == <<w, g, tau, gam>>
vars   == <<w, g, tau, gam, st, ev>>
View   == <<w, g, tau, gam, st>>

Wt(u, v) == IF u = v THEN 0 ELSE w[PairIdx(u, v)]
Nbr(u)   == {v \in Node : Wt(u, v) > 0}
Status   == IF SIS THEN {"S", "I"} ELSE {"S", "I", "R"}

NoEvent == <<"-", 0, 0, 0>>

TypeOK == /\ w \in [1..NP -> {0} \cup EW]
          /\ g \in [Node -> NW]
          /\ tau \in TauSet /\ gam \in GamSet
          /\ st \in [Node -> Status]

Init == /\ w \in [1..NP -> {0} \cup EW]
        /\ g \in [Node -> NW]
        /\ tau \in TauSet /\ gam \in GamSet
        /\ st \in [Node -> Status]
        /\ ev = NoEvent

TransRate(u, v) == tau * Wt(u, v)
RecRate(u)      == gam * g[u]

Transmit(u, v) ==
    /\ st[u] = "I" /\ st[v] = "S" /\ TransRate(u, v) > 0
    /\ st' = [st EXCEPT ![v] = "I"]
    /\ ev' = <<"T", u, v, TransRate(u, v)>>
    /\ UNCHANGED params

Recover(u) ==
    /\ st[u] = "I" /\ RecRate(u) > 0
    /\ st' = [st EXCEPT ![u] = IF SIS THEN "S" ELSE "R"]
    /\ ev' = <<"R", u, 0, RecRate(u)>>
    /\ UNCHANGED params

Next == \/ \E u \in Node : Recover(u)
        \/ \E u, v \in Node : Transmit(u, v)

Spec == Init /\ [][Next]_vars

-----------------------------------------------------------------------------
(* Properties checked by TLC on every graph / rate pair / status vector     *)

Count(x) == Cardinality({u \in Node : st[u] = x})
Conserved == Count("S") + Count("I") + Count("R") = N

\* total rate out of the current state (numerator)
SumOver(S, f(_)) ==
    LET RECURSIVE Sum(_)
        Sum(T) == IF T = {} THEN 0
                  ELSE LET x == CHOOSE y \in T : TRUE IN f(x) + Sum(T \ {x})
    IN Sum(S)
ISLinks == {<<u, v>> \in Node \X Node : st[u] = "I" /\ st[v] = "S" /\ Wt(u, v) > 0}
TotalRate == SumOver({u \in Node : st[u] = "I"}, RecRate)
             + SumOver(ISLinks, LAMBDA p : TransRate(p[1], p[2]))

\* a state is terminal for the chain iff its total rate is 0
DeadlockIffZeroRate == (ENABLED Next) <=> (TotalRate > 0)

\* with positive recovery rate an SIR run can only stop with no infected node
ExtinctAtEnd == (gam > 0 /\ ~ ENABLED Next) => Count("I") = 0

\* SIR monotonicity, R absorbing, exactly one node changes per step
OneLegalMove ==
    [][\E u \in Node :
          /\ \A x \in Node \ {u} : st'[x] = st[x]
          /\ \/ st[u] = "S" /\ st'[u] = "I"
             \/ st[u] = "I" /\ st'[u] = (IF SIS THEN "S" ELSE "R")]_View
Monotone ==
    [][SIS \/ \A u \in Node : (st[u] = "R" => st'[u] = "R")
                           /\ (st'[u] = "S" => st[u] = "S")]_View
ParamsFrozen == [][UNCHANGED params]_vars
\* an infection always has an infectious neighbour as its cause
Caused == [][\A v \in Node : (st[v] = "S" /\ st'[v] = "I") =>
                \E u \in Nbr(v) : st[u] = "I" /\ ev' = <<"T", u, v, TransRate(u, v)>>]_vars

-----------------------------------------------------------------------------
\* emission of the rate-labelled transition for the harness (ACTION_CONSTRAINT)
Emit == PrintT(<<"E", w, g, tau, gam, st, st', ev'>>)
\* emission of terminal states (those with no successor) is done by the
\* harness: a state that appears as a source of no emitted transition.
StateEmit == PrintT(<<"S", w, g, tau, gam, st>>)
=============================================================================

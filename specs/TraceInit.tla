----------------------------- MODULE TraceInit -----------------------------
(***************************************************************************)
(* Trace validation for C05: each trace is one call of one simulator with  *)
(* one way of passing the initial condition; it records the outcome, row 0 *)
(* of the returned arrays, the per-node statuses at tmin of the full-data  *)
(* object, and which nodes were ever infected.  The trace is accepted iff  *)
(* it is what InitRequest allows.  An exhaustive part (variables N, inf,   *)
(* rec chosen in Init when EON_TRACES holds no traces... see CheckInit)    *)
(* checks the request semantics itself on every small request.             *)
(***************************************************************************)
EXTENDS InitRequest, Json, IOUtils

Traces == JsonDeserialize(IOEnv.EON_TRACES)
NT == Len(Traces)
DiagMode == "EON_DIAG" \in DOMAIN IOEnv /\ IOEnv.EON_DIAG = "1"

VARIABLES tid
vars == <<tid>>

SetOf(s) == {s[i] : i \in 1..Len(s)}
T(i) == Traces[i]

OutcomeOK(i) == IF T(i).mode = "both" THEN T(i).outcome = "EoNError" ELSE T(i).outcome = "ok"
StatusOK(i) ==
    (T(i).mode # "both" /\ T(i).outcome = "ok" /\ T(i).has_st = 1) =>
        Admissible(T(i).n, T(i).mode, SetOf(T(i).inf), SetOf(T(i).rec), T(i).a, T(i).b, T(i).st0)
RowOK(i) ==
    (T(i).mode # "both" /\ T(i).outcome = "ok" /\ T(i).has_row = 1) =>
        LET k == NumInfected(T(i).n, T(i).mode, SetOf(T(i).inf), T(i).a, T(i).b)
            r == Cardinality(SetOf(T(i).rec))
        IN T(i).row0 = <<T(i).n - k - r, k, r>> /\ T(i).t0 = 1
RecoveredFrozen(i) ==
    (T(i).mode # "both" /\ T(i).outcome = "ok" /\ T(i).has_st = 1) =>
        SetOf(T(i).ever_infected) \cap SetOf(T(i).rec) = {}
StartsAtTmin(i) ==
    (T(i).mode # "both" /\ T(i).outcome = "ok" /\ T(i).has_st = 1) => T(i).hist_start = 1

Init == tid \in 1..NT
Next == FALSE /\ UNCHANGED tid
Spec == Init /\ [][Next]_vars

Accepted == OutcomeOK(tid) /\ StatusOK(tid) /\ RowOK(tid) /\ RecoveredFrozen(tid) /\ StartsAtTmin(tid)
EmitAccepted == Accepted => PrintT(<<"OK", tid>>)
EmitDiag == DiagMode => PrintT(<<"AT", tid, 1, [outcome |-> OutcomeOK(tid), statuses_at_tmin |-> StatusOK(tid),
                                              row0 |-> RowOK(tid), recovered_never_infected |-> RecoveredFrozen(tid),
                                              histories_start_at_tmin |-> StartsAtTmin(tid)]>>)
=============================================================================

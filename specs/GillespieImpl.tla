---------------------------- MODULE GillespieImpl ----------------------------
(***************************************************************************)
(* Implementation-shaped specification of the main loops of Gillespie_SIR  *)
(* and Gillespie_SIS (EoN/simulation.py): the candidate sets `infecteds`   *)
(* and `IS_links` are maintained INCREMENTALLY after every event, exactly  *)
(* as the code does (one action per branch of the loop):                   *)
(*   recover u :  remove u from infecteds; for every neighbour:            *)
(*                SIR  susceptible nbr -> remove link (u,nbr)              *)
(*                SIS  susceptible nbr -> remove link (u,nbr)              *)
(*                     otherwise       -> insert link (nbr,u)              *)
(*   transmit (u,v): add v to infecteds; for every neighbour of v:         *)
(*                susceptible nbr -> insert link (v,nbr)                   *)
(*                infected nbr    -> remove link (nbr,v)                   *)
(* TLC checks, for every graph / rates / status vector reachable from any  *)
(* consistent start: the bookkeeping invariant IS_links = {(u,v) : u       *)
(* infectious, v susceptible, edge}, infecteds = {u infectious}; that no   *)
(* removal ever targets an absent candidate (a KeyError in the code); and  *)
(* that the loop refines the reference chain NetEpi (same st, same rates). *)
(***************************************************************************)
EXTENDS Naturals, FiniteSets, Sequences, TLC

CONSTANTS N, EW, NW, TauSet, GamSet, SIS

VARIABLES w, g, tau, gam, st, ev, infecteds, links, badRemove

Ref == INSTANCE NetEpi
Node == Ref!Node
Wt(u, v) == Ref!Wt(u, v)
Nbr(u) == Ref!Nbr(u)

vars == <<w, g, tau, gam, st, ev, infecteds, links, badRemove>>
View == <<w, g, tau, gam, st, infecteds, links, badRemove>>

ISLinksOf(S) == {<<u, v>> \in Node \X Node : S[u] = "I" /\ S[v] = "S" /\ Wt(u, v) > 0}

\* set-up loop of the code: every initially infected node and its susceptible neighbours
Init == /\ Ref!Init
        /\ infecteds = {u \in Node : st[u] = "I"}
        /\ links = ISLinksOf(st)
        /\ badRemove = FALSE

RecoverStep(u) ==
    /\ u \in infecteds /\ gam * g[u] > 0
    /\ LET st2 == [st EXCEPT ![u] = IF SIS THEN "S" ELSE "R"]
           rem == {<<u, nbr>> : nbr \in {x \in Nbr(u) : st2[x] = "S"}}
           add == IF SIS THEN {<<nbr, u>> : nbr \in {x \in Nbr(u) : st2[x] # "S"}} ELSE {}
       IN /\ st' = st2
          /\ infecteds' = infecteds \ {u}
          /\ links' = (links \ rem) \cup add
          /\ badRemove' = (badRemove \/ ~(rem \subseteq links))
    /\ ev' = <<"R", u, 0, gam * g[u]>>
    /\ UNCHANGED <<w, g, tau, gam>>

TransmitStep(u, v) ==
    /\ <<u, v>> \in links /\ tau * Wt(u, v) > 0
    /\ LET st2 == [st EXCEPT ![v] = "I"]
           add == {<<v, nbr>> : nbr \in {x \in Nbr(v) : st2[x] = "S"}}
           rem == {<<nbr, v>> : nbr \in {x \in Nbr(v) : st2[x] = "I" /\ x # v}}
       IN /\ st' = st2
          /\ infecteds' = infecteds \cup {v}
          /\ links' = (links \ rem) \cup add
          /\ badRemove' = (badRemove \/ ~(rem \subseteq links))
    /\ ev' = <<"T", u, v, tau * Wt(u, v)>>
    /\ UNCHANGED <<w, g, tau, gam>>

DoRecover  == \E u \in Node : RecoverStep(u)
DoTransmit == \E u, v \in Node : TransmitStep(u, v)
Next == DoRecover \/ DoTransmit
Spec == Init /\ [][Next]_vars

\* the bookkeeping invariant the whole algorithm rests on
LinksExact     == links = ISLinksOf(st)
InfectedsExact == infecteds = {u \in Node : st[u] = "I"}
NoBadRemove    == ~badRemove
\* the loop is the reference chain: every step is a NetEpi step with the same rate label
RefinesNetEpi  == Ref!Spec
\* the loop stops (no candidate with positive rate) exactly in the terminal states of the chain
StopsWithChain == (ENABLED Next) <=> (ENABLED Ref!Next)
=============================================================================

------------------------------ MODULE DegreeDist ------------------------------
(***************************************************************************)
(* Moment semantics of the degree-distribution helpers of EoN/analytic.py  *)
(* (property C20): get_Pk, get_Pnk, get_PGF, get_PGFPrime, get_PGFDPrime,  *)
(* estimate_R0.                                                            *)
(*                                                                         *)
(* Everything is exact integer arithmetic.  A rational is <<num, den>> in  *)
(* lowest terms with den > 0 (<<0, 0>> marks "undefined").  The            *)
(* probability generating function  psi(x) = (1/NN) Sum_k Cnt(k) x^k  is   *)
(* carried as the list of its integer coefficient numerators               *)
(* Coef = <<Cnt(0), ..., Cnt(Kmx)>> over the common denominator NN, and    *)
(* differentiation is the FORMAL derivative D of coefficient lists.        *)
(*                                                                         *)
(* One TLC run quantifies over                                             *)
(*   kind "G": every graph on 1..NMax nodes, given by the weight vector w  *)
(*             (w[PairIdx(u,v)] = 0: no edge; a positive weight is an edge;*)
(*             weights do not influence degrees), isolated nodes included; *)
(*   kind "D": every ordered degree sequence of length 1..DLen over        *)
(*             0..KMax plus the sequences in ExtraDegSeqs (longer,         *)
(*             configuration-model style), for the functions that take a   *)
(*             degree distribution rather than a graph.                    *)
(* For every input TLC checks the identities of Part 2 and (EmitOn) prints *)
(* input |-> expected output for the conformance harness (checks/c20.py).  *)
(***************************************************************************)
EXTENDS Integers, Sequences, FiniteSets, TLC

CONSTANTS NMax,          \* graphs on 1..NMax nodes
          EW,            \* admissible positive edge weights
          DLen, KMax,    \* degree sequences: length 1..DLen, degrees 0..KMax
          ExtraDegSeqs,  \* further degree sequences (set of sequences of naturals)
          XS,            \* evaluation points, sequence of <<a, b>> meaning a/b in (0,1]
          TS,            \* transmissibilities, sequence of <<a, b>> meaning a/b
          EmitOn         \* print input |-> expected output

VARIABLES kind,   \* "G": the input is the graph (n, w);  "D": the input is the degree sequence deg
          n, w,   \* number of nodes and weight vector of the graph (kind "G")
          deg,    \* the degree sequence of the input: derived from (n, w) in Init for kind "G"
                  \* (DegDef below), the input itself for kind "D"; frozen
          phase
vars == <<kind, n, w, deg, phase>>

-----------------------------------------------------------------------------
(* Part 0: integer and rational helpers                                     *)

SetMax(S) == CHOOSE x \in S : \A y \in S : y <= x

RECURSIVE GCD(_, _)
GCD(a, b) == IF b = 0 THEN a ELSE GCD(b, a % b)

\* lowest terms (numerators are never negative here)
Red(q) == IF q[1] = 0 THEN <<0, 1>>
          ELSE LET g == GCD(q[1], q[2]) IN <<q[1] \div g, q[2] \div g>>

RECURSIVE Pow(_, _)
Pow(a, e) == IF e = 0 THEN 1 ELSE a * Pow(a, e - 1)

SeqSum(s) == LET f[i \in 0..Len(s)] == IF i = 0 THEN 0 ELSE f[i - 1] + s[i]
             IN f[Len(s)]

IsOrdered(s) == \A i \in 1..(Len(s) - 1) : s[i] <= s[i + 1]

-----------------------------------------------------------------------------
(* Part 1: definitions                                                      *)

NP(m) == (m * (m - 1)) \div 2
\* unordered pair {u,v}, u # v, as an index into the weight vector of an m-node graph
PairIdx(m, u, v) == LET a == IF u < v THEN u ELSE v
                        b == IF u < v THEN v ELSE u
                    IN ((a - 1) * m - ((a - 1) * a) \div 2) + (b - a)

Adj(u, v) == u # v /\ w[PairIdx(n, u, v)] > 0
Nbr(u)    == {v \in 1..n : Adj(u, v)}
Edges     == Cardinality({p \in 1..NP(n) : w[p] > 0})

\* the degree sequence: number of neighbours (weights play no role)
GraphDeg == [u \in 1..n |-> Cardinality(Nbr(u))]
Deg == deg
NN  == Len(Deg)
Kmx == SetMax({Deg[u] : u \in 1..NN})

\* degree histogram and the degrees that occur, ascending
Cnt(k)  == Cardinality({u \in 1..NN : Deg[u] = k})
Present == SelectSeq([i \in 1..(Kmx + 1) |-> i - 1], LAMBDA k : Cnt(k) > 0)

\* Pk[k] = proportion of nodes of degree k
Pk(k)  == Red(<<Cnt(k), NN>>)
PkList == [i \in 1..Len(Present) |-> <<Present[i], Pk(Present[i])[1], Pk(Present[i])[2]>>]

\* moments:  <k> = M1/NN,  <k^2 - k> = M2/NN
M1 == SeqSum(Deg)
M2 == SeqSum([u \in 1..NN |-> Deg[u] * (Deg[u] - 1)])

\* Pnk[k1][k2] = proportion of the neighbours of degree-k1 nodes that have degree k2:
\* ordered adjacent pairs (u,v) with deg u = k1, deg v = k2 over all k1*Cnt(k1)
\* neighbour slots of degree-k1 nodes.  Defined for k1 >= 1 only.
Pairs(k1, k2) == Cardinality({p \in (1..n) \X (1..n) :
                                 Adj(p[1], p[2]) /\ Deg[p[1]] = k1 /\ Deg[p[2]] = k2})
Pnk(k1, k2)   == Red(<<Pairs(k1, k2), k1 * Cnt(k1)>>)
PnkRow(k1)    == LET ks == SelectSeq(Present, LAMBDA k2 : Pairs(k1, k2) > 0)
                 IN  [i \in 1..Len(ks) |-> <<ks[i], Pnk(k1, ks[i])[1], Pnk(k1, ks[i])[2]>>]
\* the row of degree 0 ("neighbours of nodes without neighbours") is left empty:
\* the specification says nothing about it
PnkList == [i \in 1..Len(Present) |->
               <<Present[i], IF Present[i] = 0 THEN << >> ELSE PnkRow(Present[i])>>]

\* --- polynomials as coefficient lists: c[i] is the coefficient of x^(i-1) ---
Coef == [i \in 1..(Kmx + 1) |-> Cnt(i - 1)]          \* NN * psi

PolyAdd(p, q) == [i \in 1..(IF Len(p) >= Len(q) THEN Len(p) ELSE Len(q)) |->
                     (IF i <= Len(p) THEN p[i] ELSE 0) + (IF i <= Len(q) THEN q[i] ELSE 0)]
TimesX(p)     == IF p = << >> THEN << >> ELSE <<0>> \o p

\* formal derivative, by the product rule on the Horner form  p = c0 + x*q :
\*    D(p) = q + x * D(q)
RECURSIVE D(_)
D(c) == IF Len(c) <= 1 THEN << >>
        ELSE PolyAdd(Tail(c), TimesX(D(Tail(c))))

\* value of (1/NN) * polynomial c at x = a/b, exact
PolyNum(c, a, b) == SeqSum([i \in 1..Len(c) |-> c[i] * Pow(a, i - 1) * Pow(b, Len(c) - i)])
PolyAt(c, x)     == IF c = << >> THEN <<0, 1>>
                    ELSE Red(<<PolyNum(c, x[1], x[2]), NN * Pow(x[2], Len(c) - 1)>>)

Psi(x)   == PolyAt(Coef, x)
PsiP(x)  == PolyAt(D(Coef), x)
PsiPP(x) == PolyAt(D(D(Coef)), x)

\* R0 = T <k^2-k>/<k>; undefined when there is no edge end at all
R0(T) == IF M1 = 0 THEN <<0, 0>> ELSE Red(<<T[1] * M2, T[2] * M1>>)

EvalTab == [i \in 1..Len(XS) |-> <<XS[i], Psi(XS[i]), PsiP(XS[i]), PsiPP(XS[i])>>]
R0List  == [i \in 1..Len(TS) |-> <<TS[i], R0(TS[i])>>]

-----------------------------------------------------------------------------
(* Part 2: identities TLC checks for every input                            *)

One == <<1, 1>>

\* get_Pk sums to 1 and is the degree histogram
PkSumsToOne ==
    /\ SeqSum(Coef) = NN
    /\ SeqSum([i \in 1..Len(PkList) |-> PkList[i][2] * (NN \div PkList[i][3])]) = NN
    /\ \A i \in 1..Len(PkList) : NN * PkList[i][2] = Cnt(PkList[i][1]) * PkList[i][3]

PsiAtOne       == Psi(One)   = One
PsiPrimeAtOne  == PsiP(One)  = Red(<<M1, NN>>)            \* psi'(1)  = <k>
PsiDPrimeAtOne == PsiPP(One) = Red(<<M2, NN>>)            \* psi''(1) = <k^2 - k>

\* coeff(D psi)[k-1] = k * coeff(psi)[k], and once more for the second derivative
DerivCoeff ==
    /\ Len(D(Coef)) = Kmx
    /\ \A k \in 1..Kmx : D(Coef)[k] = k * Coef[k + 1]
    /\ Len(D(D(Coef))) = (IF Kmx >= 1 THEN Kmx - 1 ELSE 0)
    /\ \A k \in 2..Kmx : D(D(Coef))[k - 1] = k * (k - 1) * Coef[k + 1]

\* the coefficient-wise polynomials are the node-wise averages of x^deg and its derivatives
NodeNum(f(_), a, b, s) ==      \* Sum_u f(deg u) a^(deg u - s) b^(Kmx - deg u), nodes of degree >= s
    SeqSum([u \in 1..NN |-> IF Deg[u] >= s THEN f(Deg[u]) * Pow(a, Deg[u] - s) * Pow(b, Kmx - Deg[u]) ELSE 0])
NodeWise ==
    \A i \in 1..Len(XS) :
       LET a == XS[i][1]
           b == XS[i][2]
       IN /\ Psi(XS[i])  = Red(<<NodeNum(LAMBDA k : 1, a, b, 0), NN * Pow(b, Kmx)>>)
          /\ (Kmx >= 1) => PsiP(XS[i])  = Red(<<NodeNum(LAMBDA k : k, a, b, 1), NN * Pow(b, Kmx - 1)>>)
          /\ (Kmx >= 2) => PsiPP(XS[i]) = Red(<<NodeNum(LAMBDA k : k * (k - 1), a, b, 2), NN * Pow(b, Kmx - 2)>>)
          /\ (Kmx = 0) => PsiP(XS[i]) = <<0, 1>>
          /\ (Kmx <= 1) => PsiPP(XS[i]) = <<0, 1>>

DegDef    == (kind = "G") => deg = GraphDeg
Handshake == (kind = "G") => M1 = 2 * Edges

\* rows of Pnk for k >= 1 sum to 1; pair counts are symmetric
PnkRows ==
    (kind = "G") =>
       \A i \in 1..Len(Present) :
          LET k1 == Present[i] IN
             /\ (k1 >= 1) =>
                  /\ SeqSum([j \in 1..Len(Present) |-> Pairs(k1, Present[j])]) = k1 * Cnt(k1)
                  /\ LET row == PnkRow(k1)
                     IN  SeqSum([j \in 1..Len(row) |-> row[j][2] * ((k1 * Cnt(k1)) \div row[j][3])]) = k1 * Cnt(k1)
             /\ \A j \in 1..Len(Present) : Pairs(k1, Present[j]) = Pairs(Present[j], k1)
             /\ (k1 = 0) => \A j \in 1..Len(Present) : Pairs(k1, Present[j]) = 0

\* R0 is what the code computes, T psi''(1)/psi'(1), and is T(d-1) on a d-regular graph
R0Identities ==
    \A i \in 1..Len(TS) :
       LET T == TS[i] IN
          /\ (M1 > 0) => R0(T) = Red(<<T[1] * PsiPP(One)[1] * PsiP(One)[2],
                                       T[2] * PsiPP(One)[2] * PsiP(One)[1]>>)
          /\ (Deg[1] >= 1 /\ \A u \in 1..NN : Deg[u] = Deg[1]) => R0(T) = Red(<<T[1] * (Deg[1] - 1), T[2]>>)
          /\ (M1 = 0) <=> R0(T) = <<0, 0>>

-----------------------------------------------------------------------------
(* Part 3: the input family and the emission                                *)

DegSeqs == UNION {{s \in [1..m -> 0..KMax] : IsOrdered(s)} : m \in 1..DLen}

Init == /\ kind \in {"G", "D"}
        /\ n \in (IF kind = "G" THEN 1..NMax ELSE {0})
        /\ w \in (IF kind = "G" THEN [1..NP(n) -> {0} \cup EW] ELSE {<< >>})
        /\ deg \in (IF kind = "G" THEN {GraphDeg} ELSE DegSeqs \cup ExtraDegSeqs)
        /\ phase = "in"

Record ==
    IF kind = "G"
    THEN <<"G", n, w, Deg, PkList, PnkList, Coef, D(Coef), D(D(Coef)), EvalTab, <<NN, M1, M2>>, R0List>>
    ELSE <<"D", Deg, PkList, Coef, D(Coef), D(D(Coef)), EvalTab, <<NN, M1, M2>>, R0List>>

Evaluate == /\ phase = "in"
            /\ phase' = "out"
            /\ EmitOn => PrintT(Record)
            /\ UNCHANGED <<kind, n, w, deg>>

Next == Evaluate
Spec == Init /\ [][Next]_vars

\* every identity, for configurations that want a single name
Identities == /\ DegDef /\ PkSumsToOne /\ PsiAtOne /\ PsiPrimeAtOne /\ PsiDPrimeAtOne
              /\ DerivCoeff /\ NodeWise /\ Handshake /\ PnkRows /\ R0Identities
=============================================================================

------------------------------ MODULE DegreeDist ------------------------------
(***************************************************************************)
(* Moment semantics of the degree-distribution helpers of EoN/analytic.py  *)
(* (property C20): get_Pk, get_Pnk, get_PGF, get_PGFPrime, get_PGFDPrime,  *)
(* estimate_R0.                                                            *)
(*                                                                         *)
(* Everything is exact integer arithmetic.  A rational is <<num, den>> in  *)
(* lowest terms with den > 0 (<<0, 0>> marks "undefined").  The            *)
(* probability generating function  psi(x) = (1/NN) Sum_k Cnt(k) x^k  is   *)
(* carried as the list of its integer coefficient numerators               *)
(* Coef = <<Cnt(0), ..., Cnt(Kmx)>> over the common denominator NN, and    *)
(* differentiation is the FORMAL derivative D of coefficient lists.        *)
(*                                                                         *)
(* One TLC run quantifies over                                             *)
(*   kind "G": every graph on 1..NMax nodes, given by the weight vector w  *)
(*             (w[PairIdx(u,v)] = 0: no edge; a positive weight is an edge;*)
(*             weights do not influence degrees), isolated nodes included; *)
(*   kind "D": every ordered degree sequence of length 1..DLen over        *)
(*             0..KMax plus the sequences in ExtraDegSeqs (longer,         *)
(*             configuration-model style), for the functions that take a   *)
(*             degree distribution rather than a graph.                    *)
(* For every input TLC checks the identities of Part 2 and (EmitOn) prints *)
(* input |-> expected output for the conformance harness (checks/c20.py).  *)
(***************************************************************************)
EXTENDS Integers, Sequences, FiniteSets, TLC

CONSTANTS NMax,          \* graphs on 1..NMax nodes
          EW,            \* admissible positive edge weights
          DLen, KMax,    \* degree sequences: length 1..DLen, degrees 0..KMax
          ExtraDegSeqs,  \* further degree sequences (set of sequences of naturals)
          XS,            \* evaluation points, sequence of <<a, b>> meaning a/b in (0,1]
          TS,            \* transmissibilities, sequence of <<a, b>> meaning a/b
          EmitOn         \* print input |-> expected output

VARIABLES kind,   \* "G": the input is the graph (n, w);  "D": the input is the degree sequence deg
          n, w,   \* number of nodes and weight vector of the graph (kind "G")
          deg,    \* the degree sequence of the input: derived from (n, w) in Init for kind "G"
                  \* (DegDef below), the input itself for kind "D"; frozen
          phase   \* "in": input chosen;  "out": evaluated (and printed)
vars == <<kind, n, w, deg, phase>>

-----------------------------------------------------------------------------
(* Part 0: integer and rational helpers                                     *)

SetMax(S) == CHOOSE x \in S : \A y \in S : y <= x

RECURSIVE GCD(_, _)
GCD(a, b) == IF b = 0 THEN a ELSE GCD(b, a % b)

\* lowest terms (numerators are never negative here)
Red(q) == IF q[1] = 0 THEN <<0, 1>>
          ELSE LET g == GCD(q[1], q[2]) IN <<q[1] \div g, q[2] \div g>>

RECURSIVE Pow(_, _)
Pow(a, e) == IF e = 0 THEN 1 ELSE a * Pow(a, e - 1)

SeqSum(s) == LET f[i \in 0..Len(s)] == IF i = 0 THEN 0 ELSE f[i - 1] + s[i]
             IN f[Len(s)]

IsOrdered(s) == \A i \in 1..(Len(s) - 1) : s[i] <= s[i + 1]

-----------------------------------------------------------------------------
(* Part 1: definitions                                                      *)

NP(m) == (m * (m - 1)) \div 2
\* unordered pair {u,v}, u # v, as an index into the weight vector of an m-node graph
PairIdx(m, u, v) == LET a == IF u < v THEN u ELSE v
                        b == IF u < v THEN v ELSE u
                    IN ((a - 1) * m - ((a - 1) * a) \div 2) + (b - a)

Adj(u, v) == u # v /\ w[PairIdx(n, u, v)] > 0
Nbr(u)    == {v \in 1..n : Adj(u, v)}
Edges     == Cardinality({p \in 1..NP(n) : w[p] > 0})

\* the degree sequence: number of neighbours (weights play no role)
GraphDeg == [u \in 1..n |-> Cardinality(Nbr(u))]
NN  == Len(deg)
Kmx == SetMax({deg[u] : u \in 1..NN})

\* degree histogram and the degrees that occur, ascending
Cnt(k)  == Cardinality({u \in 1..NN : deg[u] = k})
Present == SelectSeq([i \in 1..(Kmx + 1) |-> i - 1], LAMBDA k : Cnt(k) > 0)

\* Pk[k] = proportion of nodes of degree k
Pk(k)  == Red(<<Cnt(k), NN>>)
PkList == LET pr == Present
          IN  [i \in 1..Len(pr) |-> <<pr[i], Pk(pr[i])[1], Pk(pr[i])[2]>>]

\* moments:  <k> = M1/NN,  <k^2 - k> = M2/NN
M1 == SeqSum(deg)
M2 == SeqSum([u \in 1..NN |-> deg[u] * (deg[u] - 1)])

\* Pnk[k1][k2] = proportion of the neighbours of degree-k1 nodes that have degree k2:
\* ordered adjacent pairs (u,v) with deg u = k1, deg v = k2 over all k1*Cnt(k1)
\* neighbour slots of degree-k1 nodes.  Defined for k1 >= 1 only.
Pairs(k1, k2) == Cardinality({p \in (1..n) \X (1..n) :
                                 Adj(p[1], p[2]) /\ deg[p[1]] = k1 /\ deg[p[2]] = k2})
Pnk(k1, k2)   == Red(<<Pairs(k1, k2), k1 * Cnt(k1)>>)
PnkRow(k1)    == LET ks == SelectSeq(Present, LAMBDA k2 : Pairs(k1, k2) > 0)
                 IN  [i \in 1..Len(ks) |-> <<ks[i], Pnk(k1, ks[i])[1], Pnk(k1, ks[i])[2]>>]
\* the row of degree 0 ("neighbours of nodes without neighbours") is left empty:
\* the specification says nothing about it
PnkList == LET pr == Present
           IN  [i \in 1..Len(pr) |-> <<pr[i], IF pr[i] = 0 THEN << >> ELSE PnkRow(pr[i])>>]

\* --- polynomials as coefficient lists: c[i] is the coefficient of x^(i-1) ---
Coef == [i \in 1..(Kmx + 1) |-> Cnt(i - 1)]          \* NN * psi

PolyAdd(p, q) == [i \in 1..(IF Len(p) >= Len(q) THEN Len(p) ELSE Len(q)) |->
                     (IF i <= Len(p) THEN p[i] ELSE 0) + (IF i <= Len(q) THEN q[i] ELSE 0)]
TimesX(p)     == IF p = << >> THEN << >> ELSE <<0>> \o p

\* formal derivative, by the product rule on the Horner form  p = c0 + x*q :
\*    D(p) = q + x * D(q)
RECURSIVE D(_)
D(c) == IF Len(c) <= 1 THEN << >>
        ELSE PolyAdd(Tail(c), TimesX(D(Tail(c))))

\* value of (1/NN) * polynomial c at x = a/b, exact
PolyNum(c, a, b) == SeqSum([i \in 1..Len(c) |-> c[i] * Pow(a, i - 1) * Pow(b, Len(c) - i)])
PolyAt(c, x)     == IF c = << >> THEN <<0, 1>>
                    ELSE Red(<<PolyNum(c, x[1], x[2]), NN * Pow(x[2], Len(c) - 1)>>)

Psi(x)   == PolyAt(Coef, x)
PsiP(x)  == PolyAt(D(Coef), x)
PsiPP(x) == PolyAt(D(D(Coef)), x)

\* R0 = T <k^2-k>/<k>; undefined when there is no edge end at all
R0(T) == IF M1 = 0 THEN <<0, 0>> ELSE Red(<<T[1] * M2, T[2] * M1>>)

EvalTab == LET c   == Coef
               dc  == D(c)
               ddc == D(dc)
           IN  [i \in 1..Len(XS) |-> <<XS[i], PolyAt(c, XS[i]), PolyAt(dc, XS[i]), PolyAt(ddc, XS[i])>>]
R0List  == [i \in 1..Len(TS) |-> <<TS[i], R0(TS[i])>>]

-----------------------------------------------------------------------------
(* Part 2: identities TLC checks for every input                            *)

One == <<1, 1>>

\* get_Pk sums to 1 and is the degree histogram
PkSumsToOne ==
    LET pl == PkList IN
    /\ SeqSum(Coef) = NN
    /\ SeqSum([i \in 1..Len(pl) |-> pl[i][2] * (NN \div pl[i][3])]) = NN
    /\ \A i \in 1..Len(pl) : NN * pl[i][2] = Cnt(pl[i][1]) * pl[i][3]

PsiAtOne       == Psi(One)   = One
PsiPrimeAtOne  == PsiP(One)  = Red(<<M1, NN>>)            \* psi'(1)  = <k>
PsiDPrimeAtOne == PsiPP(One) = Red(<<M2, NN>>)            \* psi''(1) = <k^2 - k>

\* coeff(D psi)[k-1] = k * coeff(psi)[k], and once more for the second derivative
DerivCoeff ==
    LET c   == Coef
        dc  == D(c)
        ddc == D(dc)
        K   == Len(c) - 1
    IN /\ K = Kmx
       /\ Len(dc) = K
       /\ \A k \in 1..K : dc[k] = k * c[k + 1]
       /\ Len(ddc) = (IF K >= 1 THEN K - 1 ELSE 0)
       /\ \A k \in 2..K : ddc[k - 1] = k * (k - 1) * c[k + 1]

\* the coefficient-wise polynomials are the node-wise averages of x^deg and its derivatives
NodeNum(f(_), a, b, s, K) ==   \* Sum_u f(deg u) a^(deg u - s) b^(K - deg u), nodes of degree >= s
    SeqSum([u \in 1..NN |-> IF deg[u] >= s THEN f(deg[u]) * Pow(a, deg[u] - s) * Pow(b, K - deg[u]) ELSE 0])
NodeWise ==
    LET K   == Kmx
        c   == Coef
        dc  == D(c)
        ddc == D(dc)
    IN \A i \in 1..Len(XS) :
       LET a == XS[i][1]
           b == XS[i][2]
       IN /\ PolyAt(c, XS[i]) = Red(<<NodeNum(LAMBDA k : 1, a, b, 0, K), NN * Pow(b, K)>>)
          /\ (K >= 1) => PolyAt(dc, XS[i])  = Red(<<NodeNum(LAMBDA k : k, a, b, 1, K), NN * Pow(b, K - 1)>>)
          /\ (K >= 2) => PolyAt(ddc, XS[i]) = Red(<<NodeNum(LAMBDA k : k * (k - 1), a, b, 2, K), NN * Pow(b, K - 2)>>)
          /\ (K = 0) => PolyAt(dc, XS[i]) = <<0, 1>>
          /\ (K <= 1) => PolyAt(ddc, XS[i]) = <<0, 1>>

DegDef    == (kind = "G") => deg = GraphDeg
Handshake == (kind = "G") => M1 = 2 * Edges

\* rows of Pnk for k >= 1 sum to 1; pair counts are symmetric
PnkRows ==
    (kind = "G") =>
       LET pr == Present IN
       \A i \in 1..Len(pr) :
          LET k1    == pr[i]
              slots == k1 * Cnt(k1)
          IN /\ (k1 >= 1) =>
                  /\ SeqSum([j \in 1..Len(pr) |-> Pairs(k1, pr[j])]) = slots
                  /\ LET row == PnkRow(k1)
                     IN  SeqSum([j \in 1..Len(row) |-> row[j][2] * (slots \div row[j][3])]) = slots
             /\ \A j \in 1..Len(pr) : Pairs(k1, pr[j]) = Pairs(pr[j], k1)
             /\ (k1 = 0) => \A j \in 1..Len(pr) : Pairs(k1, pr[j]) = 0

\* R0 is what the code computes, T psi''(1)/psi'(1), and is T(d-1) on a d-regular graph
R0Identities ==
    LET p1 == PsiP(One)
        p2 == PsiPP(One)
    IN \A i \in 1..Len(TS) :
       LET T == TS[i] IN
          /\ (M1 > 0) => R0(T) = Red(<<T[1] * p2[1] * p1[2], T[2] * p2[2] * p1[1]>>)
          /\ (deg[1] >= 1 /\ \A u \in 1..NN : deg[u] = deg[1]) => R0(T) = Red(<<T[1] * (deg[1] - 1), T[2]>>)
          /\ (M1 = 0) <=> R0(T) = <<0, 0>>

-----------------------------------------------------------------------------
(* Part 3: the input family and the emission                                *)

DegSeqs == UNION {{s \in [1..m -> 0..KMax] : IsOrdered(s)} : m \in 1..DLen}

Init == /\ kind \in {"G", "D"}
        /\ n \in (IF kind = "G" THEN 1..NMax ELSE {0})
        /\ w \in (IF kind = "G" THEN [1..NP(n) -> {0} \cup EW] ELSE {<< >>})
        /\ deg \in (IF kind = "G" THEN {GraphDeg} ELSE DegSeqs \cup ExtraDegSeqs)
        /\ phase = "in"

Record ==
    IF kind = "G"
    THEN <<"G", n, w, deg, PkList, PnkList, Coef, D(Coef), D(D(Coef)), EvalTab, <<NN, M1, M2>>, R0List>>
    ELSE <<"D", deg, PkList, Coef, D(Coef), D(D(Coef)), EvalTab, <<NN, M1, M2>>, R0List>>

Evaluate == /\ phase = "in"
            /\ phase' = "out"
            /\ EmitOn => PrintT(Record)
            /\ UNCHANGED <<kind, n, w, deg>>

Next == Evaluate
Spec == Init /\ [][Next]_vars

\* The identities are state predicates of the (frozen) input.  TLC evaluates invariants of
\* initial states on its single start-up thread and those of successor states on all
\* workers, so the configurations name the guarded forms: every input is judged exactly
\* once, in the state reached by Evaluate.
I_DegDef == (phase = "out") => DegDef
I_PkSumsToOne == (phase = "out") => PkSumsToOne
I_PsiAtOne == (phase = "out") => PsiAtOne
I_PsiPrimeAtOne == (phase = "out") => PsiPrimeAtOne
I_PsiDPrimeAtOne == (phase = "out") => PsiDPrimeAtOne
I_DerivCoeff == (phase = "out") => DerivCoeff
I_NodeWise == (phase = "out") => NodeWise
I_Handshake == (phase = "out") => Handshake
I_PnkRows == (phase = "out") => PnkRows
I_R0Identities == (phase = "out") => R0Identities
=============================================================================

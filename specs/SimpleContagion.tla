-------------------------- MODULE SimpleContagion --------------------------
(***************************************************************************)
(* Reference semantics of Gillespie_simple_contagion (C03; projections     *)
(* used by C04, C09): the continuous-time Markov chain in which            *)
(*   - a node of status A turns B at rate r_AB * nodeweight   (Spont), and *)
(*   - an ordered neighbour pair (u,v) along edge direction with statuses  *)
(*     (A,B) turns v to C at rate r * edgeweight              (Induced),   *)
(* and nothing else ever happens.                                          *)
(*                                                                         *)
(* A scenario (JSON file named by EON_SCENARIOS, shared with the harness)  *)
(* fixes the user's model - statuses, spontaneous transitions              *)
(* <<A, B, rate>> with a node-weight vector, induced transitions           *)
(* <<A, B, C, rate>> with an edge-weight matrix - and the contact graph    *)
(* (directed adjacency; undirected graphs are symmetric).  TLC quantifies  *)
(* over every scenario and every status vector, checks the invariants      *)
(* below and emits the rate-labelled transition system for the harness.    *)
(***************************************************************************)
EXTENDS Naturals, FiniteSets, Sequences, TLC, Json, IOUtils

Scenarios == JsonDeserialize(IOEnv.EON_SCENARIOS)
NS == Len(Scenarios)

VARIABLES sc, st, ev
vars == <<sc, st, ev>>
View == <<sc, st>>

Nodes      == 1..Scenarios[sc].n
Statuses   == {Scenarios[sc].statuses[i] : i \in 1..Len(Scenarios[sc].statuses)}
Edge(u, v) == Scenarios[sc].adj[u][v] = 1          \* u -> v
Spo        == Scenarios[sc].spont                   \* seq of [from, to, rate, nw]
Ind        == Scenarios[sc].induced                 \* seq of [a, b, c, rate, ew]

SpontRate(j, u)      == Spo[j].rate * Spo[j].nw[u]
InducedRate(j, u, v) == Ind[j].rate * Ind[j].ew[u][v]

Init == /\ sc \in 1..NS
        /\ st \in [Nodes -> Statuses]
        /\ ev = <<"-", 0, 0, "", 0>>

Spont(u, j) ==
    /\ st[u] = Spo[j].from /\ SpontRate(j, u) > 0
    /\ st' = [st EXCEPT ![u] = Spo[j].to]
    /\ ev' = <<"S", u, 0, Spo[j].to, SpontRate(j, u)>>
    /\ UNCHANGED sc

Induced(u, v, j) ==
    /\ u # v /\ Edge(u, v)
    /\ st[u] = Ind[j].a /\ st[v] = Ind[j].b /\ InducedRate(j, u, v) > 0
    /\ st' = [st EXCEPT ![v] = Ind[j].c]
    /\ ev' = <<"N", u, v, Ind[j].c, InducedRate(j, u, v)>>
    /\ UNCHANGED sc

DoSpont   == \E u \in Nodes : \E j \in 1..Len(Spo) : Spont(u, j)
DoInduced == \E u \in Nodes : \E v \in Nodes : \E j \in 1..Len(Ind) : Induced(u, v, j)
Next == DoSpont \/ DoInduced
Spec == Init /\ [][Next]_vars

-----------------------------------------------------------------------------
TypeOK == st \in [Nodes -> Statuses]
\* exactly one node changes per step, along a transition of the user's model
OneSpecEdge ==
    [][\E u \in Nodes :
          /\ \A x \in Nodes \ {u} : st'[x] = st[x]
          /\ \/ \E j \in 1..Len(Spo) : st[u] = Spo[j].from /\ st'[u] = Spo[j].to
             \/ \E j \in 1..Len(Ind) : st[u] = Ind[j].b /\ st'[u] = Ind[j].c /\
                    \E x \in Nodes : Edge(x, u) /\ st[x] = Ind[j].a]_View
\* the inducer keeps its status (the code rejects specifications that say otherwise)
InducerKeeps == [][ev'[1] = "N" => st'[ev'[2]] = st[ev'[2]]]_vars
ScenarioFrozen == [][sc' = sc]_vars

Emit == PrintT(<<"E", sc, st, st', ev'>>)
=============================================================================

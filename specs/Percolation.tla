----------------------------- MODULE Percolation -----------------------------
(***************************************************************************)
(* Reference semantics of the percolation-based epidemic probability /    *)
(* size estimators of EoN (property C17; the digraph H(delay, duration)   *)
(* is shared with C11).                                                   *)
(*                                                                         *)
(* A scenario is chosen in Init and frozen afterwards, so one TLC run      *)
(* quantifies over every scenario of a family:                             *)
(*   "DG"     a digraph H on Node = 1..N given as an adjacency vector      *)
(*   "BOND"   an undirected contact network g, a keep probability p and    *)
(*            one outcome `kept` of bond percolation (a subgraph of g)     *)
(*   "RULE"   g and a transmission table t on the ordered neighbour pairs  *)
(*   "TYPED"  g, node types xi / zeta and a table tab on type pairs        *)
(*   "TIMING" g, a duration per node and a delay per ordered neighbour     *)
(*            pair (ticks; INF stands for float('Inf'))                    *)
(*   "DRULE" / "DTYPED" / "DTIMING"  the same three rule families on a     *)
(*            DIRECTED contact network g (arc u -> v present or not,       *)
(*            independently per ordered pair; the neighbours of u are its  *)
(*            successors): only an arc of g can become an arc of H         *)
(* HOf is the percolated digraph the documentation promises: it has g's    *)
(* node set and u -> v exactly when the rule says u transmits to v.        *)
(*                                                                         *)
(* For the digraph H:  OutOf / IntoOf are bounded transitive closures      *)
(* (N-1 rounds of successor / predecessor growth), strongly connected      *)
(* components are the classes of mutual reachability, Largest the ones of  *)
(* maximal size and                                                        *)
(*    Admissible(H) = { << |In(C)|, |Out(C)| >> : C \in Largest(H) }       *)
(* is the SET OF ADMISSIBLE ANSWERS (times N) of                           *)
(* estimate_SIR_prob_size_from_dir_perc: the documentation says "a"        *)
(* largest component, so every tie choice is admissible.  In(C) and Out(C) *)
(* contain C.                                                              *)
(*                                                                         *)
(* The behaviour part (variables R, done) is an INDEPENDENT formulation of *)
(* reachability: the relation Id \cup Edges is squared until it is closed  *)
(* under composition.  Invariant FixpointAgree compares the two.           *)
(* The ACTION_CONSTRAINT Emit prints scenario |-> admissible answers for   *)
(* the conformance harness (checks/c17.py).                                *)
(***************************************************************************)
EXTENDS Naturals, FiniteSets, Sequences, TLC

CONSTANTS N,      \* number of nodes
          Loops,  \* TRUE: the "DG" family contains digraphs with self-loops
          Vals,   \* tick values of durations / delays ("TIMING")
          INF,    \* the tick value that stands for float('Inf') (>= every value)
          Types,  \* xi / zeta types ("TYPED")
          Probs,  \* keep probabilities <<num, den>> ("BOND")
          Given   \* set of explicit scenarios <<kind, src>> of one kind (InitGiven)

ASSUME N \in Nat \ {0}
ASSUME \A x \in Vals : x \in Nat /\ x <= INF
ASSUME \A p \in Probs : p[1] \in Nat /\ p[2] \in Nat \ {0} /\ p[1] <= p[2]

Node == 1..N

VARIABLES kind,  \* scenario family (frozen)
          src,   \* scenario data (frozen)
          adj,   \* adjacency vector of the percolated digraph H = HOf(kind, src) (frozen)
          R,     \* relation being closed under composition
          done   \* R is closed

scen == <<kind, src, adj>>
vars == <<kind, src, adj, R, done>>

-----------------------------------------------------------------------------
(* graphs                                                                   *)
DPairs == {pr \in Node \X Node : Loops \/ pr[1] # pr[2]}
UPairs == {{u, v} : u, v \in Node} \ {{u} : u \in Node}
AdjOf(D)   == [u \in Node |-> {v \in Node : <<u, v>> \in D}]
GraphOf(E) == [u \in Node |-> {v \in Node : v # u /\ {u, v} \in E}]
DirEdges(A) == {pr \in Node \X Node : pr[2] \in A[pr[1]]}
Symmetric(A) == \A u \in Node : \A v \in A[u] : u \in A[v]
NEdges(A) == Cardinality({pr \in Node \X Node : pr[1] < pr[2] /\ pr[2] \in A[pr[1]]})

(* the percolated digraph the documentation promises                        *)
HOf(k, s) ==
  CASE k = "DG"     -> s
    [] k = "BOND"   -> s.kept
    [] k \in {"RULE", "DRULE"}     -> [u \in Node |-> {v \in s.g[u] : s.t[<<u, v>>]}]
    [] k \in {"TYPED", "DTYPED"}   -> [u \in Node |-> {v \in s.g[u] : s.tab[<<s.xi[u], s.zeta[v]>>]}]
    [] k \in {"TIMING", "DTIMING"} -> [u \in Node |-> {v \in s.g[u] : s.delay[<<u, v>>] <= s.dur[u]}]

-----------------------------------------------------------------------------
(* reachability, components, admissible answers                             *)
Succ(A, S) == UNION {A[u] : u \in S}
Pred(A, S) == {u \in Node : A[u] \cap S # {}}

RECURSIVE GrowOut(_, _, _), GrowIn(_, _, _)
GrowOut(A, S, k) == IF k = 0 THEN S ELSE GrowOut(A, S \cup Succ(A, S), k - 1)
GrowIn(A, S, k)  == IF k = 0 THEN S ELSE GrowIn(A, S \cup Pred(A, S), k - 1)

OutOf(A, S)  == GrowOut(A, S, N - 1)   \* S and everything reachable from S
IntoOf(A, S) == GrowIn(A, S, N - 1)    \* S and everything that can reach S

Reach(A) == {pr \in Node \X Node : pr[2] \in OutOf(A, {pr[1]})}

SCCof(A, u) == OutOf(A, {u}) \cap IntoOf(A, {u})
SCCs(A)     == {SCCof(A, u) : u \in Node}
Largest(A)  == {C \in SCCs(A) : \A D \in SCCs(A) : Cardinality(D) <= Cardinality(C)}
Admissible(A) == {<<Cardinality(IntoOf(A, C)), Cardinality(OutOf(A, C))>> : C \in Largest(A)}

RECURSIVE Pow(_, _)
Pow(b, e) == IF e = 0 THEN 1 ELSE b * Pow(b, e - 1)

\* probability <<numerator, denominator>> of the outcome `kept` of bond percolation
BondWeight(g, kept, p) ==
    LET m == NEdges(g)
        j == NEdges(kept)
    IN <<Pow(p[1], j) * Pow(p[2] - p[1], m - j), Pow(p[2], m)>>
Weight(k, s) == IF k = "BOND" THEN BondWeight(s.g, s.kept, s.p) ELSE <<>>

-----------------------------------------------------------------------------
(* behaviour: independent fixpoint formulation of reachability              *)
Start(k, s) ==
    /\ kind = k /\ src = s /\ adj = HOf(k, s)
    /\ R = {<<u, u>> : u \in Node} \cup DirEdges(adj)
    /\ done = FALSE

InitDigraph == \E D \in SUBSET DPairs : Start("DG", AdjOf(D))
InitBond    == \E E \in SUBSET UPairs : \E F \in SUBSET E : \E p \in Probs :
                   Start("BOND", [g |-> GraphOf(E), kept |-> GraphOf(F), p |-> p])
InitRule    == \E E \in SUBSET UPairs :
                   \E T \in [DirEdges(GraphOf(E)) -> BOOLEAN] :
                       Start("RULE", [g |-> GraphOf(E), t |-> T])
InitTyped   == \E E \in SUBSET UPairs : \E x, z \in [Node -> Types] :
                   \E T \in [Types \X Types -> BOOLEAN] :
                       Start("TYPED", [g |-> GraphOf(E), xi |-> x, zeta |-> z, tab |-> T])
InitTiming  == \E E \in SUBSET UPairs : \E d \in [Node -> Vals] :
                   \E dl \in [DirEdges(GraphOf(E)) -> Vals] :
                       Start("TIMING", [g |-> GraphOf(E), dur |-> d, delay |-> dl])
\* directed contact networks: every loop-free arc set
DArcs == {pr \in Node \X Node : pr[1] # pr[2]}
InitDRule   == \E D \in SUBSET DArcs :
                   \E T \in [D -> BOOLEAN] : Start("DRULE", [g |-> AdjOf(D), t |-> T])
InitDTyped  == \E D \in SUBSET DArcs : \E x, z \in [Node -> Types] :
                   \E T \in [Types \X Types -> BOOLEAN] :
                       Start("DTYPED", [g |-> AdjOf(D), xi |-> x, zeta |-> z, tab |-> T])
InitDTiming == \E D \in SUBSET DArcs : \E d \in [Node -> Vals] :
                   \E dl \in [D -> Vals] :
                       Start("DTIMING", [g |-> AdjOf(D), dur |-> d, delay |-> dl])
InitGiven   == \E sc \in Given : Start(sc[1], sc[2])

Compose == {<<pq[1][1], pq[2][2]>> : pq \in {x \in R \X R : x[1][2] = x[2][1]}}

Square == /\ ~done /\ ~(Compose \subseteq R)
          /\ R' = R \cup Compose
          /\ UNCHANGED <<scen, done>>

Finish == /\ ~done /\ Compose \subseteq R
          /\ done' = TRUE
          /\ UNCHANGED <<scen, R>>

Next == Square \/ Finish

-----------------------------------------------------------------------------
(* properties checked on every scenario                                     *)
TypeOK == /\ adj \in [Node -> SUBSET Node]
          /\ R \subseteq Node \X Node
          /\ done \in BOOLEAN
          /\ adj = HOf(kind, src)

Frozen == [][UNCHANGED scen]_vars

\* out- and in-components are dual, contain their seed, and the classes of
\* mutual reachability partition the node set
\* (the scenario is frozen, so the properties of H are evaluated once per
\* scenario: in its final state)
Duality == done => \A u, v \in Node : (v \in OutOf(adj, {u})) <=> (u \in IntoOf(adj, {v}))
Partition == done =>
             /\ UNION SCCs(adj) = Node
             /\ \A C, D \in SCCs(adj) : C = D \/ C \cap D = {}
             /\ \A C \in SCCs(adj) : \A u, v \in C : <<u, v>> \in Reach(adj)

\* the statement's side conditions: C inside both components (in fact it is
\* exactly their intersection), both counts in 1..N
ComponentsOK == done =>
    /\ Largest(adj) # {}
    /\ \A C \in Largest(adj) :
          /\ C \subseteq IntoOf(adj, C) \cap OutOf(adj, C)
          /\ IntoOf(adj, C) \cap OutOf(adj, C) = C
          /\ IntoOf(adj, C) = IntoOf(adj, {CHOOSE c \in C : TRUE})
          /\ OutOf(adj, C) = OutOf(adj, {CHOOSE c \in C : TRUE})
    /\ \A a \in Admissible(adj) : a[1] \in 1..N /\ a[2] \in 1..N

\* an undirected (symmetric) graph: one answer, both outputs equal, and the
\* value is the size of a largest connected component
UndirectedOK ==
    (done /\ Symmetric(adj)) =>
        /\ Cardinality(Admissible(adj)) = 1
        /\ \A a \in Admissible(adj) :
              /\ a[1] = a[2]
              /\ \E u \in Node : Cardinality(OutOf(adj, {u})) = a[1]
              /\ \A u \in Node : Cardinality(OutOf(adj, {u})) <= a[1]
BondOK == kind = "BOND" => Symmetric(adj) /\ \A u \in Node : adj[u] \subseteq src.g[u]

\* the outcome probabilities of bond percolation on g sum to one
RECURSIVE SumW(_, _, _)
SumW(S, g, p) == IF S = {} THEN 0
                 ELSE LET F == CHOOSE x \in S : TRUE
                      IN BondWeight(g, GraphOf(F), p)[1] + SumW(S \ {F}, g, p)
EdgeSet(A) == {{pr[1], pr[2]} : pr \in DirEdges(A)}
BondNormalised ==
    (kind = "BOND" /\ done) =>
        SumW(SUBSET EdgeSet(src.g), src.g, src.p) = Pow(src.p[2], NEdges(src.g))

\* the percolated digraph has g's nodes and only (directed versions of) g's edges
RuleOK == kind \in {"RULE", "TYPED", "TIMING", "DRULE", "DTYPED", "DTIMING"} =>
              \A u \in Node : adj[u] \subseteq src.g[u]
\* the undirected families have a symmetric contact network; the directed ones need not
ContactOK == /\ kind \in {"RULE", "TYPED", "TIMING", "BOND"} => Symmetric(src.g)
             /\ kind \in {"RULE", "DRULE"} => DOMAIN src.t = DirEdges(src.g)
             /\ kind \in {"TIMING", "DTIMING"} => DOMAIN src.delay = DirEdges(src.g)

\* agreement with the independent fixpoint formulation
ClassR(u) == {v \in Node : <<u, v>> \in R /\ <<v, u>> \in R}
ClassesR  == {ClassR(u) : u \in Node}
BigR      == {C \in ClassesR : \A D \in ClassesR : Cardinality(D) <= Cardinality(C)}
AdmR == {<<Cardinality({x \in Node : \E c \in C : <<x, c>> \in R}),
           Cardinality({y \in Node : \E c \in C : <<c, y>> \in R})>> : C \in BigR}
FixpointAgree == done => /\ R = Reach(adj)
                         /\ ClassesR = SCCs(adj)
                         /\ AdmR = Admissible(adj)

\* declarative definition by explicit walks (small N only: N^N candidate walks)
Walk(A, u, v) == \E k \in 0..(N - 1) : \E p \in [0..k -> Node] :
                    /\ p[0] = u /\ p[k] = v
                    /\ \A i \in 0..(k - 1) : p[i + 1] \in A[p[i]]
WalkAgree == done => \A u, v \in Node : Walk(adj, u, v) <=> (<<u, v>> \in Reach(adj))

-----------------------------------------------------------------------------
\* emission for the harness (ACTION_CONSTRAINT): one record per scenario
Emit == (done' /\ ~done) =>
          PrintT(<<"C17", kind, src, adj, Admissible(adj), Weight(kind, src),
                   Cardinality(Largest(adj))>>)
=============================================================================

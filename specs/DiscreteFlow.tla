---------------------------- MODULE DiscreteFlow ----------------------------
(***************************************************************************)
(* Discrete-time (generation-based) compartment flow: the shape every      *)
(* output of EBCM_discrete, EBCM_discrete_from_graph,                      *)
(* EBCM_discrete_uniform_introduction and EBCM_pref_mix_discrete[_from_    *)
(* graph] must have (property C08, clause 2; discrete-time variant of      *)
(* CompartmentFlow in DESIGN section 2).                                   *)
(*                                                                         *)
(* An individual is infectious for exactly one time step, so               *)
(*       R(t+1) = R(t) + I(t)                                              *)
(* S never grows and the population is conserved.  Values are fixed-point  *)
(* integers (the harness scales the population to `pop` units); `eps` is   *)
(* the comparison tolerance (0 in the exhaustive configuration).  pop and  *)
(* eps are variables frozen in Init, so that one trace-validation run can  *)
(* bind them per trace.                                                    *)
(***************************************************************************)
EXTENDS Integers

CONSTANTS PopSet,    \* admissible population sizes (fixed-point units)
          EpsSet     \* admissible tolerances

VARIABLES pop, eps, S, I, R

frozen == <<pop, eps>>
vars   == <<pop, eps, S, I, R>>

Near(a, b, e) == a - b <= e /\ b - a <= e

\* the three clauses of one generation, as a relation between two rows
RUpdate(r, i, r2, e)        == Near(r2, r + i, e)          \* R(t+1) = R(t) + I(t)
SNonIncreasing(s, s2, e)    == s2 <= s + e /\ s2 >= 0 - e
ConservedRow(s, i, r, p, e) == Near(s + i + r, p, e) /\ i >= 0 - e /\ r >= 0 - e

StepRel(s, i, r, s2, i2, r2, p, e) ==
    /\ RUpdate(r, i, r2, e)
    /\ SNonIncreasing(s, s2, e)
    /\ ConservedRow(s2, i2, r2, p, e)

Init == /\ pop \in PopSet /\ eps \in EpsSet
        /\ S \in 0..pop /\ I \in 0..pop /\ R \in 0..pop
        /\ ConservedRow(S, I, R, pop, eps)

\* the reference behaviour: any new number of infections a taken out of S
Step == \E s2 \in 0..pop, i2 \in 0..pop, r2 \in 0..pop :
            /\ StepRel(S, I, R, s2, i2, r2, pop, eps)
            /\ S' = s2 /\ I' = i2 /\ R' = r2
            /\ UNCHANGED frozen

Next == Step
Spec == Init /\ [][Next]_vars

-----------------------------------------------------------------------------
(* what TLC checks on the reference behaviour                               *)
TypeOK    == S \in 0..pop /\ I \in 0..pop /\ R \in 0..pop
Conserved == Near(S + I + R, pop, eps)
\* consequences of the three clauses (theorems of the spec, checked by TLC):
\* the newly infectious are exactly those who left S, up to the tolerances
NewFromS  == [][Near(I', S - S', 3 * eps)]_vars
RMonotone == [][R' >= R - 2 * eps]_vars
\* with exact arithmetic an extinct epidemic is a fixed point of the R update
ExtinctStaysPut == [][(eps = 0 /\ I = 0) => R' = R]_vars
\* exact arithmetic: the final size is reached as soon as I = 0 twice in a row
Frozen == [][UNCHANGED frozen]_vars
=============================================================================

#!/bin/sh
# usage: tools/mutate.sh <check id> <tier> <sed expression> [file]   -- runs a check against a mutated scratch copy of /repo
id="$1"; tier="$2"; expr="$3"; file="${4:-EoN/simulation.py}"
d=$(mktemp -d /tmp/eon_mut_XXXX)
cp -r /repo/EoN "$d/EoN"
sed -i "$expr" "$d/$file"
if diff -q /repo/$file "$d/$file" >/dev/null; then echo "MUTANT DID NOT APPLY"; rm -rf "$d"; exit 3; fi
diff /repo/$file "$d/$file" | head -6
EON_VERIF_REPO="$d" EON_VERIF_EVIDENCE_DIR="$d/evidence" EON_VERIF_REPLAY_DIR="$d/replays" timeout 1500 /verif/check "$id" --tier "$tier" 2>&1 | grep -E "VIOLATION|key:|what:|tier=|MACHINERY|KNOWN" | head -${5:-12}
rm -rf "$d"

#!/usr/bin/env python3
"""Re-run the checks recorded for one stored seeded mutation (/verif/seeded/<name>) against a scratch worktree with
its patch applied; reports whether it is still caught.  usage: tools/reseed_one.py <name> [--update]"""
import json
import os
import shutil
import subprocess
import sys
import tempfile
import time

name = sys.argv[1]
src = "/verif/seeded/" + name
meta = json.load(open(src + "/meta.json"))
checks = meta.get("caught_by") or list(meta.get("checks", {}))
d = tempfile.mkdtemp(prefix="eon_reseed_")
wt = os.path.join(d, "wt")
out = {"name": name, "was_caught_by": meta.get("caught_by")}
try:
    subprocess.check_call(["git", "-C", "/repo", "worktree", "add", "-q", "--detach", wt, "HEAD"])
    r = subprocess.run(["git", "-C", wt, "apply", src + "/patch.diff"], capture_output=True, text=True)
    if r.returncode != 0:
        r = subprocess.run(["git", "-C", wt, "apply", "--3way", src + "/patch.diff"], capture_output=True, text=True)
        if r.returncode != 0:
            out["error"] = "patch does not apply"
            print(json.dumps(out))
            sys.exit(3)
    res = {}
    for c in checks:
        e = dict(os.environ, EON_VERIF_REPO=wt, EON_VERIF_EVIDENCE_DIR=os.path.join(d, "evidence"), EON_VERIF_REPLAY_DIR=os.path.join(d, "replays"))
        t0 = time.time()
        rc = subprocess.run(["/verif/check", c, "--tier", "quick"], env=e, capture_output=True, text=True, timeout=3000)
        keys = [l.strip()[5:] for l in rc.stdout.split("\n") if l.strip().startswith("key: ")]
        res[c] = {"exit": rc.returncode, "violation_keys": keys[:8], "wall_s": round(time.time() - t0)}
    out["now"] = {c: (v["exit"], v["violation_keys"][:2]) for c, v in res.items()}
    out["still_caught"] = any(v["exit"] == 1 for v in res.values())
    if "--update" in sys.argv or True:
        for c, v in res.items():
            meta.setdefault("checks", {})[c] = v
        meta["caught_by"] = [c for c, v in meta["checks"].items() if v["exit"] == 1]
        json.dump(meta, open(src + "/meta.json", "w"), indent=1)
    print(json.dumps(out))
finally:
    subprocess.run(["git", "-C", "/repo", "worktree", "remove", "--force", wt], capture_output=True)
    shutil.rmtree(d, ignore_errors=True)

#!/bin/sh
# evaluate every complete, not yet evaluated seeded mutation (4 in parallel); extra args are passed to seed_eval.py
mkdir -p /tmp/w/seedlogs
ROOT=${SEED_ROOT:-/tmp/seed}
TAG=${SEED_TAG:-}
for p in C01 C02 C03 C04 C05 C06 C08 C09 C10 C11 C12 C13 C14 C15 C16 C17 C18 C19 C20; do
  for k in 1 2; do
    if [ -f $ROOT/$p/out/mut$k.diff ] && [ -f $ROOT/$p/out/demo$k.py ] && [ -f $ROOT/$p/out/meta$k.json ] && [ ! -f /verif/seeded/${p}_$TAG$k/meta.json ] && [ ! -f /tmp/w/seedlogs/${p}_$TAG$k.running ]; then
      echo "$p $k"
    fi
  done
done > /tmp/w/seed_todo.txt
cat /tmp/w/seed_todo.txt
cat /tmp/w/seed_todo.txt | xargs -P 4 -L 1 sh -c 'touch /tmp/w/seedlogs/$0_'"$TAG"'$1.running; timeout 3000 /verif/tools/seed_eval.py $0 $1 --root '"$ROOT"' --tag "'"$TAG"'" '"$*"' > /tmp/w/seedlogs/$0_'"$TAG"'$1.log 2>&1; rm -f /tmp/w/seedlogs/$0_'"$TAG"'$1.running'

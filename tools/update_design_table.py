#!/usr/bin/env python3
"""Replaces the region between <!-- SEEDED-TABLE-BEGIN --> and <!-- SEEDED-TABLE-END --> in DESIGN.md
with the output of tools/seed_table.py."""
import subprocess
p = "/verif/DESIGN.md"
s = open(p).read()
tab = subprocess.check_output(["/verif/tools/seed_table.py"]).decode()
a, b = "<!-- SEEDED-TABLE-BEGIN -->", "<!-- SEEDED-TABLE-END -->"
if a not in s:
    raise SystemExit("markers missing")
i, j = s.index(a) + len(a), s.index(b)
open(p, "w").write(s[:i] + "\n" + tab + "\n" + s[j:])
print("table updated:", tab.count("\n") - 2, "rows")

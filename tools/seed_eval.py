#!/usr/bin/env python3
"""Evaluate one seeded mutation: confirm the demo fails with it and passes without it, that the existing
tests still pass with it, then run the named checks against the mutated copy.
usage: tools/seed_eval.py <PROP> <k> [--checks C01,C04] [--tier quick] [--skip-tests]
Writes /verif/seeded/<PROP>_<k>/{patch.diff, demo.py, meta.json}."""
import json
import os
import shutil
import subprocess
import sys
import tempfile
import time

prop, k = sys.argv[1], sys.argv[2]
args = sys.argv[3:]
checks = [prop]
tier = "quick"
skip_tests = "--skip-tests" in args
if "--checks" in args:
    checks = args[args.index("--checks") + 1].split(",")
if "--tier" in args:
    tier = args[args.index("--tier") + 1]
root = args[args.index("--root") + 1] if "--root" in args else "/tmp/seed"
tag = args[args.index("--tag") + 1] if "--tag" in args else ""
src = "%s/%s/out" % (root, prop)
diff = os.path.join(src, "mut%s.diff" % k)
demo = os.path.join(src, "demo%s.py" % k)
meta = json.load(open(os.path.join(src, "meta%s.json" % k)))
d = tempfile.mkdtemp(prefix="eon_seedeval_")
out = {"property": prop, "mutation": int(k), "summary": meta.get("summary"), "needs_to_manifest": meta.get("needs_to_manifest"),
       "seeder_tests_run": meta.get("tests_run")}
try:
    subprocess.check_call(["git", "-C", "/repo", "worktree", "add", "-q", "--detach", os.path.join(d, "wt"), "HEAD"])
    wt = os.path.join(d, "wt")
    r = subprocess.run(["git", "-C", wt, "apply", diff], capture_output=True, text=True)
    out["patch_applies_to_current_head"] = r.returncode == 0
    if r.returncode != 0:
        r = subprocess.run(["git", "-C", wt, "apply", "--3way", diff], capture_output=True, text=True)
        out["patch_applies_3way"] = r.returncode == 0
        if r.returncode != 0:
            out["error"] = "patch does not apply: " + r.stderr[-300:]
            print(json.dumps(out, indent=1))
            sys.exit(3)
    env = dict(os.environ, PYTHONPATH=wt, PYTHONHASHSEED="0")
    r1 = subprocess.run(["/venv/bin/python", "-W", "ignore", demo], cwd=wt, env=env, capture_output=True, text=True, timeout=600)
    env0 = dict(os.environ, PYTHONPATH="/repo", PYTHONHASHSEED="0")
    r0 = subprocess.run(["/venv/bin/python", "-W", "ignore", demo], cwd="/repo", env=env0, capture_output=True, text=True, timeout=600)
    out["demo_exit_with_mutation"] = r1.returncode
    out["demo_exit_without_mutation"] = r0.returncode
    out["demo_tail_with_mutation"] = (r1.stdout + r1.stderr)[-300:]
    if not skip_tests:
        t0 = time.time()
        rt = subprocess.run(["/venv/bin/python", "-m", "pytest", "-q", "-p", "no:cacheprovider", "--timeout=900",
                             "--continue-on-collection-errors", "EoN/tests", "-k", "not million and not Animation and not Snapshot"],
                            cwd=wt, env=env, capture_output=True, text=True, timeout=3500)
        tail = rt.stdout.strip().split("\n")[-1]
        out["tests_summary_with_mutation"] = tail
        out["tests_wall_s"] = round(time.time() - t0)
        failed = sorted(l.split(" ")[1] for l in rt.stdout.split("\n") if l.startswith("FAILED "))
        out["tests_failed_with_mutation"] = failed
    res = {}
    for c in checks:
        e = dict(os.environ, EON_VERIF_REPO=wt, EON_VERIF_EVIDENCE_DIR=os.path.join(d, "evidence"), EON_VERIF_REPLAY_DIR=os.path.join(d, "replays"))
        t0 = time.time()
        rc = subprocess.run(["/verif/check", c, "--tier", tier], env=e, capture_output=True, text=True, timeout=3000)
        keys = [l.strip()[5:] for l in rc.stdout.split("\n") if l.strip().startswith("key: ")]
        res[c] = {"exit": rc.returncode, "violation_keys": keys[:8], "wall_s": round(time.time() - t0)}
        if rc.returncode == 2:
            res[c]["tail"] = rc.stdout[-600:]
    out["checks"] = res
    out["caught_by"] = [c for c, v in res.items() if v["exit"] == 1]
    dst = "/verif/seeded/%s_%s%s" % (prop, tag, k)
    os.makedirs(dst, exist_ok=True)
    shutil.copy(diff, os.path.join(dst, "patch.diff"))
    shutil.copy(demo, os.path.join(dst, "demo.py"))
    json.dump(out, open(os.path.join(dst, "meta.json"), "w"), indent=1)
    print(json.dumps(out, indent=1))
finally:
    subprocess.run(["git", "-C", "/repo", "worktree", "remove", "--force", os.path.join(d, "wt")], capture_output=True)
    shutil.rmtree(d, ignore_errors=True)
    # restore evidence of the unchanged tree is the caller's job (evidence files are rewritten by the mutated runs)

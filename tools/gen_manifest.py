#!/usr/bin/env python3
"""Regenerates MANIFEST.json from the table below (single source of truth)."""
import json, os
HERE = os.path.dirname(os.path.dirname(os.path.abspath(__file__)))
props = [json.loads(l) for l in open(os.path.join(HERE, "properties.jsonl"))]
BASE = "cd /repo && /venv/bin/python -m pytest -ra -q -p no:cacheprovider --timeout=900 --continue-on-collection-errors"

CHECKS = {
 "C01": dict(level="model_checking", ref="DESIGN.md §5 C01",
   text="TLC checks the network-SIR reference chain (NetEpi.tla) on every weighted graph/rate pair/status vector in the bound and emits its rate-labelled state graph; the real Gillespie_SIR is driven along every path of that graph with a scripted random source and its next-event set, exact event probabilities, clock rate, stopping states and reported rows are compared with the chain at every history (both return modes, weighted and unweighted code paths).",
   note="Trusts TLC, the scripted random source's model of random/numpy.random (unmodelled use = exit 2) and float arithmetic to 1e-9 relative; exhaustive only within the stated node/weight bounds.",
   technique="TLA+ spec (NetEpi) model-checked with TLC; spec-to-code replay of the TLC state graph with exact kernel comparison"),
 "C02": dict(level="model_checking", ref="DESIGN.md §5 C02",
   text="Same as C01 for the SIS chain: NetEpi.tla with SIS=TRUE model-checked by TLC, its emitted state graph walked by the real Gillespie_SIS to an event-count horizon (all reinfection orders), exact kernel/clock/row comparison at every history.",
   note="Horizon-bounded (<=5 events quick, <=6 thorough); trusts TLC and the scripted source.",
   technique="TLA+ spec (NetEpi, SIS) model-checked with TLC; spec-to-code replay with exact kernel comparison"),
 "C04": dict(level="model_checking", ref="DESIGN.md §5 C04",
   text="Every simulator (13 entry points, both return modes) is run on scenario families (isolated nodes, 1-2 node graphs, zero rates, negative tmin, runs cut by tmax, initially recovered nodes, weights) and each returned trajectory is validated by TLC as a behaviour of the count-level model TraceCounts.tla: first row at tmin summing to N, one legal move per row (continuous) or one generation per row (discrete), ordered times before tmax, SIR monotonicity, extinction at the end of unbounded runs; thousands of traces per TLC start, rejected traces re-run in diagnostic mode to name row and clause.",
   note="Trace validation: quantification over inputs comes from the seeded scenario generator, not from TLC; tmax<=tmin excluded as contradictory.",
   technique="TLA+ count-level spec (TraceCounts) + batched TLC trace validation of arrays recorded from the real simulators"),
 "C05": dict(level="model_checking", ref="DESIGN.md §5 C05",
   text="InitRequest.tla defines what a run starts from for explicit sets / rho (Python round-half-even) / default / both; CheckInit.tla is model-checked exhaustively on every request with N<=4; every simulator is called with every way of passing the request (list, tuple, set, array, range, single node incl. node 0, positional, IC dict) and row 0, statuses at tmin, first history entries, EoNError on conflicting arguments and 'initially recovered never infected' are validated by TLC with TraceInit.tla.",
   note="Trace validation over a generated request family; wrapper equivalence basic_discrete_SIR vs discrete_SIR is a same-seed comparison of two runs.",
   technique="TLA+ request semantics (InitRequest/CheckInit) model-checked; batched TLC trace validation (TraceInit) of recorded calls"),
 "C11": dict(level="model_checking", ref="DESIGN.md §5 C11",
   text="EventSIR.tla specifies first-passage percolation (Ref) and the priority-queue algorithm of fast_nonMarkov_SIR (Impl, all tie orders); TLC checks Impl = Ref for every scenario (exhaustive 2-node delay/duration tables incl. 0 and Inf, seeded tie-heavy scenarios on 3-6 nodes, finite tmax, initial recovereds) and emits the reference outcome, against which the real fast_nonMarkov_SIR (both rule interfaces, both return modes), fast_SIR (weighted path via scripted expovariate) and the percolation builders are replayed.",
   note="Exhaustive only on the 2-node family; larger scenarios are seeded samples. Infector checked as membership in the set of shortest-path predecessors.",
   technique="TLA+ spec (EventSIR: reference vs implementation-shaped queue) model-checked with TLC; TLC-emitted reference outcomes replayed into the code"),
 "C13": dict(level="model_checking", ref="DESIGN.md §5 C13",
   text="EventSIS.tla runs the plain reference semantics and the code-shaped pruned/chained attempt queue in lock step; TLC checks equal histories for every scenario with pairwise distinct event times (per-infection duration and delay-list tables, reinfections, finite tmax) and emits the reference log, against which the real fast_nonMarkov_SIS (separate and joint interfaces, arrays and full data, transmissions) is replayed.",
   note="Seeded scenarios on 2-5 nodes; tied scenarios are skipped as the property's quantifier demands distinct times; 'coincides in law with fast_SIS' is covered by C02's layers only.",
   technique="TLA+ spec (EventSIS: reference vs implementation-shaped) model-checked with TLC; TLC-emitted reference logs replayed into the code"),
 "C19": dict(level="model_checking", ref="DESIGN.md §5 C19",
   text="ApiFrame.tla states the frame condition (Call: env' = env; the call returns; deterministic entry points are functions of env) and is model-checked on small constants; every public entry point (90, table built with inspect) is called twice with the same argument objects and the fingerprint trace <env0,result1,env1,result2,env2> is accepted or rejected by TLC with TraceApiFrame.tla; control traces with one corrupted clause each must be rejected in every batch.",
   note="Trace validation of a frame condition: TLC explores nothing of its own; coverage is by scenario families, not exhaustive over argument values; entry points whose first call raises are noted, not judged.",
   technique="TLA+ frame specification (ApiFrame) + batched TLC trace validation (TraceApiFrame) of recorded double calls"),
 "C16": dict(level="model_checking", ref="DESIGN.md §5 C16",
   text="TLC checks, over every history of insert / update(>=0) / remove / update_total_weight / random_removal in the bound (weights 0..3, increments 0..2; <=6 ops on 3 items and <=4 on 4 quick, <=7 on 3 and <=6 on 4 thorough; unweighted class on 4-5 items), that ListDictImpl.tla - a statement-by-statement transcription of _ListDict_, including the drifting max_weight_count and the never-called _update_max_weight - keeps list/position map/weight keys consistent, total = sum of weights, max_weight >= every weight and > 0 when a weight is, its folded rejection-sampling law equal to w[x]/sum w with zero weights unreachable, and refines the reference WeightedBag.tla. The TLC-emitted reference graph is replayed against the real class: every history of the alphabet up to depth 4 (quick) / 5 (thorough) and one shortest history per distinct ListDictImpl state in the deeper bound; after each history len, membership, exact total_weight() and the exact distributions of choose_random() and random_removal() (scripted random source, rejection loop folded, 1e-12) are compared with the emitted state.",
   note="Bounded (items <=5, small integer/dyadic weights); exhaustive in the stated bounds. Agreement of the real object's private state with the transcription is a NOTE, never a verdict. Trusts TLC and the scripted source's model of random.choice/random.random. The weighted simulator paths themselves are exercised by C01/C02/C03/C15.",
   technique="TLA+ reference (WeightedBag) and implementation-shaped spec (ListDictImpl) model-checked with TLC (invariants + refinement); TLC-emitted op-graph and state-covering histories replayed against the real _ListDict_ with exact selection-distribution comparison"),
 "C20": dict(level="model_checking", ref="DESIGN.md §5 C20",
   text="TLC checks on every pair of ordered report/observation grids over 5 ticks (lengths <=4 quick, <=5 thorough; ties and repeated times), for one, two and three series, that the PlusCal model of subsample's two-pointer scan and of get_time_shift's loop equal their declarative definitions (last observation at or before the report time, final value held; first time the series reaches the threshold), with loop invariants and a termination variant. On every weighted graph on <=4 (thorough <=5) nodes and every ordered degree sequence in the bound plus configuration-model sequences up to degree 8 it checks psi(1)=1, psi'(1)=<k>, psi''(1)=<k^2-k>, coeff(D psi)[k-1]=k*coeff(psi)[k], node-wise = coefficient-wise evaluation, Pnk row sums and symmetry, and the R0 identities in exact rational arithmetic. TLC prints input -> expected output from the definitions; every record is replayed into the real subsample (1-3 series), get_time_shift, get_Pk, get_Pnk, get_PGF/Prime/DPrime at x in {1/4,1/2,3/4,1} and estimate_R0: step values exactly, rationals within 1e-12.",
   note="Exhaustive only within the stated bounds; series values are all 0/1 vectors plus index-revealing shapes. Trusts TLC and its PlusCal translation. The Pnk row of degree 0, R0 on edgeless graphs, get_time_shift with an unreached threshold and subsample inputs violating report[0] >= times[0] are unconstrained by the property and not judged.",
   technique="TLA+ specs (Subsample: PlusCal algorithm vs declarative definition; DegreeDist: exact-rational generating-function identities) model-checked with TLC; TLC-emitted input->output records replayed into the real functions"),
 "C06": dict(level="model_checking", ref="DESIGN.md §5 C06",
   text="InitCond.tla defines every initial quantity the ODE wrappers derive from a graph and an initial condition (S0,I0,R0, degree-class, ordered-pair, degree-pair, effective-degree, kappa, node and pair indicators, theta0) declaratively as configuration counts - for explicit infected/recovered sets and, as exact rationals by brute force over all infected sets, for rho=a/b. TLC checks their mutual consistency and the docstrings' closed forms on every labelled graph with 2..4 nodes (isolated nodes included) x every initial condition of the family and emits scenario -> expected values. All 50 SIS_/SIR_/EBCM entry points of analytic.py (28 graph wrappers; 22 graph-free solvers fed with the emitted values) are called with return_full_data on and off, and index 0 of every returned series is compared in the entry point's own documented order (table extracted from the docstrings and re-verified against them at run time): exact for explicit sets, 1e-9 for rho. Every returned (t,S,I[,R]) over rates incl. 0, two time grids and 4-6 node graphs is validated by TLC as a trace of CompartmentFlow.tla (conservation, bounds, SIR monotonicity, tau=0/gamma=0 guards, one-step recovery of the discrete models, linspace grid, row count) with a total monitor that names the failing row and clause.",
   note="Part (b) is trace validation of a monitor: the quantification over inputs comes from the scenario generator, not from TLC. Node labels are 0..n-1 in natural order (label dependence is C14); auxiliary series under rho and docstring arity mismatches explained by the sibling's docstring are NOTEs. rho=None defaults and single-node initial_infecteds are outside the family. Tolerances: 1e-12 explicit sets, 1e-9 rho, traces eps = 1e-6*N + 2e-6.",
   technique="TLA+ specs (InitCond; CompartmentFlow + TraceCompartmentFlow) model-checked with TLC; TLC-emitted expected initial values replayed into every ODE entry point; batched TLC trace validation of the returned trajectories"),
 "C03": dict(level="model_checking", ref="DESIGN.md §5 C03",
   text="SimpleContagion.tla is the reference chain of Gillespie_simple_contagion for a user model (spontaneous and neighbour-induced transitions with rates, node/edge weight tables, directed or undirected contact graph); TLC checks it on every scenario x status vector (exactly one node moves along a model edge, inducer keeps its status) and emits the rate-labelled transition system; the real simulator's complete decision tree to an event horizon is enumerated under the scripted random source for SIS, SIR, SIRS, SEIR, SIRV, competing/cooperating diseases, same-status inducers, curing neighbours, spontaneous-only and generated 3-status models, with weight labels (incl. 0), rate functions (incl. asymmetric) and tuple statuses, and compared at every history: enabled events, exact probabilities (two-stage choice and rejection folded), clock rate, stop states, rows, both return modes.",
   note="3-node contact graphs, event horizon 3 (quick) / 4 (thorough); trusts TLC and the scripted source (unmodelled draw = exit 2); float comparison 1e-9 relative.",
   technique="TLA+ spec (SimpleContagion) model-checked with TLC; spec-to-code replay of the TLC state graph with exact kernel comparison"),
 "C15": dict(level="model_checking", ref="DESIGN.md §5 C15",
   text="ComplexContagion.tla specifies the chain of Gillespie_complex_contagion for a table-driven user model (threshold contagion, SIR as complex contagion, cyclic 3-status, distance-2 influence, neighbour-dependent chooser) together with the implementation-shaped bag of rates that is re-rated only for the changed node and its influence set; TLC checks rates[v] = Rate(v, st) in every reachable state, stop iff all rates are zero, and must find a stale rate for a deliberately inadequate influence set (non-vacuity control); the emitted rate-labelled graph is walked by the real simulator (user callbacks generated from the same table) with exact comparison of next-node probabilities, clock rate, chooser result, stopping and rows at every history.",
   note="Graphs on 3-4 nodes, horizon 4-6 events; trusts TLC and the scripted source.",
   technique="TLA+ spec (ComplexContagion, reference + implementation-shaped bag) model-checked with TLC; spec-to-code replay with exact kernel comparison"),
 "C12": dict(level="model_checking", ref="DESIGN.md §5 C12",
   text="DiscreteRule.tla: TLC checks that the generation loop of discrete_SIR under a table-driven deterministic transmission rule (and optional recovery test) is a BFS in the directed graph of successful contacts with initially recovered nodes removed, one-step infectiousness, conservation and monotonicity, on exhaustive 3-node scenarios and seeded 3-8 node scenarios, and emits infection/recovery times that the real discrete_SIR must reproduce in both return modes. DiscreteEpi.tla: TLC emits the exact Reed-Frost / discrete SIS transition matrix (numerators over PB^m) for every graph on 3-4 nodes and checks it is a probability kernel; the complete decision trees of basic_discrete_SIR, percolation_based_discrete_SIR, basic_discrete_SIS (node-level kernel per generation in full-data mode, law of the numbers of new infections in array mode) and percolate_network (every kept-edge set) are enumerated under the scripted random source and compared exactly.",
   note="p=1/2; SIS runs to 1-2 generations from every state (every state is an initial state of the chain); trusts TLC and the scripted source.",
   technique="TLA+ specs (DiscreteRule: loop vs BFS; DiscreteEpi: exact transition matrix) model-checked with TLC; TLC-emitted outcomes / kernels replayed into the code with exact probability comparison"),
 "C17": dict(level="model_checking", ref="DESIGN.md §5 C17",
   text="TLC model-checks Percolation.tla (bounded-closure reachability, SCCs, largest components, admissible-answer sets {(|In(C)|,|Out(C)|) : C largest}, bond-percolation outcome weights, rule/timing-defined percolated digraph) with an independent relation-squaring fixpoint and a walk-based definition cross-checked as invariants, exhaustively over all digraphs on <=4 nodes and all graph x table / type / duration-delay / bond-outcome scenarios on <=3-4 nodes (thorough adds seeded 4-6 node scenarios); every emitted scenario is replayed into estimate_SIR_prob_size_from_dir_perc (membership in the admissible set, any tie choice), percolate_network / estimate_SIR_prob_size (complete decision trees, exact probabilities), nonMarkov_directed_percolate_network(_with_timing) and estimate_nonMarkov_SIR_prob_size(_with_timing) (recorded table-driven callbacks: each ordered neighbour pair queried once with (xi[u], zeta[v]); returned graph = spec's H incl. attributes), directed_percolate_network / estimate_directed_SIR_prob_size (scripted expovariate values).",
   note="Verdicts only from returned pairs and graphs, callback arguments and draws requested from the scripted source; draw order differing from the probe is a NOTE; all numbers dyadic or Inf.",
   technique="TLA+ spec (Percolation) model-checked with TLC; TLC-emitted scenario -> admissible answers replayed into the code"),
 "C09": dict(level="model_checking", ref="DESIGN.md §5 C09",
   text="TraceTrans.tla replays the node-level epidemic from the full-data output of a run: status changes are consumed in time order (TLC searches over the orders of simultaneous changes), every neighbour-induced change must be matched by exactly one transmission entry that is an enabled transmission of the node-level model in the current state (edge in edge direction, source has the inducing status at that instant - at the previous step in discrete time -, target has the old status), every sourced entry must be consumed, source-less entries only for initially infected nodes, time order, transmission_tree() = sourced entries, SIR forest. Validated traces: 12 simulators on graphs with isolated nodes/components, tie-heavy table-driven fast_nonMarkov_SIR scenarios (zero delays), Gillespie_simple_contagion with 10 multi-status models on directed and undirected graphs.",
   note="Trace validation: inputs from a seeded generator. What happens to a node AT tmin is collapsed by the simulators into its first history entry; the implied change w.r.t. the request is made explicit by the recorder before validation (documented in DESIGN).",
   technique="TLA+ trace specification (TraceTrans, node-level guards of NetEpi/SimpleContagion) + batched TLC trace validation with search over tie orders"),
 "C10": dict(level="model_checking", ref="DESIGN.md §5 C10",
   text="CheckInvestigation.tla model-checks the delta-accumulation algorithm of summary() and the count-of-change-times algorithm of node_status/get_statuses against the declarative Summary/StatusAt on every small set of time-ordered histories (and TLC must produce a counterexample without time order). TraceInvestigation.tla then validates, for every simulator x scenario x seed, the arrays of the run without full data together with the identically seeded full-data run: histories well-formed (start at tmin, time-ordered, legal moves), summary() = Summary(histories), t()/S()/I()/R() = summary, summary(nodelist=subset), arrays as a step function = histories at every time either names, node_status/get_statuses at event times, midpoints, tmin and beyond the end.",
   note="Trace validation over a seeded scenario family; discrete-time simulators under a deterministic rule (p=1); same-seed pairing assumes both return modes consume the same draws (checked exactly by C01/C02/C03/C15 for the Gillespie family).",
   technique="TLA+ design check (CheckInvestigation) model-checked with TLC; batched TLC trace validation (TraceInvestigation) of paired seeded runs"),
}
NOT_YET = "check not built yet in this round (planned in DESIGN.md §5); not claimed"
NA = {"C07": "pure numerical agreement between floating-point solutions of different ODE systems: no discrete state, history or finite oracle a TLA+ specification could enumerate (DESIGN.md §7)"}

checks = []
for pid in sorted(CHECKS):
    c = CHECKS[pid]
    checks.append({
        "property_id": pid,
        "quick_cmd": "./check %s --tier quick" % pid,
        "thorough_cmd": "./check %s --tier thorough" % pid,
        "evidence_file": "/verif/evidence/%s.json" % pid,
        "replay_cmd_template": "./check %s --replay {path}" % pid,
        "engine": "tlc+replay",
        "level_claimed": {"category": c["level"], "text": c["text"], "design_ref": c["ref"]},
        "level_note": c["note"],
        "technique": c["technique"],
    })
na = []
for p in props:
    if p["id"] in CHECKS:
        continue
    na.append({"property_id": p["id"], "reason": NA.get(p["id"], NOT_YET)})
man = {
 "version": 1,
 "setup_cmd": "./setup.sh",
 "hooks": {"guard": "EON_VERIF", "enable": "no source hooks: checks import EoN from /repo's working tree and substitute EoN.simulation.random / numpy.random and user callbacks from outside",
           "baseline_off_cmd": BASE, "source_commits": [], "add_only": True},
 "engines": [{"name": "tlc+replay", "path": "/verif/check", "serves_properties": sorted(CHECKS),
              "kind_free_text": "TLA+ specifications in /verif/specs checked by TLC; conformance harness in /verif/harness (scripted random source, TLC state-graph walker, batched trace validation)"}],
 "checks": checks,
 "not_applicable": na,
 "notes": "fix: commits in /repo and known findings are listed in /verif/known_findings.json; see DESIGN.md.",
}
json.dump(man, open(os.path.join(HERE, "MANIFEST.json"), "w"), indent=1)
print("wrote MANIFEST.json with", len(checks), "checks")

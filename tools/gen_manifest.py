#!/usr/bin/env python3
"""Regenerates MANIFEST.json from the table below (single source of truth)."""
import json, os
HERE = os.path.dirname(os.path.dirname(os.path.abspath(__file__)))
props = [json.loads(l) for l in open(os.path.join(HERE, "properties.jsonl"))]
BASE = "cd /repo && /venv/bin/python -m pytest -ra -q -p no:cacheprovider --timeout=900 --continue-on-collection-errors"

CHECKS = {
 "C01": dict(level="model_checking", ref="DESIGN.md §5 C01",
   text="TLC checks the network-SIR reference chain (NetEpi.tla) on every weighted graph/rate pair/status vector in the bound and emits its rate-labelled state graph; the real Gillespie_SIR is driven along every path of that graph with a scripted random source and its next-event set, exact event probabilities, clock rate, stopping states and reported rows are compared with the chain at every history (both return modes, weighted and unweighted code paths).",
   note="Trusts TLC, the scripted random source's model of random/numpy.random (unmodelled use = exit 2) and float arithmetic to 1e-9 relative; exhaustive only within the stated node/weight bounds.",
   technique="TLA+ spec (NetEpi) model-checked with TLC; spec-to-code replay of the TLC state graph with exact kernel comparison"),
 "C02": dict(level="model_checking", ref="DESIGN.md §5 C02",
   text="Same as C01 for the SIS chain: NetEpi.tla with SIS=TRUE model-checked by TLC, its emitted state graph walked by the real Gillespie_SIS to an event-count horizon (all reinfection orders), exact kernel/clock/row comparison at every history.",
   note="Horizon-bounded (<=5 events quick, <=6 thorough); trusts TLC and the scripted source.",
   technique="TLA+ spec (NetEpi, SIS) model-checked with TLC; spec-to-code replay with exact kernel comparison"),
}
NOT_YET = "check not built yet in this round (planned in DESIGN.md §5); not claimed"
NA = {"C07": "pure numerical agreement between floating-point solutions of different ODE systems: no discrete state, history or finite oracle a TLA+ specification could enumerate (DESIGN.md §7)"}

checks = []
for pid in sorted(CHECKS):
    c = CHECKS[pid]
    checks.append({
        "property_id": pid,
        "quick_cmd": "./check %s --tier quick" % pid,
        "thorough_cmd": "./check %s --tier thorough" % pid,
        "evidence_file": "/verif/evidence/%s.json" % pid,
        "replay_cmd_template": "./check %s --replay {path}" % pid,
        "engine": "tlc+replay",
        "level_claimed": {"category": c["level"], "text": c["text"], "design_ref": c["ref"]},
        "level_note": c["note"],
        "technique": c["technique"],
    })
na = []
for p in props:
    if p["id"] in CHECKS:
        continue
    na.append({"property_id": p["id"], "reason": NA.get(p["id"], NOT_YET)})
man = {
 "version": 1,
 "setup_cmd": "./setup.sh",
 "hooks": {"guard": "EON_VERIF", "enable": "no source hooks: checks import EoN from /repo's working tree and substitute EoN.simulation.random / numpy.random and user callbacks from outside",
           "baseline_off_cmd": BASE, "source_commits": [], "add_only": True},
 "engines": [{"name": "tlc+replay", "path": "/verif/check", "serves_properties": sorted(CHECKS),
              "kind_free_text": "TLA+ specifications in /verif/specs checked by TLC; conformance harness in /verif/harness (scripted random source, TLC state-graph walker, batched trace validation)"}],
 "checks": checks,
 "not_applicable": na,
 "notes": "fix: commits in /repo and known findings are listed in /verif/known_findings.json; see DESIGN.md.",
}
json.dump(man, open(os.path.join(HERE, "MANIFEST.json"), "w"), indent=1)
print("wrote MANIFEST.json with", len(checks), "checks")

#!/usr/bin/env python3
"""Evaluate one HARMLESS refactoring (a change that preserves the property): apply it to a scratch worktree
and run the quick checks that touch the changed files; any exit 1 is an alarm that has to be triaged (either
the refactoring is not harmless after all, or the check is over-strict and must be corrected).
usage: tools/benign_eval.py <PROP> <k> [--checks C01,C04 | --all] [--tier quick] [--root /tmp/benign]
Writes /verif/benign/<PROP>_<k>/{patch.diff, eq.py, meta.json}."""
import json
import os
import shutil
import subprocess
import sys
import tempfile
import time
from concurrent.futures import ThreadPoolExecutor

prop, k = sys.argv[1], sys.argv[2]
args = sys.argv[3:]
tier = args[args.index("--tier") + 1] if "--tier" in args else "quick"
root = args[args.index("--root") + 1] if "--root" in args else "/tmp/benign"
tag = args[args.index("--tag") + 1] if "--tag" in args else ""
src = "%s/%s/out" % (root, prop)
diff = os.path.join(src, "ref%s.diff" % k)
eq = os.path.join(src, "eq%s.py" % k)
meta = json.load(open(os.path.join(src, "meta%s.json" % k)))
BY_FILE = {
    "EoN/simulation.py": "C01 C02 C03 C04 C05 C09 C10 C11 C12 C13 C14 C15 C16 C17 C18 C19".split(),
    "EoN/analytic.py": "C06 C08 C14 C19 C20".split(),
    "EoN/simulation_investigation.py": "C04 C09 C10 C14 C18 C19".split(),
    "EoN/auxiliary.py": "C20 C19".split(),
}
text = open(diff).read()
files = sorted(set(l[6:].strip() for l in text.split("\n") if l.startswith("+++ b/")))
if "--checks" in args:
    checks = args[args.index("--checks") + 1].split(",")
elif "--all" in args:
    checks = ["C%02d" % i for i in range(1, 21) if i != 7]
else:
    checks = sorted(set([prop] + [c for f in files for c in BY_FILE.get(f, [])]))
d = tempfile.mkdtemp(prefix="eon_benign_")
out = {"property": prop, "refactoring": int(k), "kind": meta.get("kind"), "summary": meta.get("summary"), "files": files,
       "why_harmless": meta.get("why_harmless"), "observable_only_by": meta.get("internal_changes_observable_only_by")}
try:
    wt = os.path.join(d, "wt")
    subprocess.check_call(["git", "-C", "/repo", "worktree", "add", "-q", "--detach", wt, "HEAD"])
    r = subprocess.run(["git", "-C", wt, "apply", diff], capture_output=True, text=True)
    if r.returncode != 0:
        r = subprocess.run(["git", "-C", wt, "apply", "--3way", diff], capture_output=True, text=True)
        if r.returncode != 0:
            out["error"] = "patch does not apply: " + r.stderr[-300:]
            print(json.dumps(out, indent=1))
            sys.exit(3)

    def run(c):
        e = dict(os.environ, EON_VERIF_REPO=wt, EON_VERIF_EVIDENCE_DIR=os.path.join(d, "evidence"),
                 EON_VERIF_REPLAY_DIR=os.path.join(d, "replays"))
        t0 = time.time()
        rc = subprocess.run(["/verif/check", c, "--tier", tier], env=e, capture_output=True, text=True, timeout=3000)
        keys = [l.strip()[5:] for l in rc.stdout.split("\n") if l.strip().startswith("key: ")]
        v = {"exit": rc.returncode, "violation_keys": keys[:12], "wall_s": round(time.time() - t0)}
        if rc.returncode != 0:
            v["tail"] = rc.stdout[-1500:] + "\n--stderr--\n" + rc.stderr[-2500:]
        return c, v

    with ThreadPoolExecutor(max_workers=int(os.environ.get("BENIGN_PAR", "3"))) as ex:
        res = dict(ex.map(run, checks))
    out["checks"] = res
    out["alarms"] = [c for c, v in res.items() if v["exit"] != 0]
    dst = "%s/%s_%s%s" % (os.environ.get("BENIGN_DST", "/verif/benign"), prop, tag, k)
    os.makedirs(dst, exist_ok=True)
    shutil.copy(diff, os.path.join(dst, "patch.diff"))
    if os.path.exists(eq):
        shutil.copy(eq, os.path.join(dst, "eq.py"))
    json.dump(out, open(os.path.join(dst, "meta.json"), "w"), indent=1)
    print(json.dumps({k_: v for k_, v in out.items() if k_ in ("property", "refactoring", "alarms", "summary")}, indent=1))
finally:
    subprocess.run(["git", "-C", "/repo", "worktree", "remove", "--force", os.path.join(d, "wt")], capture_output=True)
    shutil.rmtree(d, ignore_errors=True)

import json,os,re,subprocess,sys,tempfile,shutil
name=sys.argv[1]
src="/verif/seeded/"+name
diff=open(src+"/patch.diff").read()
fns=sorted(set(re.findall(r"^@@.*?def (\w+)",diff,re.M))|set(re.findall(r"^[ +-]\s*def (\w+)",diff,re.M)))
fns=[f.strip('_') for f in fns]
extra={"SIR_pair_based":"pair_based","SIS_pair_based":"pair_based","nonMarkov_directed_percolate_network_with_timing":"estimate_SIR_prob_size or final_sizes or percol",
       "estimate_SIR_prob_size_from_dir_perc":"estimate_SIR_prob_size or final_sizes","_process_trans_SIR_":"fast_SIR or fast_nonMarkov_SIR","subsample":"SIR_dynamics or SIS_dynamics","get_PGFPrime":"EBCM or estimate_R0 or final_size",
       "_get_NkNl_and_IC_as_arrays_":"heterogeneous_pairwise","_dSIR_heterogeneous_pairwise_":"heterogeneous_pairwise","_out_component_":"final_sizes or estimate_SIR","get_infected_nodes":"final_sizes or estimate_SIR"}
k=" or ".join(sorted(set(fns+[v for kk,v in extra.items() if kk.strip('_') in fns or kk in diff])))
k="(%s) and not million and not Animation and not Snapshot"%k
d=tempfile.mkdtemp(prefix="eon_ct_"); wt=d+"/wt"
out={}
try:
    subprocess.check_call(["git","-C","/repo","worktree","add","-q","--detach",wt,"HEAD"])
    def run(tree):
        r=subprocess.run(["/venv/bin/python","-W","ignore","-m","pytest","-q","-p","no:cacheprovider","--timeout=600","EoN/tests","-k",k],cwd=tree,env=dict(os.environ,PYTHONPATH=tree,MPLBACKEND="Agg"),capture_output=True,text=True,timeout=1500)
        return sorted(l.split(" ")[1] for l in r.stdout.split("\n") if l.startswith("FAILED ")), r.stdout.strip().split("\n")[-1]
    clean=run(wt)
    subprocess.check_call(["git","-C",wt,"apply",src+"/patch.diff"])
    mut=run(wt)
    out={"k":k,"clean":clean[1],"mutated":mut[1],"same_failed_set":clean[0]==mut[0],"failed_clean":clean[0],"failed_mutated":mut[0]}
    m=json.load(open(src+"/meta.json")); m["tests_confirmed"]=out; json.dump(m,open(src+"/meta.json","w"),indent=1)
    print(name,json.dumps(out)[:400])
finally:
    subprocess.run(["git","-C","/repo","worktree","remove","--force",wt],capture_output=True); shutil.rmtree(d,ignore_errors=True)

#!/usr/bin/env python3
"""Markdown table of the seeded changes under /verif/seeded (for DESIGN.md §11.5)."""
import glob
import json
import os
rows = []
for f in sorted(glob.glob("/verif/seeded/*/meta.json")):
    m = json.load(open(f))
    name = os.path.basename(os.path.dirname(f))
    t = m.get("tests", {})
    tests = "not run" if not t else ("pass" if t.get("passes_existing_tests") else "BREAKS " + ",".join(t.get("stable_tests_broken", [])))
    caught = ", ".join(m.get("caught_by") or []) or "**missed**"
    keys = []
    for c, v in (m.get("checks") or {}).items():
        if v.get("violation_keys"):
            keys.append(v["violation_keys"][0])
    demo = "fails/passes" if (m.get("demo_exit_with_mutation") not in (0, None) and m.get("demo_exit_without_mutation") == 0) else "demo %r/%r" % (m.get("demo_exit_with_mutation"), m.get("demo_exit_without_mutation"))
    summ = (m.get("summary") or "").replace("|", "/").replace("\n", " ")
    if len(summ) > 230:
        summ = summ[:227] + "..."
    rows.append("| %s | %s | %s | %s | %s | `%s` |" % (name, summ, demo, tests, caught, (keys[0] if keys else "-").replace("|", "¦")[:90]))
print("| id | change | demo with/without | repo tests | caught by | first violation key |")
print("|---|---|---|---|---|---|")
print("\n".join(rows))

#!/usr/bin/env python3
"""Second pass over /verif/seeded/*: confirm that the repository's own tests still pass with the mutation.
The fast subset is always run; the slow tests (3-7 min each) are added when the patch touches code they exercise.
A mutation passes when no test of BASELINE.stable_pass that was run fails."""
import json
import os
import re
import subprocess
import sys
import tempfile
import shutil
import time

BASE = json.load(open("/root/.vp/BASELINE.json"))
STABLE = set(x.split("::")[-1] for x in BASE["stable_pass"])
SLOW = {
    "test_fast_nonMarkov_SIR": ["_process_trans_SIR_", "_process_rec_SIR_", "fast_nonMarkov_SIR", "myQueue", "_transform_to_node_history_", "_find_trans_and_rec_delays_SIR_"],
    "test_SIR_final_sizes": ["_process_trans_SIR_", "fast_SIR", "_trans_and_rec_time_Markovian", "_truncated_exponential_", "myQueue", "Attack_rate", "estimate_SIR_prob_size", "percolate_network", "directed_percolate"],
    "test_Two_Cooperative_SIR_Diseases_oscillatory": ["Gillespie_simple_contagion", "_ListDict_", "class _ListDict_", "def update", "def remove", "def insert", "choose_random"],
    "million_Fast_Gillespie_SIR": ["Gillespie_SIR", "_process_trans_SIR_", "fast_SIR", "_ListDict_", "def update", "def remove", "choose_random", "myQueue", "_trans_and_rec_time_Markovian", "_truncated_exponential_", "subsample"],
    "million_Fast_Gillespie_SIS": ["Gillespie_SIS", "_process_trans_SIS_Markov", "_find_next_trans_SIS_Markov", "fast_SIS", "_process_rec_SIS_", "_ListDict_", "def update", "def remove", "choose_random", "myQueue", "subsample"],
}
FAST = "not million and not Animation and not Snapshot and not Cooperative and not test_fast_nonMarkov_SIR and not SIR_final_sizes"


def run(wt, kexpr, timeout):
    env = dict(os.environ, PYTHONPATH=wt, PYTHONHASHSEED="0", MPLBACKEND="Agg")
    t0 = time.time()
    r = subprocess.run(["/venv/bin/python", "-m", "pytest", "-q", "-p", "no:cacheprovider", "--timeout=900",
                        "--continue-on-collection-errors", "EoN/tests", "-k", kexpr], cwd=wt, env=env, capture_output=True, text=True, timeout=timeout)
    failed = sorted(set(re.findall(r"^FAILED \S+::(\w+)", r.stdout, re.M)))
    passed_line = r.stdout.strip().split("\n")[-1]
    return failed, passed_line, round(time.time() - t0)


def main():
    name = sys.argv[1]
    d = "/verif/seeded/" + name
    meta = json.load(open(os.path.join(d, "meta.json")))
    if "tests" in meta and "--force" not in sys.argv:
        print(name, "already done")
        return
    patch = open(os.path.join(d, "patch.diff")).read()
    tmp = tempfile.mkdtemp(prefix="eon_seedtest_")
    wt = os.path.join(tmp, "wt")
    try:
        subprocess.check_call(["git", "-C", "/repo", "worktree", "add", "-q", "--detach", wt, "HEAD"])
        r = subprocess.run(["git", "-C", wt, "apply", "--3way", os.path.join(d, "patch.diff")], capture_output=True, text=True)
        if r.returncode != 0:
            meta["tests"] = {"error": "patch does not apply"}
        else:
            extra = [t for t, pats in SLOW.items() if any(p in patch for p in pats)]
            failed, line, wall = run(wt, FAST, 3000)
            res = {"fast_subset": {"k": FAST, "summary": line, "wall_s": wall, "failed": failed}}
            allfailed = set(failed)
            for t in extra:
                f2, l2, w2 = run(wt, t, 3400)
                res[t] = {"summary": l2, "wall_s": w2, "failed": f2}
                allfailed |= set(f2)
            res["stable_tests_broken"] = sorted(allfailed & STABLE)
            res["passes_existing_tests"] = not (allfailed & STABLE)
            res["slow_tests_run"] = extra
            meta["tests"] = res
        json.dump(meta, open(os.path.join(d, "meta.json"), "w"), indent=1)
        print(name, json.dumps(meta["tests"])[:400])
    finally:
        subprocess.run(["git", "-C", "/repo", "worktree", "remove", "--force", wt], capture_output=True)
        shutil.rmtree(tmp, ignore_errors=True)


main()

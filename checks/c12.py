"""C12 - discrete-time simulators follow generation-by-generation Reed-Frost dynamics."""
import itertools
import json
import os
import random as pyrandom
import shutil
import tempfile

from harness import common, tlc, discrete_b1, simruns
from harness.common import Check, pool_map, RATE_UNIT
from harness.netepi import pair_list

INF = 1000000
SETTLE_CAP = 120      # scenarios per (simulator, size, p) decided with the real random source when the scripted one cannot follow
_G = {}


def emit_kernel(n, pa, pb, sis, directed=False):
    cfg = tlc.cfg_text({"N": n, "PA": pa, "PB": pb, "SIS": sis, "Directed": directed}, view="View", action_constraints=["Emit"],
                       invariants=["KernelSums", "StopsIffNoInfected", "Conserved"],
                       properties=["OneStepInfectious", "NewlyInfectedHaveInfectiousNeighbour"])
    return tlc.run_tlc("DiscreteEpi", cfg, workers=1, coverage=True, timeout=3000)


def rule_scenarios(seed, nrand, tier):
    rng = pyrandom.Random(seed + 12)
    out = []
    # exhaustive: 3-node path and triangle, every successful-contact table on the edges, every initial state with an infected node
    for edges in ([(1, 2), (2, 3)], [(1, 2), (2, 3), (1, 3)]):
        arcs = [(u, v) for (u, v) in edges] + [(v, u) for (u, v) in edges]
        for bits in itertools.product((0, 1), repeat=len(arcs)):
            for init in itertools.product("SIR", repeat=3):
                if "I" not in init:
                    continue
                if tier == "quick" and rng.random() < 0.5:
                    continue
                adj = [[0] * 3 for _ in range(3)]
                succ = [[0] * 3 for _ in range(3)]
                for (u, v) in edges:
                    adj[u - 1][v - 1] = adj[v - 1][u - 1] = 1
                for (u, v), b in zip(arcs, bits):
                    succ[u - 1][v - 1] = b
                out.append({"n": 3, "adj": adj, "succ": succ, "init": list(init), "rec": [[1]] * 3, "tmin": 0, "tmax": INF})
    for _ in range(nrand):
        n = rng.randint(3, 8)
        adj = [[0] * n for _ in range(n)]
        for u in range(n):
            for v in range(u + 1, n):
                if rng.random() < 0.4:
                    adj[u][v] = adj[v][u] = 1
        succ = [[1 if (adj[u][v] and rng.random() < 0.6) else 0 for v in range(n)] for u in range(n)]
        init = ["S"] * n
        for u in rng.sample(range(n), rng.choice([1, 1, 2])):
            init[u] = "I"
        if rng.random() < 0.4:
            c = [u for u in range(n) if init[u] == "S"]
            if c:
                init[rng.choice(c)] = "R"
        if rng.random() < 0.4:
            rec = [[rng.choice([0, 1]) for _ in range(2)] + [1] for _ in range(n)]
        else:
            rec = [[1]] * n
        tmin = rng.choice([0, 0, 2])
        tmax = rng.choice([INF, INF, tmin + 2, tmin + 3])
        out.append({"n": n, "adj": adj, "succ": succ, "init": init, "rec": rec, "tmin": tmin, "tmax": tmax})
    return out


def check_rules(scn):
    d = tempfile.mkdtemp(prefix="eonverif_c12_")
    try:
        p = os.path.join(d, "scenarios.json")
        with open(p, "w") as fh:
            json.dump(scn, fh)
        cfg = tlc.cfg_text({}, invariants=["BFS", "OneStep", "Conserved", "EmitRef"], properties=["Mono"]).replace("CONSTANTS\n", "")
        return tlc.run_tlc("DiscreteRule", cfg, workers=16, env={"EON_SCENARIOS": p}, coverage=True, timeout=3000)
    finally:
        shutil.rmtree(d, ignore_errors=True)


def _replay_rule(i):
    import networkx as nx
    EoN = _G["EoN"]
    s = _G["rules"][i]
    ref = _G["refs"][i]
    n = s["n"]
    nodes = list(range(1, n + 1))
    G = nx.Graph()
    G.add_nodes_from(nodes)
    for u in nodes:
        for v in nodes:
            if u < v and s["adj"][u - 1][v - 1]:
                G.add_edge(u, v)
    I0 = [u for u in nodes if s["init"][u - 1] == "I"]
    R0 = [u for u in nodes if s["init"][u - 1] == "R"]
    notest = all(r == [1] for r in s["rec"])
    probs = []
    tmax = float("inf") if s["tmax"] >= INF else float(s["tmax"])
    for full in (True, False):
        cnt = {}

        def tt(u, v):
            return bool(s["succ"][u - 1][v - 1])

        def tr(u):
            cnt[u] = cnt.get(u, 0) + 1
            row = s["rec"][u - 1]
            return bool(row[min(cnt[u], len(row)) - 1])
        kw = dict(initial_infecteds=list(I0), tmin=s["tmin"], tmax=tmax, return_full_data=full)
        if R0:
            kw["initial_recovereds"] = list(R0)
        if not notest:
            kw["test_recovery"] = tr
        simruns.seed_all(i)
        try:
            r = EoN.discrete_SIR(G, test_transmission=tt, args=(), **kw)
        except Exception as ex:
            probs.append(("exception:%s" % type(ex).__name__, "discrete_SIR(full=%s) raised %r" % (full, ex)))
            continue
        infT, recT, tend = ref
        if full:
            for v in nodes:
                ts, ss = r.node_history(v)
                got_inf = [float(t) for t, x in zip(ts, ss) if x == "I"]
                got_rec = [float(t) for t, x in zip(ts, ss) if x == "R"]
                want_inf = [float(infT[v - 1])] if infT[v - 1] < INF else []
                want_rec = [float(recT[v - 1])] if recT[v - 1] < INF else []
                if got_inf != want_inf or got_rec != want_rec:
                    probs.append(("history", "node %d: infected at %r recovered at %r; generation semantics gives %r / %r"
                                  % (v, got_inf, got_rec, want_inf, want_rec)))
        else:
            t, S, I, R = [list(map(float, a)) for a in r]
            T = len(t)
            if t != [float(s["tmin"] + k) for k in range(T)] or t[-1] != float(tend):
                probs.append(("times", "times %r, generation semantics ends at %r" % (t, tend)))
                continue
            for k in range(T):
                now = s["tmin"] + k
                eI = sum(1 for v in nodes if infT[v - 1] <= now and not (recT[v - 1] <= now))
                eR = sum(1 for v in nodes if recT[v - 1] <= now)
                if (S[k], I[k], R[k]) != (n - eI - eR, eI, eR):
                    probs.append(("rows", "row %d is %r, generation semantics gives %r" % (k, (S[k], I[k], R[k]), (n - eI - eR, eI, eR))))
                    break
    return probs


def main():
    chk = Check("C12", "model_checking")
    EoN = common.import_eon()
    _G["EoN"] = EoN
    # ---- part 1: discrete_SIR under deterministic rules = BFS --------------------------------
    rules = rule_scenarios(chk.seed, 600 if chk.tier == "quick" else 6000, chk.tier)
    res = check_rules(rules)
    chk.add_tlc("DiscreteRule: generation loop = BFS on %d scenarios" % len(rules), res)
    if res.violation:
        chk.violation("spec|DiscreteRule|" + res.violation[:60], "TLC: " + res.violation, {})
    refs = {}
    for rec in res.printed("REF"):
        refs[rec[1] - 1] = (rec[2], rec[3], rec[4])
    if len(refs) != len(rules):
        raise common.MachineryFailure("TLC emitted %d outcomes for %d rule scenarios" % (len(refs), len(rules)))
    _G.update(rules=rules, refs=refs)
    for i, probs in enumerate(pool_map(_replay_rule, range(len(rules)))):
        chk.cov["evaluations"] += 2
        chk.cov["traces_validated_against_impl"] += 1
        if sum(1 for x in refs[i][0] if x < INF) > rules[i]["init"].count("I"):
            chk.cov["distinct_nontrivial"] += 1
        for (kind, detail) in probs:
            cls = ("recovery-test" if any(r != [1] for r in rules[i]["rec"]) else "default-recovery") + ("+initial-recovereds" if "R" in rules[i]["init"] else "")
            chk.violation("discrete_SIR|%s|%s" % (kind, cls), detail, {"scenario": rules[i], "reference": refs[i]})
    # ---- part 2: Reed-Frost / discrete SIS kernel, exact ------------------------------------
    pa, pb = 1, 2
    settled = []
    for sis, sims in ((False, ["basic_discrete_SIR", "percolation_based_discrete_SIR"]), (True, ["basic_discrete_SIS"])):
        # p = 1/2 on 3 and 4 nodes; a small p (1/16, below any "sparse" threshold an implementation might have) on 3 nodes
        for n, pa, pb in ((3, 1, 2), (4, 1, 2), (3, 1, 16)):
            kres = emit_kernel(n, pa, pb, sis)
            chk.add_tlc("DiscreteEpi kernel N=%d p=%d/%d %s" % (n, pa, pb, "SIS" if sis else "SIR"), kres)
            if kres.violation:
                chk.violation("spec|DiscreteEpi|" + kres.violation[:60], "TLC: " + kres.violation, {})
            if kres.coverage.get("Step", (0, 0))[1] == 0 and kres.coverage.get("Next", (0, 0))[1] == 0:
                raise common.MachineryFailure("vacuous DiscreteEpi run")
            sg = {}
            perc = {}
            for rec in kres.printed("E"):
                _, w, st, st2, ev = rec
                sg.setdefault((tuple(w), tuple(st)), []).append((frozenset(ev[0]["__set__"]), ev[1], ev[2], tuple(st2)))
            for rec in kres.printed("P"):
                perc[(rec[1], rec[2])] = rec[3] / rec[4]
            discrete_b1.SG = sg
            tasks = []
            npairs = n * (n - 1) // 2
            for w in itertools.product((0, 1), repeat=npairs):
                for st0 in itertools.product(("S", "I") if sis else ("S", "I", "R"), repeat=n):
                    if "I" not in st0:
                        continue
                    for sim in sims:
                        for full in (True, False):
                            if n == 4 and full and sum(w) > 4:
                                continue
                            if sis:
                                # every state is an initial state of the chain: one generation from every state
                                # gives the whole kernel; two generations check that state is carried over
                                tasks.append({"sim": sim, "w": w, "st0": st0, "p": pa / pb, "full": full, "horizon": 1, "tmin": 0})
                                if st0.count("I") <= 1 or (n == 3 and st0.count("I") <= 2):
                                    tasks.append({"sim": sim, "w": w, "st0": st0, "p": pa / pb, "full": full, "horizon": 2, "tmin": 3})
                            else:
                                tasks.append({"sim": sim, "w": w, "st0": st0, "p": pa / pb, "full": full, "horizon": None, "tmin": 0})
            for t in tasks:
                # half of the scenarios start from a graph object that was simulated on before with another structure
                t["primed"] = (sum(t["w"]) + t["st0"].count("I") + (1 if t["full"] else 0)) % 2 == 0
            # a simulator the scripted source cannot follow is decided statistically (discrete_b1.settle_law), which costs
            # seconds per scenario: then a deterministic sample of its scenarios is judged instead of all of them
            for sim in sims:
                mine = [t for t in tasks if t["sim"] == sim and "S" in t["st0"] and sum(t["w"]) > 0]
                if mine and pool_map(discrete_b1.run_scenario, [dict(mine[len(mine) // 2], probe=True, primed=False)])[0].get("unmodelled"):
                    keep = set(id(t) for t in mine[::max(1, len(mine) // SETTLE_CAP)][:SETTLE_CAP])
                    dropped = len([t for t in tasks if t["sim"] == sim]) - len(keep)
                    tasks = [t for t in tasks if t["sim"] != sim or id(t) in keep]
                    chk.note("%s (N=%d, p=%d/%d): not a finite decision tree; %d scenarios are decided statistically, %d further scenarios of this family are not judged in this run"
                             % (sim, n, pa, pb, len(keep), dropped))
            done = common.pool_run(discrete_b1.run_scenario, tasks, lambda r: bool(r["problems"]))
            for t, r in done:
                chk.cov["evaluations"] += r["leaves"]
                chk.cov["traces_validated_against_impl"] += r["leaves"]
                if r["events"] > 0:
                    chk.cov["distinct_nontrivial"] += 1
                chk.part(t["sim"], scenarios=1, leaves=r["leaves"])
                if r.get("settled"):
                    settled.append((t["sim"], r["settled"]))
                for p in r["problems"]:
                    chk.violation("%s|%s|%s" % (t["sim"], p["kind"], "full-data" if t["full"] else "arrays"),
                                  p["detail"] + (" after steps %r" % (p["history"],) if "history" in p else ""),
                                  {"task": t, "problem": p})
            # percolate_network
            if not sis:
                ptasks = [{"w": w, "p": pa / pb, "n": n, "primed": sum(w) % 2 == 1, "perc": [perc[(sum(w), k)] for k in range(sum(w) + 1)]}
                          for w in itertools.product((0, 1), repeat=npairs)]
                for t, r in zip(ptasks, pool_map(discrete_b1.percolate_scenario, ptasks)):
                    chk.cov["evaluations"] += r["leaves"]
                    for p in r["problems"]:
                        chk.violation("percolate_network|%s|" % p["kind"], p["detail"], {"task": t})
                    edges = [e for e, x in zip(pair_list(n), t["w"]) if x]
                    m = len(edges)
                    if r.get("settled"):
                        settled.append(("percolate_network", r["settled"]))
                    for k in (range(m + 1) if r["dist"] is not None else ()):
                        for K in itertools.combinations(edges, k):
                            got = r["dist"].get(tuple(sorted(K)), 0.0)
                            if abs(got - perc[(m, k)]) > 1e-12:
                                chk.violation("percolate_network|probability|", "kept set %r has probability %r, bond percolation gives %r" % (K, got, perc[(m, k)]), {"task": t})
    pa, pb = 1, 2
    # directed contact networks: u infects v along an arc u -> v only (3 nodes, every digraph)
    for sis, sims in ((False, ["basic_discrete_SIR"]), (True, ["basic_discrete_SIS"])):
        kres = emit_kernel(3, pa, pb, sis, directed=True)
        chk.add_tlc("DiscreteEpi kernel on every digraph, N=3 p=%d/%d %s" % (pa, pb, "SIS" if sis else "SIR"), kres)
        if kres.violation:
            chk.violation("spec|DiscreteEpi(directed)|" + kres.violation[:60], "TLC: " + kres.violation, {})
        sg = {}
        for rec in kres.printed("E"):
            _, w, st, st2, ev = rec
            sg.setdefault((tuple(w), tuple(st)), []).append((frozenset(ev[0]["__set__"]), ev[1], ev[2], tuple(st2)))
        discrete_b1.SG = sg
        tasks = []
        for w in itertools.product((0, 1), repeat=6):
            if chk.tier == "quick" and sum(w) not in (1, 2, 3, 6) :
                continue
            for st0 in itertools.product(("S", "I") if sis else ("S", "I", "R"), repeat=3):
                if "I" not in st0:
                    continue
                for sim in sims:
                    for full in (True, False):
                        tasks.append({"sim": sim, "w": w, "st0": st0, "p": pa / pb, "full": full, "directed": True,
                                      "horizon": 1 if sis else None, "tmin": 0})
                        if sis and st0.count("I") == 1:
                            tasks.append({"sim": sim, "w": w, "st0": st0, "p": pa / pb, "full": full, "directed": True, "horizon": 2, "tmin": 3})
        done = common.pool_run(discrete_b1.run_scenario, tasks, lambda r: bool(r["problems"]))
        for t, r in done:
            chk.cov["evaluations"] += r["leaves"]
            chk.cov["traces_validated_against_impl"] += r["leaves"]
            if r["events"] > 0:
                chk.cov["distinct_nontrivial"] += 1
            chk.part(t["sim"] + " (directed)", scenarios=1, leaves=r["leaves"])
            for p in r["problems"]:
                chk.violation("%s|%s|%s" % (t["sim"], p["kind"], ("full-data" if t["full"] else "arrays") + "+directed"),
                              p["detail"] + (" after steps %r" % (p["history"],) if "history" in p else ""), {"task": t, "problem": p})
    chk.sample({"rule_scenario": rules[len(rules) // 2], "reference_infection_times": refs[len(rules) // 2][0]})
    rule = ("part 1: discrete_SIR under table-driven deterministic transmission rules and recovery tests (exhaustive on 3-node path/triangle, seeded random on 3-8 nodes, finite tmax, initial recovereds): "
            "TLC checks generation loop = BFS and emits infection/recovery times, replayed in both return modes; part 2: TLC emits the exact Reed-Frost / discrete SIS transition matrix for every graph on N nodes "
            "(p=1/2) and the decision tree of basic_discrete_SIR, percolation_based_discrete_SIR, basic_discrete_SIS (full data: node-level kernel per generation; arrays: law of the numbers of new infections) "
            "and percolate_network (every kept-edge set) is enumerated under the scripted source and compared exactly; non-trivial = someone is infected by transmission")
    if settled:
        by = {}
        for sim, why in settled:
            by.setdefault(sim, [0, why])[0] += 1
        for sim, (cnt, why) in sorted(by.items()):
            chk.note("%s: the scripted random source cannot follow the implementation in %d scenario(s) (%s); their law was decided with %d seeded runs each of the "
                     "real random source against the TLC-emitted chain (outcomes of probability 0 exactly, frequencies by a G-test rejected below %.0e)"
                     % (sim, cnt, why, discrete_b1.SETTLE_RUNS, discrete_b1.SETTLE_P))
        chk.assumptions.append("scenarios settled statistically (see notes) are not exact: G-test at 1e-9")
    return chk.finish(rule, exhaustive=False)


if __name__ == "__main__":
    common.run_main(main)

"""C16 - Weighted event selection stays proportional to weight after any history.

1. TLC: WeightedBag.tla (reference: weights, selection law SelNum/SelDen, total) and
   ListDictImpl.tla (statement-by-statement transcription of `_ListDict_`): over all
   operation histories in the bound the transcription keeps position map / list / weight
   keys consistent, total = sum of weights, max_weight an upper bound of every weight and
   positive when a weight is, its folded rejection-sampling law equal to w[x]/sum w, and
   it refines WeightedBag (ListDictImpl => Ref!Spec).
2. B1 replay against the real class: (a) every history of the bounded alphabet up to the
   walk depth (all paths of the TLC-emitted op graph), (b) one shortest history for every
   distinct ListDictImpl state TLC reaches in the deeper bound.  After the history:
   len(), `in`, total_weight() and the exact distributions of choose_random() and
   random_removal() (scripted source, rejection loop folded) against the emitted
   reference state.  Weighted (float weights k/4 and int weights) and unweighted class.
Only API observables decide; agreement of the private max_weight / max_weight_count with
ListDictImpl is a NOTE.
"""
import json
import os
import time

from harness import common, tlc
from harness import c16_support as S
from harness.common import Check

RULE = ("a case is one operation history (sequence of insert / update / remove / update_total_weight calls, items 1..N, "
        "insert weights {0..3}, increments {0,1,2}) applied to a fresh real _ListDict_: (a) every history of the alphabet up to "
        "the walk depth = every path of the op graph TLC emits from WeightedBag.tla, (b) one shortest history per distinct "
        "state of ListDictImpl.tla in the deeper bound; evaluations = leaves of the scripted-source decision trees of "
        "choose_random()/random_removal() plus observable comparisons; a history is non-trivial when it has >= 1 operation "
        "and ends in a state with positive total weight, so that both selection distributions were compared with "
        "SelNum/SelDen; histories are distinct by construction (distinct call sequences per mode)")


def plan(tier):
    """bounds per tier: (mode name, weighted, N, exhaustive-TLC ops, history-emission ops, walk depth, units)"""
    if tier == "quick":
        return [
            ("weighted-3", True, 3, 6, 6, 4, (0.25,)),
            ("weighted-3-int", True, 3, None, 4, 3, (1,)),
            # rates of very small / very large magnitude (power-of-two units keep the float arithmetic exact)
            ("weighted-3-tiny", True, 3, None, 4, 3, (2.0 ** -47, 2.0 ** 40)),
            ("weighted-4", True, 4, 4, 5, 3, (0.25,)),
            ("unweighted-4", False, 4, 6, 6, 5, (1,)),
        ]
    return [
        ("weighted-3", True, 3, 7, 7, 5, (0.25,)),
        ("weighted-3-int", True, 3, None, 6, 4, (1,)),
        ("weighted-3-tiny", True, 3, None, 6, 4, (2.0 ** -47, 2.0 ** 40)),
        ("weighted-4", True, 4, 6, 6, 4, (0.25,)),
        ("unweighted-4", False, 4, 8, 8, 6, (1,)),
        ("unweighted-5", False, 5, 6, 6, 5, (1,)),
    ]


def need(res, names, what):
    for a in names:
        if res.coverage.get(a, (0, 0))[1] == 0:
            raise common.MachineryFailure("vacuous TLC run (%s): action %s never taken" % (what, a))


_shrunk = set()


def report(chk, probs, extra):
    for p in probs:
        if p["key"] not in _shrunk and extra.get("mode") in (S.G or {}):
            _shrunk.add(p["key"])
            p = S.shrink(S.G[extra["mode"]], p)
        chk.violation(p["key"], p["detail"] + " after history [" + p["python"] + "]",
                      dict(extra, history=p["history"], weighted=p["weighted"], unit=p["unit"], python=p["python"],
                           ref_state=p["ref_state"]))


def tlc_jobs(tier):
    """All TLC runs of the tier, started together (each in its own scratch directory);
    the emission runs are single-worker and print-bound, the exhaustive ones share the cores."""
    from concurrent.futures import ThreadPoolExecutor
    jobs = {}
    ex = ThreadPoolExecutor(max_workers=5)
    for name, weighted, n, ops_mc, ops_hist, depth, units in plan(tier):
        if ops_mc:
            jobs[(name, "mc")] = ex.submit(S.impl_check, S.consts(n, ops_mc, weighted), weighted, 3000, 8)
        jobs[(name, "ref")] = ex.submit(S.ref_graph, S.consts(n, max(depth, ops_hist) + 1, weighted))
        jobs[(name, "hist")] = ex.submit(S.impl_histories, S.consts(n, ops_hist, weighted), weighted)
    for inv in ("CountExact", "MaxTight"):
        jobs[("drift", inv)] = ex.submit(S.impl_drift, S.consts(3, 4, True), inv)
    # inductiveness of the algorithm's invariants (history length unbounded), and a control: a property that is
    # NOT inductive (max_weight_count is the multiplicity of the maximum) must be refuted by the same run
    jobs[("ind", "weighted")] = ex.submit(S.impl_inductive, 3, True, 4 if tier == "quick" else 6)
    jobs[("ind", "unweighted")] = ex.submit(S.impl_inductive, 4, False, 1)
    jobs[("ind", "control")] = ex.submit(S.impl_inductive, 3, True, 3, ("CountExact",))
    if tier != "quick":
        jobs[("ind", "weighted-4")] = ex.submit(S.impl_inductive, 4, True, 3)
    # all TLC runs finish (and the threads are joined) before any process pool forks
    ex.shutdown(wait=True)
    return jobs


def run_mode(chk, jobs, name, weighted, n, ops_mc, ops_hist, depth, units):
    tier = chk.tier
    acts = ["Insert", "Remove"] + (["Update", "Resum"] if weighted else [])
    # ---- TLC: the reference, emitted as a graph -----------------------------------
    gops = max(depth, ops_hist) + 1
    g, gres = jobs[(name, "ref")].result()
    chk.add_tlc("WeightedBag %s N=%d MaxOps=%d: %s, %s + emission" % (name, n, gops, ", ".join(S.INV_REF), ", ".join(S.PROP_REF)), gres)
    if gres.violation:
        chk.violation("spec|WeightedBag|" + gres.violation[:60], "TLC: " + gres.violation, {"mode": name})
        return
    need(gres, acts + ["Select"], "WeightedBag " + name)
    # ---- TLC: representative histories of every distinct implementation state ------
    H, hres = jobs[(name, "hist")].result()
    chk.add_tlc("ListDictImpl %s N=%d MaxOps=%d: one shortest history per distinct state (VIEW without op counter)" % (name, n, ops_hist), hres)
    S.G = {name: g}
    for unit in units:
        extra = {"mode": name, "consts": {"N": n, "weighted": weighted}}
        # (a) all histories up to `depth`
        tasks = []
        for pl in (0, 1):
            for h, s in S.prefixes(g, weighted, pl):
                tasks.append({"mode": name, "prefix": h, "state": s, "depth": depth, "weighted": weighted, "unit": unit, "only_prefix": True})
        for h, s in S.prefixes(g, weighted, 2):
            tasks.append({"mode": name, "prefix": h, "state": s, "depth": depth, "weighted": weighted, "unit": unit})
        t0 = time.time()
        done = S.pool_run(S.walk_task, tasks, lambda r: bool(r["problems"]), stop_after=10)
        if len(done) < len(tasks):
            chk.note("%s: walk stopped after %d of %d prefixes because enough failing histories were collected" % (name, len(done), len(tasks)))
        for t, r in done:
            chk.cov["evaluations"] += r["leaves"] + r["nodes"]
            chk.cov["traces_validated_against_impl"] += r["nodes"]
            chk.cov["distinct_nontrivial"] += r["nontrivial"]
            chk.part("walk %s unit=%s depth<=%d" % (name, unit, depth), histories=r["nodes"], selection_distributions=r["selections"],
                     decision_tree_leaves=r["leaves"])
            report(chk, r["problems"], extra)
        samples = [r["sample"] for _, r in done if r["sample"]]
        if samples:
            chk.sample(dict(samples[len(samples) // 2], mode=name, unit=unit, kind="walk"))
        chk.part("walk %s unit=%s depth<=%d" % (name, unit, depth), wall_s=round(time.time() - t0, 1))
        # (b) representative histories (deeper)
        deep = [hh for hh in H if len(hh[0]) > depth]
        chunk = max(1, len(H) // 256)
        htasks = [{"mode": name, "histories": H[i:i + chunk], "weighted": weighted, "unit": unit, "walk_depth": depth}
                  for i in range(0, len(H), chunk)]
        t0 = time.time()
        done = S.pool_run(S.hist_task, htasks, lambda r: bool(r["problems"]), stop_after=10)
        same = diff = shown = 0
        for t, r in done:
            chk.cov["evaluations"] += r["leaves"] + r["nodes"]
            chk.cov["traces_validated_against_impl"] += r["nodes"]
            chk.cov["distinct_nontrivial"] += r["nontrivial"]
            chk.part("state-covering histories %s unit=%s depth %d..%d" % (name, unit, depth + 1, ops_hist), histories=r["nodes"],
                     selection_distributions=r["selections"], decision_tree_leaves=r["leaves"],
                     private_state_equal_to_ListDictImpl=r["private_same"])
            report(chk, r["problems"], extra)
            same += r["private_same"]
            diff += r["private_ndiff"]
            for d in r["private_diff"][:max(0, 2 - shown)]:
                shown += 1
                chk.note("%s: private state of the real object differs from ListDictImpl after [%s]: code %r, transcription %r "
                         "(not a verdict; TLC's result about the algorithm transfers to the code only where they agree)"
                         % (name, d["history"], d["code"], d["ListDictImpl"]))
        samples = [r["sample"] for _, r in done if r["sample"]]
        if samples:
            chk.sample(dict(samples[len(samples) // 2], mode=name, unit=unit, kind="state-covering"))
        chk.part("state-covering histories %s unit=%s depth %d..%d" % (name, unit, depth + 1, ops_hist), wall_s=round(time.time() - t0, 1))
        if diff:
            chk.note("%s unit=%s: the private state differs from ListDictImpl after %d of %d state-covering histories (information only)"
                     % (name, unit, diff, len(H)))
        if not diff and same == len(H):
            chk.note("%s unit=%s: items order, _total_weight, max_weight and max_weight_count of the real object equal the ListDictImpl "
                     "state after the shortest history of each of the %d distinct ListDictImpl states (transcription faithful there)"
                     % (name, unit, same))
    # ---- TLC: the transcription, all histories in the bound -----------------------
    if ops_mc:
        res = jobs[(name, "mc")].result()
        chk.add_tlc("ListDictImpl %s N=%d MaxOps=%d: %s + refinement of WeightedBag" % (name, n, ops_mc, ", ".join(S.INV_IMPL)), res)
        if res.violation:
            algorithm_finding(chk, name, weighted, n, res)
        else:
            need(res, acts + ["Pick"] + (["Update"] if not weighted else []), "ListDictImpl " + name)
            bc = S.branch_coverage(res)
            chk.part("TLC ListDictImpl " + name, **{"branch_" + k.replace("-", "_"): v for k, v in bc.items()})
            wanted = ["move-last"] + (["recount", "new-max", "tie-max", "zero-inc-at-max"] if weighted else [])
            for b in wanted:
                if bc.get(b, 0) == 0:
                    raise common.MachineryFailure("vacuous TLC run (ListDictImpl %s): branch %s never evaluated" % (name, b))


def algorithm_finding(chk, name, weighted, n, res):
    """TLC says the transcribed algorithm breaks an invariant: believe it only if the
    real class shows an API-level failure on TLC's counterexample history."""
    import re
    ms = re.findall(r"^/\\ hist = (.*)$", res.stdout, re.M)
    hist = [tuple(c) for c in tlc.parse_value(ms[-1])] if ms else []
    g, _ = S.ref_graph(S.consts(n, len(hist) + 1, weighted))
    s = tuple([-1] * n)
    found = []
    for i in range(len(hist) + 1):
        if i:
            s = g.succ(s, S.ref_op(hist[i - 1], weighted))
        p, _ = S.check_node(g, s, hist[:i], weighted, 0.25 if weighted else 1)
        found.extend(p)
    if not found:
        raise common.MachineryFailure("TLC: ListDictImpl (%s) violates %s after [%s], but the real class shows no API-level failure on that "
                                      "history: the transcription is unfaithful or the defect is not visible there - inspect"
                                      % (name, res.violation, S.pyhist(hist, 1)))
    chk.note("TLC: ListDictImpl (%s) violates %s after [%s]; reproduced against the real class" % (name, res.violation, S.pyhist(hist, 1)))
    report(chk, found, {"mode": name, "consts": {"N": n, "weighted": weighted}, "tlc": res.violation})


def inductive_part(chk, jobs):
    for key in sorted(k for k in jobs if k[0] == "ind" and k[1] != "control"):
        res = jobs[key].result()
        chk.add_tlc("ListDictInd (%s): IndInv /\\ Next => IndInv' and the observable consequences, from EVERY state satisfying IndInv in the value box (one call of every kind)" % key[1], res)
        if res.violation:
            chk.violation("spec|ListDictInd|%s|%s" % (key[1], res.violation[:60]),
                          "TLC: the conjunction of the algorithm's invariants is not inductive for the transcription of _ListDict_ (%s): %s" % (key[1], res.violation), {"mode": key[1]})
        if res.distinct < 50:
            raise common.MachineryFailure("vacuous inductiveness run (%s): %d states" % (key[1], res.distinct))
        for a in ["Insert", "Remove", "Pick"] + (["Update", "Resum"] if key[1].startswith("weighted") else []):
            if res.coverage.get(a, (0, 0))[1] == 0:
                raise common.MachineryFailure("vacuous inductiveness run (%s): action %s never taken" % (key[1], a))
    ctl = jobs[("ind", "control")].result()
    chk.add_tlc("ListDictInd control: CountExact is not inductive and must be refuted", ctl)
    if not ctl.violation:
        raise common.MachineryFailure("non-vacuity control failed: the inductiveness run did not refute CountExact")
    chk.note("ListDictInd: the invariants (list/position map consistent, weight keys = items, total = sum, max_weight an upper bound, positive when a weight is) are "
             "inductive from every state in the value box, so they - and with them exact selection and total = sum - hold after histories of ANY length; "
             "control: CountExact (not required) is refuted by the same run")


def drift_notes(chk, jobs):
    """what the brute-force probe saw, now as TLC counterexamples (information only)"""
    for inv, text in (("CountExact", "max_weight_count is not the multiplicity of max_weight"),
                      ("MaxTight", "max_weight is larger than every current weight")):
        last, res = jobs[("drift", inv)].result()
        if last is None:
            chk.note("ListDictImpl: %s holds within 4 operations" % inv)
        else:
            chk.note("ListDictImpl (TLC counterexample to the non-required invariant %s, shortest): after %s, %s (maxw=%r, maxcnt=%r); "
                     "harmless for the property because UpperBound holds" % (inv, S.pyhist([tuple(x) for x in last.get("hist", [])], 1),
                                                                           text, last.get("maxw"), last.get("maxcnt")))


def replay_one(path):
    """EON_VERIF_REPLAY: re-run the history of one replay file."""
    with open(path) as fh:
        rp = json.load(fh)["replay"]
    hist = [tuple(c) for c in rp["history"]]
    weighted, unit, n = rp["weighted"], rp["unit"], rp["consts"]["N"]
    wmax = max([3] + [c[2] for c in hist if c[0] == "I"])
    imax = max([2] + [c[2] for c in hist if c[0] == "U"])
    c = S.consts(n, len(hist) + 1, weighted, weights=range(0, wmax + 1), incs=range(0, imax + 1))
    g, res = S.ref_graph(c)
    s = tuple([-1] * n)
    bad = 0
    for i in range(len(hist) + 1):
        if i:
            s = g.succ(s, S.ref_op(hist[i - 1], weighted))
        probs, _ = S.check_node(g, s, hist[:i], weighted, unit)
        print("after [%s]: reference state %r Size=%d Total=%d SelNum=%r -> %s"
              % (S.pyhist(hist[:i], unit), list(s), g.obs[s][0], g.obs[s][1], list(g.obs[s][2]), "ok" if not probs else "MISMATCH"))
        for p in probs:
            bad += 1
            print("VIOLATION property=C16 replay=%s" % path)
            print("  key: %s" % p["key"])
            print("  what: %s" % p["detail"])
    return 1 if bad else 0


def main(argv=None):
    common.import_eon()
    rp = os.environ.get("EON_VERIF_REPLAY")
    if rp:
        return replay_one(rp)
    chk = Check("C16", "model_checking")
    jobs = tlc_jobs(chk.tier)
    try:
        for mode in plan(chk.tier):
            run_mode(chk, jobs, *mode)
        drift_notes(chk, jobs)
        inductive_part(chk, jobs)
    finally:
        for f in jobs.values():
            f.cancel()
    chk.assumptions += [
        "TLC and the TLA+ semantics of WeightedBag.tla / ListDictImpl.tla",
        "harness.scripted models random.choice / random.random as used by choose_random (an unmodelled draw ends the check with exit 2)",
        "weights are small dyadic rationals (k/4) or ints, so total_weight() is compared exactly; 'to rounding' for general floats is not examined",
        "bounded: items <= 5, insert weights 0..3, increments 0..2, history length as listed in tlc_runs/parts",
    ]
    from harness import stamina
    stamina.probe(common.import_eon(), chk)
    stamina.long_history(common.import_eon(), chk, nops=40000 if chk.tier == "quick" else 400000, seed=chk.seed)
    return chk.finish(RULE, exhaustive=True)


if __name__ == "__main__":
    common.run_main(main)

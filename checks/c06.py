"""C06 - ODE outputs conserve the population and start from the requested state.

(a) specs/InitCond.tla: TLC checks the mutual consistency of every initial count
    over all labelled graphs on <= 4 nodes x all initial conditions of the family
    and EMITS scenario |-> expected values; every real entry point is called on
    the emitted scenarios and index 0 of every returned series is compared, in the
    entry point's own documented order, with the emitted value.
(b) specs/CompartmentFlow.tla + specs/TraceCompartmentFlow.tla: every returned
    (t,S,I[,R]) is one trace validated by TLC against the monitor (conservation,
    bounds, SIR monotonicity, tau=0 / gamma=0 guards, discrete recovery, time grid).
"""
import copy
import json
import os
import sys
import time

from harness import common, tlc
from harness import c06_init as ci
from harness import c06_table as tb
from harness import c06_trace as ct
from harness.common import Check, pool_map

# graphs of part (b) beyond the exhaustive <= 4-node family (1-based nodes, as in the spec)
FIXED = [
    (4, [(1, 2), (2, 3), (3, 4)]),                              # path
    (5, [(1, 2), (1, 3), (1, 4)]),                              # star + isolated node
    (5, [(1, 2), (2, 3), (3, 4), (4, 5), (1, 5)]),              # cycle (regular)
    (5, [(1, 2), (1, 3), (2, 3), (3, 4), (4, 5)]),              # triangle with a tail
    (5, [(1, 2), (3, 4), (4, 5)]),                              # two components
    (6, [(1, 2), (1, 3), (2, 4), (2, 5), (3, 6)]),              # tree
    # degree histograms whose mean degree is not a dyadic number (sevenths, sixths): float rounding of <k>*N
    (7, [(1, 5), (2, 4), (2, 5), (2, 6), (3, 4), (3, 6), (5, 6)]),
    (7, [(1, 3), (1, 4), (1, 6), (2, 4), (4, 7), (5, 7), (6, 7)]),
    (6, [(1, 5), (2, 3), (3, 5), (3, 6), (4, 5), (4, 6), (5, 6)]),
    # degrees 1 and 8: a Python set of these degrees does not iterate in increasing order (documented order of the
    # degree-class series: increasing degree)
    (9, [(1, k) for k in range(2, 10)]),
]


def family(tier):
    if tier == "quick":
        return {"maxn": 4, "rhos": [(0, 1), (1, 4), (1, 2), (3, 4)], "all_labelled": False,
                "rates": [0.0, 0.5, 2.0], "per_graph": 1, "fixed_rhos": [(0, 1), (1, 4)]}
    return {"maxn": 4, "rhos": [(0, 1), (1, 4), (1, 2), (3, 4), (1, 3), (1, 8)], "all_labelled": True,
            "rates": [0.0, 0.5, 1.0, 2.0], "per_graph": 3, "fixed_rhos": [(0, 1), (1, 4), (1, 2), (3, 4)]}


GRIDS = [(0, 2, 5), (1, 3, 4)]
GRIDS_DISC = [(0, 3, None), (1, 4, None)]
P_DISC = [0.0, 0.5, 1.0]


def tasks_part_a(scen_idx):
    out = []
    for si in scen_idx:
        sc = ci.SCEN[si]
        for name, e in sorted(tb.ENTRIES.items()):
            grid = (0, 2, None) if e["disc"] else (0, 1, 3)
            if not ci.applicable(e, sc, grid):
                continue
            for full in ((False, True) if e["full"] else (False,)):
                out.append((name, si, 0.5 if e["disc"] else 1.0, 1.0, grid, full))
    return out


def tasks_part_b(scen_idx, rates):
    out = []
    for si in scen_idx:
        sc = ci.SCEN[si]
        for name, e in sorted(tb.ENTRIES.items()):
            for gi, grid in enumerate(GRIDS_DISC if e["disc"] else GRIDS):
                if not ci.applicable(e, sc, grid):
                    continue
                combos = [(p, 1.0) for p in P_DISC] if e["disc"] else [(t, g) for t in rates for g in rates]
                for tau, gamma in combos:
                    # return_full_data on the first grid only: the plain path is the one every user takes
                    for full in ((False, True) if (e["full"] and gi == 0) else (False,)):
                        out.append((name, si, tau, gamma, grid, full))
    return out


def pick_fixed(fixed_scen, per_graph):
    """deterministic subset of the scenarios emitted for the FIXED graphs"""
    by = {}
    for i, sc in fixed_scen:
        by.setdefault((sc.n, tuple(sc.edges)), {}).setdefault(sc.ic, []).append(i)
    out = []
    for g in sorted(by):
        for ic, lst in sorted(by[g].items()):
            if ic == "rho":
                out += lst
            else:
                step = max(1, len(lst) // (2 * per_graph))
                out += lst[::step][:2 * per_graph]
    return out


def canaries(traces):
    """corrupted copies of real traces that the monitor must reject with the named clause"""
    out = []
    want = [("MonotoneS", lambda t: t["sir"] and len(t["rows"]) >= 3 and not t["tau0"]),
            ("Conserved", lambda t: len(t["rows"]) >= 3),
            ("Grid", lambda t: len(t["rows"]) >= 3),
            ("TauZero", lambda t: t["tau0"] and t["sir"] and len(t["rows"]) >= 3),
            ("GammaZero", lambda t: t["gam0"] and t["sir"] and len(t["rows"]) >= 3),
            ("DiscreteRecovery", lambda t: t["disc"] and len(t["rows"]) >= 3),
            ("RowCount", lambda t: len(t["rows"]) >= 3)]
    for clause, ok in want:
        for t in traces:
            if ok(t) and all(min(r) > ci.BAD for r in t["rows"]):
                c = copy.deepcopy(t)
                r = c["rows"][1]
                d = 50000           # 0.05 in fixed point, far above eps
                if clause == "MonotoneS":
                    r[1] = c["rows"][0][1] + d
                    r[2] = c["N"] - r[1] - r[3]
                elif clause == "Conserved":
                    r[2] += d
                elif clause == "Grid":
                    r[0] += 1000
                elif clause == "TauZero":
                    r[1] -= d
                    r[2] += d
                elif clause == "GammaZero":
                    r[3] += d
                    r[2] -= d
                elif clause == "DiscreteRecovery":
                    r[3] -= d
                    r[2] += d
                elif clause == "RowCount":
                    c["rows"] = c["rows"][:-1]
                c["_canary"] = clause
                out.append(c)
                break
    return out


def input_class(failing, exercised):
    """failing / exercised: lists of descriptor dicts (ic, flags).  -> stable text"""
    kf = sorted(set(d["ic"] for d in failing))
    ke = sorted(set(d["ic"] for d in exercised))
    if kf == ke and "rho" in kf and len(kf) > 1:
        txt = "any-IC"
    elif kf == ["explicit", "explicit+recovered"]:
        txt = "explicit"                  # explicit sets, with and without initially recovered nodes
    else:
        txt = "/".join(kf)
    pool = [d for d in exercised if d["ic"] in kf]
    for q in ("full-data", "isolated-node", "regular", "tau=0", "gamma=0", "tmin>0"):
        if all(q in d["flags"] for d in failing) and not all(q in d["flags"] for d in pool):
            txt += "," + q
    return txt


def descriptor(task):
    name, si, tau, gamma, grid, full = task
    sc = ci.SCEN[si]
    e = tb.ENTRIES[name]
    fl = set(sc.features())
    fl.add("full-data" if full else "plain")
    if tau == 0:
        fl.add("tau=0")
    if gamma == 0 and not e["disc"]:
        fl.add("gamma=0")
    if grid[0] > 0:
        fl.add("tmin>0")
    return {"ic": sc.ic, "flags": fl}


def replay_of(task, extra=None):
    name, si, tau, gamma, grid, full = task
    sc = ci.SCEN[si]
    r = {"entry": name, "tau_or_p": tau, "gamma": gamma, "grid_tmin_tmax_tcount": list(grid),
         "return_full_data": full, "scenario": sc.brief(), "spec_record": sc.d}
    if extra:
        r.update(extra)
    return r


def run_tasks(tasks):
    # odeint prints Fortran warnings on fd 2; keep the check's output readable
    sys.stdout.flush()
    sys.stderr.flush()
    saved = os.dup(2)
    dn = os.open(os.devnull, os.O_WRONLY)
    os.dup2(dn, 2)
    try:
        return pool_map(ci.run_task, tasks)
    finally:
        os.dup2(saved, 2)
        os.close(dn)
        os.close(saved)


def replay_main(path):
    """EON_VERIF_REPLAY: re-run the recorded call; exit 1 if it still fails"""
    with open(path) as fh:
        rp = json.load(fh)["replay"]
    ci.EON = common.import_eon()
    ci.SCEN[:] = [ci.Scenario(rp["spec_record"])]
    g = rp["grid_tmin_tmax_tcount"]
    task = (rp["entry"], 0, rp["tau_or_p"], rp["gamma"], (g[0], g[1], g[2]), rp["return_full_data"])
    r = ci.run_task(task)
    bad = False
    print("replay %s on %s" % (rp["entry"], rp["scenario"]))
    if r.get("machinery"):
        print("MACHINERY:", r["machinery"])
        return 2
    if r["exc"]:
        print("  exception:", r["exc"][1])
        bad = True
    for fc, what in r["problems"]:
        print("  %s: %s" % (fc, what))
        bad = True
    if r["trace"] is not None:
        rej, _ = ct.validate([r["trace"]], chunks=1, workers=1)
        for k, (row, cl) in rej.items():
            print("  trace rejected by TraceCompartmentFlow at row %d: clauses %s; rows=%s" % (row, cl, r["trace"]["rows"]))
            bad = True
    print("replay: %s" % ("still failing" if bad else "no longer failing"))
    return 1 if bad else 0


def main(argv=None):
    rp = os.environ.get("EON_VERIF_REPLAY")
    if rp:
        return replay_main(rp)
    chk = Check("C06", "model_checking")
    EoN = common.import_eon()
    ci.EON = EoN
    fam = family(chk.tier)

    # ---- the docstring table is still the docstrings --------------------------------------------
    problems, dnotes = tb.verify_docstrings(EoN)
    if problems:
        raise common.MachineryFailure("C06 entry-point table out of date: " + "; ".join(problems[:5]))
    for n_ in dnotes:
        chk.note(n_)

    t0 = time.time()
    # ---- TLC: InitCond over the whole family, CompartmentFlow exhaustive ------------------------------
    box = {}

    def _bg(key, fn, *a, **k):
        try:
            box[key] = fn(*a, **k)
        except Exception as ex:
            box[key] = ex
    import threading
    th = [threading.Thread(target=_bg, args=("all", ci.run_initcond, fam["maxn"], fam["rhos"]), kwargs={"workers": 12}),
          threading.Thread(target=_bg, args=("fix", ci.run_initcond, 2, fam["fixed_rhos"]),
                           kwargs={"fixed": FIXED, "max_inf": 1, "max_rec": 1, "workers": 4}),
          threading.Thread(target=_bg, args=("cf", ct.exhaustive_reference, 4, 3), kwargs={"workers": 2})]
    for t_ in th:
        t_.start()
    for t_ in th:
        t_.join()
    for v in box.values():
        if isinstance(v, Exception):
            raise v
    scen_all, res_a = box["all"]
    chk.add_tlc("InitCond all labelled graphs on 2..%d nodes, rho in %s" % (fam["maxn"], fam["rhos"]), res_a)
    scen_fix, res_f = box["fix"]
    chk.add_tlc("InitCond fixed graphs (4-9 nodes), <=1 infected, <=1 recovered", res_f)
    res_c = box["cf"]
    chk.add_tlc("CompartmentFlow exhaustive MaxPop=4 MaxRows=3", res_c)
    for nm, res in (("InitCond", res_a), ("InitCond(fixed)", res_f), ("CompartmentFlow", res_c)):
        if res.violation:
            chk.violation("spec|%s|%s" % (nm, res.violation[:60]), "TLC: " + res.violation, {"spec": nm})
    if res_a.coverage.get("Emit", (0, 0))[0] != len(scen_all) or res_a.distinct != 2 * len(scen_all) or not scen_all:
        raise common.MachineryFailure("InitCond emitted %d scenarios, coverage says %r" % (len(scen_all), res_a.coverage.get("Emit")))
    if res_c.coverage.get("Flow", (0, 0))[0] == 0:
        raise common.MachineryFailure("vacuous CompartmentFlow run: Flow never taken")
    classes = {"isolated-node": 0, "connected-no-isolated": 0, "explicit": 0, "explicit+recovered": 0, "rho": 0}
    for sc in scen_all:
        classes[sc.ic] += 1
        classes["isolated-node" if "isolated-node" in sc.features() else "connected-no-isolated"] += 1
    for k, v in classes.items():
        if v == 0:
            raise common.MachineryFailure("vacuous family: no emitted scenario of class %s" % k)
    chk.part("InitCond family", scenarios=len(scen_all), **{k.replace("-", "_").replace("+", "_"): v for k, v in classes.items()})

    ci.SCEN[:] = scen_all + scen_fix
    nall = len(scen_all)
    if fam["all_labelled"]:
        sel_a = list(range(nall))
    else:
        seen = {}
        for i, sc in enumerate(scen_all):
            if sc.n <= 3:
                seen[("lab", i)] = i            # every labelled scenario on <= 3 nodes
            else:
                seen.setdefault(sc.canon(), i)  # one labelled representative per isomorphism class on 4 nodes
        sel_a = sorted(seen.values())
    sel_b = pick_fixed([(nall + j, sc) for j, sc in enumerate(scen_fix)], fam["per_graph"])
    chk.part("replayed scenarios", part_a=len(sel_a), part_b=len(sel_b), emitted=len(ci.SCEN))

    ta, tbb = tasks_part_a(sel_a), tasks_part_b(sel_b, fam["rates"])
    tasks = ta + tbb
    t1 = time.time()
    results = run_tasks(tasks)
    t2 = time.time()
    print("C06: TLC (InitCond x2, CompartmentFlow) %.0fs; %d + %d calls into the code %.0fs" % (t1 - t0, len(ta), len(tbb), t2 - t1))

    # ---- collect -------------------------------------------------------------------------------------
    exercised = {}
    fails = {}          # (entry, failure class) -> list of (task index, text)
    traces, trace_task = [], []
    entries_called = set()
    noted = set()
    for ti, (task, r) in enumerate(zip(tasks, results)):
        name = task[0]
        if r.get("machinery"):
            raise common.MachineryFailure(r["machinery"])
        entries_called.add(name)
        exercised.setdefault(name, []).append(descriptor(task))
        chk.cov["evaluations"] += 1
        if r["exc"]:
            fails.setdefault((name, "exception:" + r["exc"][0]), []).append((ti, r["exc"][1]))
            continue
        for fc, what in r["problems"]:
            fails.setdefault((name, fc), []).append((ti, what))
        for nk, n_ in r["notes"]:
            if nk not in noted:
                noted.add(nk)
                chk.note(n_)
        if r["trace"] is not None:
            traces.append(r["trace"])
            trace_task.append(ti)
    missing = sorted(set(tb.ENTRIES) - entries_called)
    if missing:
        raise common.MachineryFailure("entry points never called: %s" % missing)

    # ---- TLC: batched trace validation --------------------------------------------------------------------
    can = canaries(traces)
    batch = traces + can
    rejects, tres = ct.validate(batch, chunks=2, workers=8)
    agg = tlc.TLCResult()
    for r_ in tres:
        agg.distinct += r_.distinct
        agg.generated += r_.generated
        agg.wall = max(agg.wall, r_.wall)
        for k, v in r_.coverage.items():
            a = agg.coverage.get(k, (0, 0))
            agg.coverage[k] = (a[0] + v[0], a[1] + v[1])
    chk.add_tlc("TraceCompartmentFlow %d traces in %d concurrent TLC runs" % (len(batch), len(tres)), agg)
    print("C06: %d traces validated by TLC in %.0fs" % (len(batch), time.time() - t2))
    for a in ("Step", "Done"):
        if agg.coverage.get(a, (0, 0))[0] == 0:
            raise common.MachineryFailure("vacuous trace validation: %s never taken" % a)
    for j, c in enumerate(can):
        k = len(traces) + j
        if k not in rejects or c["_canary"] not in rejects[k][1]:
            raise common.MachineryFailure("the monitor did not reject the corrupted trace for clause %s (got %r)"
                                          % (c["_canary"], rejects.get(k)))
    need = {"sir": 0, "sis": 0, "disc": 0, "tau0": 0, "gam0": 0}
    for t in traces:
        need["sir" if t["sir"] else "sis"] += 1
        need["disc"] += 1 if t["disc"] else 0
        need["tau0"] += 1 if t["tau0"] else 0
        need["gam0"] += 1 if t["gam0"] else 0
    for k, v in need.items():
        if v == 0:
            raise common.MachineryFailure("vacuous trace family: no %s trace" % k)
    chk.part("traces", total=len(traces), canaries_rejected=len(can), rows=agg.coverage.get("Step", (0, 0))[0],
             rejected=sum(1 for k in rejects if k < len(traces)), **need)
    chk.cov["traces_validated_against_impl"] = len(traces)
    nontriv = set()
    for t, ti in zip(traces, trace_task):
        if t["_moved"]:
            nontriv.add(tasks[ti][:5])
    chk.cov["distinct_nontrivial"] = len(nontriv)
    for k, (row, cl) in sorted(rejects.items()):
        if k >= len(traces):
            continue
        ti = trace_task[k]
        t = traces[k]
        nan = any(min(r) <= ci.BAD for r in t["rows"])
        fc = "trace:non-finite" if nan else "trace:" + "+".join(cl)
        lo = max(0, row - 2)
        fails.setdefault((tasks[ti][0], fc), []).append(
            (ti, "%s: returned (t,S,I,R) rejected by TraceCompartmentFlow at row %d (1-based), failed clause(s) %s; "
                 "rows %d..%d in fixed point 1e-6: %s%s"
             % (tasks[ti][0], row, cl, lo + 1, row, t["rows"][lo:row],
                " [%d = non-finite or out of range]" % ci.BAD if nan else "")))

    # ---- verdicts --------------------------------------------------------------------------------------------------
    for (name, fc), occ in sorted(fails.items()):
        failing = [descriptor(tasks[ti]) for ti, _ in occ]
        icl = input_class(failing, exercised[name])
        key = "%s|%s|%s" % (name, fc, icl)
        first = min(occ, key=lambda o: (ci.SCEN[tasks[o[0]][1]].n, len(ci.SCEN[tasks[o[0]][1]].edges), o[0]))
        for j in range(len(occ)):
            chk.violation(key, first[1] + "  [scenario: %s; rates %s/%s; grid %s]"
                          % (ci.SCEN[tasks[first[0]][1]].brief(), tasks[first[0]][2], tasks[first[0]][3], tasks[first[0]][4]),
                          replay_of(tasks[first[0]], {"call": results[first[0]].get("call")}))
    ok = [t for t, r in zip(tasks, results) if not r["exc"] and not r["problems"]]
    if ok:
        for t in (ok[0], ok[len(ok) // 2], ok[-1]):
            chk.sample({"entry": t[0], "scenario": ci.SCEN[t[1]].brief(), "tau_or_p": t[2], "gamma": t[3], "grid": t[4],
                        "return_full_data": t[5]})
    if traces:
        t = traces[len(traces) // 2]
        chk.sample({"trace": {k: v for k, v in t.items() if not k.startswith("_")}})
    chk.part("entry points", table=len(tb.ENTRIES), called=len(entries_called), calls=len(tasks))
    chk.assumptions += [
        "node labels 0..n-1 in natural order (label/ordering dependence is property C14)",
        "pair series XY/XX are compared on adjacent pairs only",
        "degree-indexed series may use the dense 0..kmax layout or the observed-degree layout (decided by length)",
        "tolerances: explicit sets 1e-12 relative (integers up to float rounding), rho 1e-9; traces eps = 1e-6*N + 2e-6",
        "times are compared by the monitor at 1e-6 and additionally in Python against numpy.linspace at 1e-12",
    ]
    rule = ("(a) every scenario emitted by TLC from InitCond (quick: all labelled scenarios on <=3 nodes and one per isomorphism class on "
            "4 nodes; thorough: all labelled) x every applicable entry point x return_full_data on/off is one evaluation whose index-0 "
            "values are compared with the emitted expectation; (b) scenarios on the fixed 4-6 node graphs x rates incl. 0 x 2 time grids; "
            "every call that returns is one trace validated by TLC; non-trivial = distinct (entry, scenario, rates, grid) whose S or I "
            "moves by more than 1e-6 between first and last row")
    return chk.finish(rule, exhaustive=False,
                      explanation="InitCond is checked exhaustively by TLC for graphs <= 4 nodes; the replay into the code covers the "
                                  "emitted domain (quick: up to isomorphism on 4 nodes); CompartmentFlow is a monitor: the quantification "
                                  "over inputs of part (b) comes from the scenario generator, not from TLC")


if __name__ == "__main__":
    common.run_main(main)

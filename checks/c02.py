"""C02 - Markovian SIS simulators sample the exact network SIS process."""
from harness import common
from checks import c01


def main():
    return c01.main(sis=True)


if __name__ == "__main__":
    common.run_main(main)

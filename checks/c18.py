"""C18 - simulations are reproducible from the random seeds."""
import json
import os
import subprocess
import sys

from harness import common, tlc, simruns, c18_worker, observe
from harness.common import Check
from harness.scripted import explore, run_scripted
from checks import c19

HASHSEEDS = ["0", "1", "2", "3", "random"]
CONT = simruns.SIR_CONT + simruns.SIS_CONT + ["nonMarkov_fixed_delays_SIS", "nonMarkov_fixed_delays_SIR", "simple_contagion_tuple_statuses", "simple_contagion_many_statuses", "simple_contagion_directed",
                                               "fast_SIR+R0", "Gillespie_SIR+R0", "fast_nonMarkov_SIR+R0",
                                               "fast_SIR+R0default", "fast_nonMarkov_SIR+R0default", "Gillespie_SIR+R0default"]


def worker(tier, seed, hs):
    env = dict(os.environ)
    env["PYTHONHASHSEED"] = hs
    p = subprocess.run([sys.executable, "-W", "ignore", os.path.join(common.VERIF, "harness", "c18_worker.py"), tier, str(seed)],
                       env=env, stdout=subprocess.PIPE, stderr=subprocess.PIPE, text=True, timeout=1500)
    for ln in p.stdout.split("\n"):
        if ln.startswith("C18RESULT "):
            return {int(k): v for k, v in json.loads(ln[10:]).items()}
    raise common.MachineryFailure("C18 worker (PYTHONHASHSEED=%s) produced no result: %s" % (hs, p.stderr[-800:]))


def tape_part(chk, EoN):
    """under the scripted source every draw is accounted for: re-executing a script reproduces tape and result"""
    import networkx as nx
    G = nx.Graph()
    nm = c18_worker.names(4)
    G.add_edges_from([(nm[0], nm[1]), (nm[1], nm[2]), (nm[2], nm[3]), (nm[3], nm[0]), (nm[0], nm[2])])
    sims = {
        "Gillespie_SIR": lambda full: EoN.Gillespie_SIR(G, 1.0, 1.0, initial_infecteds=[nm[0]], return_full_data=full),
        "Gillespie_SIS": lambda full: EoN.Gillespie_SIS(G, 1.0, 1.0, initial_infecteds=[nm[0]], tmax=3.5, return_full_data=full),
        "fast_SIR": lambda full: EoN.fast_SIR(G, 1.0, 1.0, initial_infecteds=[nm[0]], return_full_data=full),
        "fast_SIS": lambda full: EoN.fast_SIS(G, 1.0, 1.0, initial_infecteds=[nm[0]], tmax=2.5, return_full_data=full),
        "basic_discrete_SIR": lambda full: EoN.basic_discrete_SIR(G, 0.5, initial_infecteds=[nm[0]], return_full_data=full),
        "basic_discrete_SIS": lambda full: EoN.basic_discrete_SIS(G, 0.5, initial_infecteds=[nm[0]], tmax=2, return_full_data=full),
    }
    for name, f in sims.items():
        def proj(full, f=f):
            r = f(full)
            if full:
                return tuple((u, tuple(r.node_history(u)[0]), tuple(r.node_history(u)[1])) for u in nm)
            return tuple(tuple(map(float, a)) for a in r)
        for full in (False, True):
            leaves = explore(lambda: proj(full), max_leaves=300, on_leaf=(lambda l, c=[0]: c.__setitem__(0, c[0] + 1) or c[0] >= 120))
            n = 0
            for l in list(leaves)[:60]:
                if l.loop is not None or l.error is not None:
                    continue
                again = run_scripted(lambda: proj(full), l.script)
                n += 1
                chk.cov["evaluations"] += 2
                if again.error is not None or again.result != l.result or observe.tape_signature(again.tape) != observe.tape_signature(l.tape):
                    chk.violation("%s|hidden-nondeterminism|scripted-source" % name,
                                  "re-executing the same script of draws gave a different tape or result (a source of randomness other than random / numpy.random, or order depending on hashing)",
                                  {"simulator": name, "script": l.script})
                    break
                # the draws do not depend on return_full_data (continuous-time simulators)
                if name in ("Gillespie_SIR", "Gillespie_SIS", "fast_SIR", "fast_SIS"):
                    other = run_scripted(lambda: proj(not full), l.script)
                    if other.error is None and observe.tape_signature(other.tape) != observe.tape_signature(l.tape):
                        chk.violation("%s|draws-depend-on-return-mode|scripted-source" % name,
                                      "the same script is consumed differently with return_full_data=%s" % (not full), {"simulator": name, "script": l.script})
                        break
            chk.part("scripted re-execution", **{name: n})


def main():
    chk = Check("C18", "exploration")
    EoN = common.import_eon()
    mres = tlc.run_tlc("ApiFrame", c19.MC_CFG, workers=4, coverage=True, timeout=600)
    chk.add_tlc("ApiFrame (a seeded call is a deterministic function of its arguments and the seed)", mres)
    scn = c18_worker.scenario_list(chk.tier, chk.seed)
    # in-process (this interpreter runs with PYTHONHASHSEED=0 through ./check) + other hash seeds in subprocesses
    results = {}
    from concurrent.futures import ThreadPoolExecutor
    with ThreadPoolExecutor(max_workers=5) as ex:
        futs = {hs: ex.submit(worker, chk.tier, chk.seed, hs) for hs in HASHSEEDS}
        for hs, f in futs.items():
            results[hs] = f.result()
    tab = c19.Table()
    traces = []
    meaning = {}
    for sc in scn:
        sid = sc["id"]
        base = results["0"][sid]
        rows = []
        what = []

        def add(val, label):
            rows.append({"result": tab(val) if not str(val).startswith("raised:") else 0, "env": {"args": 1, "seed": 1}})
            what.append(label)
        for mode in ("arrays", "full"):
            # one trace per (scenario, mode): first run, in-process repeat, (flag independence), other hash seeds
            rows, what = [], []
            add(base[mode], "first seeded call")
            add(base[mode + ":repeat"], "repeated seeded call in the same process")
            if mode + ":after-abort" in base:
                add(base[mode + ":after-abort"], "repeated seeded call after another run was aborted by an exception")
            if mode + ":same-objects" in base:
                add(base[mode + ":same-objects"], "the same seeded call made on the very argument objects (graph, model graphs, IC dict, initial lists) an earlier call with another seed was given")
            if mode + ":fresh-graph" in base:
                add(base[mode + ":fresh-graph"], "the same seeded call on a freshly built equal graph (the first graph object had been simulated on before its weights were edited in place)")
            if sc["sim"] in CONT:
                for hs in HASHSEEDS[1:]:
                    add(results[hs][sid][mode], "PYTHONHASHSEED=%s" % hs)
            tid = sid * 10 + (0 if mode == "arrays" else 1)
            traces.append({"id": tid, "det": True, "env0": {"args": 1, "seed": 1}, "rows": rows})
            meaning[tid] = (sc, mode, what)
            if mode + ":hidden" in base:
                chk.violation("%s|entropy-source|%s" % (sc["sim"], base[mode + ":hidden"]), "the simulator requested entropy from %s" % base[mode + ":hidden"], {"scenario": sc})
        # flag independence: the arrays implied by the full-data object equal the arrays of the plain call
        # (not for the fixed-latency scenarios: a summary merges simultaneous events into one row)
        if sc["sim"] in CONT and not sc["sim"].startswith("nonMarkov_fixed_delays"):
            tid = sid * 10 + 2
            traces.append({"id": tid, "det": True, "env0": {"args": 1, "seed": 1},
                           "rows": [{"result": tab(base["arrays:arrays"]), "env": {"args": 1, "seed": 1}},
                                    {"result": tab(base["full:arrays"]), "env": {"args": 1, "seed": 1}}]})
            meaning[tid] = (sc, "flag", ["arrays of return_full_data=False", "summary of return_full_data=True"])
    res = tlc.run_tlc("TraceApiFrame", c19.TRACE_CFG, workers=1, coverage=True, timeout=1800,
                      files=[("c19_traces.json", json.dumps(traces))], env={"C19_TRACES": "c19_traces.json"})
    chk.add_tlc("TraceApiFrame: %d reproducibility traces" % len(traces), res)
    head = res.printed("TRACES")
    if not head or head[0][1] != len(traces):
        raise common.MachineryFailure("TLC read %r traces, %d written" % (head, len(traces)))
    rejected = {}
    for r in res.printed("REJECT"):
        rejected.setdefault(r[1], []).append((r[2], sorted(r[3]["__set__"])))
    un = res.printed("UNEXPLAINED")
    if not un or un[0][1]["__set__"]:
        raise common.MachineryFailure("traces neither accepted nor explained: %r" % (un,))
    for t in traces:
        chk.cov["evaluations"] += len(t["rows"])
        if t["id"] not in rejected:
            chk.cov["traces_validated_against_impl"] += 1
            chk.cov["distinct_nontrivial"] += 1
            continue
        sc, mode, what = meaning[t["id"]]
        for (row, clauses) in rejected[t["id"]]:
            chk.violation("%s|%s|%s" % (sc["sim"], "+".join(clauses), what[row - 1].split("=")[0] if mode != "flag" else "return-mode"),
                          "%s (%s): result of '%s' differs from the first seeded call (or the call raised)" % (sc["sim"], mode, what[row - 1]),
                          {"scenario": sc, "mode": mode, "row": what[row - 1]})
    tape_part(chk, EoN)
    chk.sample({"scenario": scn[0], "rows": meaning[0][2], "fingerprints": results["0"][0]})
    chk.assumptions.append("repeat and cross-hash-seed rows are code-vs-code comparisons: the specification supplies the determinism claim (ApiFrame with the seed as part of the environment), not the expected bytes")
    rule = ("trace = one simulator x scenario (graphs with string node names, weights on/off, string and tuple statuses) x return mode: fingerprints of the output of the first seeded call, of a repeated "
            "seeded call in the same process and - for the continuous-time simulators - of the same call in interpreters started with PYTHONHASHSEED 1, 2, 3 and random; a further trace compares the arrays "
            "implied by the full-data object with the plain arrays; TLC accepts a trace iff it is a behaviour of ApiFrame with the seed in the environment (all results equal); plus re-execution of scripted "
            "draw sequences (same script => same tape and result; same tape with either return mode)")
    return chk.finish(rule, exhaustive=False)


if __name__ == "__main__":
    common.run_main(main)

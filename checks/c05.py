"""C05 - requested initial conditions are what the simulation starts from
(InitRequest.tla / TraceInit.tla; CheckInit.tla exhaustive on the request semantics)."""
import itertools
import json
import os

from harness import common, simruns, tracecheck, tlc
from harness.common import Check, pool_map

_G = {}
POSITIONAL = ("fast_SIR", "Gillespie_SIR", "fast_SIS", "Gillespie_SIS", "basic_discrete_SIR",
              "percolation_based_discrete_SIR", "basic_discrete_SIS")
IC_ONLY = ("simple_contagion_SIR", "simple_contagion_SIS", "complex_contagion_SIR")


def styles_for(inf):
    """ways of naming the same set of nodes (graph labels are 0..n-1)"""
    import numpy as np
    lab = sorted(u - 1 for u in inf)
    out = [("list", list(lab)), ("tuple", tuple(lab)), ("set", set(lab)), ("array", np.array(lab)),
           ("reversed-list", list(reversed(lab)))]
    if lab == list(range(lab[0], lab[0] + len(lab))):
        out.append(("range", range(lab[0], lab[0] + len(lab))))
    if len(lab) == 1:
        out.append(("node", lab[0]))
    # a list may name a node twice: it still names the same set of nodes
    out.append(("list-with-repeat", list(lab) + [lab[0]]))
    # "iterable of nodes": a one-shot iterable (made afresh for every call, see _record)
    out.append(("generator", list(lab)))
    return out


def scenarios(tier, seed):
    graphs = [(2, [(1, 2)]), (3, [(1, 2), (2, 3)]), (4, [(1, 2), (2, 3), (3, 4), (4, 1), (1, 3)]),
              (5, [(1, 2), (1, 3), (1, 4), (2, 5)]), (6, [(1, 2), (2, 3), (3, 4), (5, 6)])]
    if tier != "quick":
        graphs += [(n, e) for n, e in simruns.graph_family(seed, 6, max_n=8) if n >= 3]
    out = []
    for (n, edges) in graphs:
        nodes = list(range(1, n + 1))
        # explicit requests: every disjoint pair on <=4 nodes, a sample beyond
        pairs = []
        for k in range(1, min(n, 3) + 1):
            for inf in itertools.combinations(nodes, k):
                rest = [u for u in nodes if u not in inf]
                pairs.append((inf, ()))
                for r in range(1, min(len(rest), 2) + 1):
                    for rec in itertools.combinations(rest, r):
                        pairs.append((inf, rec))
        if n > 4 or tier == "quick":
            pairs = pairs[:: (3 if n <= 3 else 7)]
        for sim in simruns.ALL:
            for tmin in (0, 3):
                base = {"sim": sim, "n": n, "edges": edges, "tmin": tmin, "tau": 1.0, "gamma": 1.0, "p": 0.5,
                        "tmax": (None if simruns.kind_of(sim) == "SIR" else tmin + 4)}
                for (inf, rec) in pairs:
                    if rec and not simruns.supports_R0(sim):
                        continue
                    sts = styles_for(inf) if sim not in IC_ONLY else [("ic-dict", sorted(u - 1 for u in inf))]
                    if tmin == 3:
                        sts = sts[:1]
                    for (sname, val) in sts:
                        out.append(dict(base, mode="explicit", inf=list(inf), rec=list(rec), style=sname, val=val, a=0, b=1))
                        if sname == "list" and sim in POSITIONAL and tmin == 0:
                            out.append(dict(base, mode="explicit", inf=list(inf), rec=list(rec), style="positional", val=val, a=0, b=1))
                if sim in IC_ONLY:
                    continue
                # the same requests on the other code paths of a simulator: weight options, a zero rate, a start time of
                # large magnitude (events follow within a relatively tiny delay)
                if tmin == 0:
                    for vi, var in enumerate(({"weighted": True}, {"tau": 0.0}, {"gamma": 0.0}, {"tmin": 1.0e6, "tau": 4.0}, {"tmin": -2.5e5, "gamma": 4.0})):
                        if "weighted" in var and not simruns.supports_weights(sim):
                            continue
                        if simruns.is_discrete(sim) and ("tau" in var or "gamma" in var) and "tmin" not in var:
                            continue
                        b2 = dict(base, **var)
                        if b2["tmax"] is not None:
                            b2["tmax"] = b2["tmin"] + 4
                        for (inf, rec) in pairs[vi::5][:6]:
                            if rec and not simruns.supports_R0(sim):
                                continue
                            out.append(dict(b2, mode="explicit", inf=list(inf), rec=list(rec), style="list", val=sorted(u - 1 for u in inf), a=0, b=1,
                                            variant="+".join(sorted(var))))
                for (a, b) in ((1, 4), (1, 2), (3, 4), (1, n), (1, 8), (0, 1)):      # rho = 0: nobody
                    out.append(dict(base, mode="rho", inf=[], rec=[], style="rho", val=None, a=a, b=b))
                out.append(dict(base, mode="default", inf=[], rec=[], style="default", val=None, a=0, b=1))
                if simruns.supports_R0(sim) and n >= 3:
                    # the index case is left to the simulator while some nodes start recovered (several seeds:
                    # the choice must fall on a node that is not recovered)
                    for rep in range(4):
                        out.append(dict(base, mode="default", inf=[], rec=[1, n], style="default+recovereds-%d" % rep, val=None, a=0, b=1))
                    if sim not in ("fast_SIR", "fast_nonMarkov_SIR"):      # those two document that rho excludes initial_recovereds
                        out.append(dict(base, mode="rho", inf=[], rec=[2], style="rho+recovereds", val=None, a=1, b=2))
                if tmin == 0:
                    for (sname, val) in (("node-0", 0), ("list", [1]), ("node", n - 1)):
                        out.append(dict(base, mode="both", inf=[], rec=[], style=sname, val=val, a=1, b=2))
    return out


def _record(i):
    sc = _G["scn"][i]
    EoN = _G["EoN"]
    n = sc["n"]
    G = simruns.make_graph(n, sc["edges"], shift=-1)
    kind = simruns.kind_of(sc["sim"])
    ikw = {}
    if sc["mode"] in ("explicit", "both"):
        ikw["initial_infecteds"] = sc["val"]
    if sc["rec"]:
        ikw["initial_recovereds"] = [u - 1 for u in sc["rec"]]
    if sc["mode"] in ("rho", "both"):
        ikw["rho"] = sc["a"] / sc["b"]
    call = {"tau": sc["tau"], "gamma": sc["gamma"], "p": sc["p"], "tmin": sc["tmin"], "tmax": sc["tmax"],
            "init_kw": ikw, "positional": sc["style"] == "positional", "weighted": bool(sc.get("weighted"))}
    if sc["sim"] in IC_ONLY:
        call["init_kw"] = {"initial_infecteds": sc["val"], "initial_recovereds": [u - 1 for u in sc["rec"]]}
    tr = {"sim": sc["sim"], "n": n, "mode": sc["mode"], "inf": sc["inf"], "rec": sc["rec"], "a": sc["a"], "b": sc["b"],
          "has_st": 0, "has_row": 0, "st0": [], "row0": [], "t0": 0, "ever_infected": [], "hist_start": 0, "outcome": "ok",
          "scn": i, "style": sc["style"]}
    outcomes = []
    for full in (False, True):
        simruns.seed_all(1000 + i)
        try:
            if sc["style"] == "generator":
                call = dict(call, init_kw=dict(call["init_kw"], initial_infecteds=(x for x in sc["val"])))
            r = simruns.call_sim(EoN, sc["sim"], G, call, full)
        except EoN.EoNError as ex:
            outcomes.append("EoNError")
            continue
        except Exception as ex:
            outcomes.append("other:%s" % type(ex).__name__)
            tr["error"] = repr(ex)
            continue
        outcomes.append("ok")
        if not full:
            arrs = [list(a) for a in r]
            tr["has_row"] = 1
            row = [int(a[0]) if len(a) else -1 for a in arrs[1:]]
            while len(row) < 3:
                row.append(0)
            tr["row0"] = row
            tr["t0"] = 1 if (len(arrs[0]) and float(arrs[0][0]) == float(sc["tmin"])) else 0
        else:
            if not hasattr(r, "get_statuses"):
                outcomes[-1] = "other:no-full-data-object"
                continue
            st = r.get_statuses(time=sc["tmin"])
            tr["has_st"] = 1
            tr["st0"] = [st[u] for u in range(n)]
            hs = [r.node_history(u) for u in range(n)]
            tr["hist_start"] = 1 if all(len(h[0]) > 0 and float(h[0][0]) == float(sc["tmin"]) for h in hs) else 0
            tr["ever_infected"] = [u + 1 for u in range(n) if "I" in list(hs[u][1])]
            tr["first_entries"] = [[float(h[0][0]), h[1][0]] if len(h[0]) else None for h in hs]
    if all(o == "ok" for o in outcomes):
        tr["outcome"] = "ok"
    elif all(o == "EoNError" for o in outcomes):
        tr["outcome"] = "EoNError"
    else:
        tr["outcome"] = "/".join(outcomes)
    return tr


def _wrapper_equiv(i):
    """basic_discrete_SIR(G,p,X) must start (and, with the same seeds, be) the same epidemic as discrete_SIR"""
    sc = _G["scn"][i]
    EoN = _G["EoN"]
    G = simruns.make_graph(sc["n"], sc["edges"], shift=-1)
    ii = [u - 1 for u in sc["inf"]]
    rr = [u - 1 for u in sc["rec"]]
    simruns.seed_all(77 + i)
    try:
        a = EoN.basic_discrete_SIR(G, 0.5, initial_infecteds=ii, initial_recovereds=rr, tmin=sc["tmin"])
        simruns.seed_all(77 + i)
        b = EoN.discrete_SIR(G, args=(0.5,), initial_infecteds=ii, initial_recovereds=rr, tmin=sc["tmin"])
    except Exception as ex:
        return "exception %r" % (ex,)
    a = [list(map(float, x)) for x in a]
    b = [list(map(float, x)) for x in b]
    return None if a == b else "basic_discrete_SIR %r vs discrete_SIR %r" % (a, b)


def main():
    chk = Check("C05", "model_checking")
    EoN = common.import_eon()
    cres = tlc.run_tlc("CheckInit", tlc.cfg_text({"MaxN": 4 if chk.tier == "quick" else 5, "Dens": {1, 2, 3, 4, 8}},
                                                invariants=["RoundOK", "RowSums", "RhoSatisfiable"]), workers=8)
    chk.add_tlc("CheckInit: request semantics on every request with N<=MaxN", cres)
    if cres.violation:
        chk.violation("spec|CheckInit|" + cres.violation[:60], "TLC: " + cres.violation, {})
    rp = os.environ.get("EON_VERIF_REPLAY")
    scn = [json.load(open(rp))["replay"]["scenario"]] if rp else scenarios(chk.tier, chk.seed)
    _G.update(EoN=EoN, scn=scn)
    traces = pool_map(_record, range(len(scn)))
    acc, res, diags = tracecheck.validate("TraceInit", traces)
    chk.add_tlc("TraceInit: %d calls" % len(traces), res)
    if res.violation:
        chk.violation("spec|TraceInit|" + res.violation[:60], "TLC: " + res.violation, {})
    for j, t in enumerate(traces):
        chk.cov["evaluations"] += 2
        if j in acc:
            chk.cov["traces_validated_against_impl"] += 1
            if t["mode"] != "default":
                chk.cov["distinct_nontrivial"] += 1
            continue
        clause, detail = tracecheck.failing_clause(diags.get(j))
        sc = scn[j]
        cls = sc["mode"] + ("+initial-recovereds" if sc["rec"] else "") + ("/" + sc["style"] if sc["mode"] in ("both",) or sc["style"] == "positional" else "") + ("," + sc["variant"] if sc.get("variant") else "")
        chk.violation("%s|%s|%s" % (t["sim"], clause, cls),
                      "call rejected by TraceInit (%s): outcome %r row0 %r statuses at tmin %r first history entries %r; request %r"
                      % (detail, t["outcome"], t["row0"], t["st0"], t.get("first_entries"),
                         {k: sc[k] for k in ("mode", "inf", "rec", "style", "a", "b", "tmin")}),
                      {"scenario": sc, "trace": t})
    # wrapper equivalence under identical seeds
    idx = [i for i, s in enumerate(scn) if s["sim"] == "basic_discrete_SIR" and s["mode"] == "explicit" and s["style"] == "list"]
    for i, r in zip(idx, pool_map(_wrapper_equiv, idx)):
        chk.cov["evaluations"] += 2
        if r is not None:
            chk.violation("basic_discrete_SIR|differs-from-discrete_SIR-with-default-rule|" + ("initial-recovereds" if scn[i]["rec"] else "plain"),
                          r, {"scenario": scn[i]})
    chk.sample({k: v for k, v in traces[len(traces) // 2].items()})
    chk.assumptions.append("wrapper equivalence (basic_discrete_SIR vs discrete_SIR) is a same-seed comparison of two runs of the code; each run is also validated against InitRequest")
    rule = ("trace = one call of one simulator (13 entry points, both return modes) with one way of giving the initial condition: every disjoint (infected, recovered) pair on small graphs "
            "passed as list/tuple/set/array/range/single node/positional, rho in {1/4,1/2,3/4,1/N,1/8}, neither, and both (must raise EoNError, incl. node 0); graph labels 0..n-1; "
            "validated by TLC against InitRequest: outcome, row 0, statuses at tmin, histories start at tmin, initially recovered never infected; non-trivial = not the default request")
    return chk.finish(rule, exhaustive=False)


if __name__ == "__main__":
    common.run_main(main)

"""C09 - recorded transmissions are causally valid and complete (TraceTrans.tla)."""
import json
import math
import os
import random as pyrandom

from harness import common, simruns, tracecheck, event_scn, event_sir, contagion
from harness.common import Check, pool_map

_G = {}
SIMS = [s for s in simruns.ALL if s != "complex_contagion_SIR"] + [simruns.RULE_SIM]


def scenarios(tier, seed):
    fam = simruns.graph_family(seed, 60 if tier == "quick" else 150, max_n=12 if tier == "quick" else 14)
    out = []
    seeds = [1, 2] if tier == "quick" else [1, 2, 3, 4]
    for gi, (n, edges) in enumerate(fam):
        if n < 2:
            continue
        for sim in SIMS:
            kind = simruns.kind_of(sim)
            for (tau, gamma) in ((1.0, 1.0), (3.0, 0.5)):
                for s in seeds:
                    ik = {"initial_infecteds": [1, n] if s % 2 == 0 else [1]}
                    if n >= 4 and simruns.supports_R0(sim) and s % 2 == 0:
                        ik["initial_recovereds"] = [2]
                    out.append({"type": "sim", "sim": sim, "n": n, "edges": edges, "weights": None, "tau": tau, "gamma": gamma,
                                "p": 0.6, "tmin": 0 if s % 2 else 3, "tmax": (None if kind == "SIR" else (4 if s % 2 else 7)),
                                "init_kw": ik, "weighted": False, "seed": s * 104729 + gi})
                    if simruns.is_discrete(sim) and kind == "SIR" and tau == 1.0:
                        # a finite horizon that falls on the step grid: the last generation is both counted and recorded
                        out.append({"type": "sim", "sim": sim, "n": n, "edges": edges, "weights": None, "tau": tau, "gamma": gamma,
                                    "p": 0.8, "tmin": 0 if s % 2 else 3, "tmax": (0 if s % 2 else 3) + 1 + (gi + s) % 3,
                                    "init_kw": ik, "weighted": False, "seed": s * 104729 + gi + 17})
    # tie-heavy event-driven scenarios (zero delays, simultaneous events)
    for sc in event_scn.sir_scenarios(seed, 4000 if tier == "quick" else 10000, exhaustive2=False):
        out.append({"type": "ties", "scn": sc})
    # generic models on directed and undirected graphs
    rng = pyrandom.Random(seed + 99)
    for k in range(2000 if tier == "quick" else 5000):
        mname = rng.choice(sorted(contagion.MODELS))
        sts, sp, ind = contagion.MODELS[mname]
        n = rng.randint(3, 6)
        directed = rng.random() < 0.5
        adj = [[0] * n for _ in range(n)]
        for u in range(n):
            for v in range(n):
                if u != v and rng.random() < 0.4:
                    adj[u][v] = 1
                    if not directed:
                        adj[v][u] = 1
        if not directed:
            for u in range(n):
                for v in range(u):
                    adj[u][v] = adj[v][u]
        out.append({"type": "model", "model": mname, "n": n, "adj": adj, "directed": directed,
                    "ic": [rng.choice(sts) for _ in range(n)], "seed": k, "tmax": 3.0})
    return out


def _adj(n, edges):
    a = [[0] * n for _ in range(n)]
    for (u, v) in edges:
        a[u - 1][v - 1] = a[v - 1][u - 1] = 1
    return a


def _trace(hist, trans, tree, n, adj, kind, disc, tmin, spont, induced, req=None):
    """req: requested initial statuses.  The continuous-time SIR simulators collapse what happens to a
    node AT tmin into its first history entry (an initially infected node of duration 0 reads
    ([tmin],['R']); a node infected at tmin through a zero delay reads ([tmin],['I'])); the change the
    first entry implies w.r.t. the request is made explicit so that it can be matched and judged."""
    nodes = list(range(1, n + 1))
    ch = []
    for u in nodes:
        ts, ss = hist[u]
        if req is not None and len(ts) and ss[0] != req[u - 1] and ts[0] == tmin:
            r0 = req[u - 1]
            if r0 == "S" and ss[0] == "R":
                ch.append([ts[0], u, "S", "I"])
                ch.append([ts[0], u, "I", "R"])
            else:
                ch.append([ts[0], u, r0, ss[0]])
        for k in range(1, len(ts)):
            ch.append([ts[k], u, ss[k - 1], ss[k]])
    ch.sort(key=lambda c: c[0])
    if disc:
        def enc(t):
            d = t - tmin
            return int(d) + 2 if d == int(d) and d >= -1 else 999999
    else:
        allt = [c[0] for c in ch] + [t for (t, u, v) in trans] + [t for (u, v, t) in tree] + [tmin]
        rk = simruns.rank_times(allt)
        enc = lambda t: rk[t]
    return {"n": n, "adj": adj, "kind": kind, "disc": 1 if disc else 0, "infected_status": "I",
            "spont": spont, "induced": induced,
            "init": list(req) if req is not None else [hist[u][1][0] for u in nodes],
            "changes": [[enc(c[0]), c[1], c[2], c[3]] for c in ch],
            "trans": [[enc(t), 0 if u is None else u, v] for (t, u, v) in trans],
            "tree": [[u, v, enc(t)] for (u, v, t) in tree]}


def _record(i):
    sc = _G["scn"][i]
    EoN = _G["EoN"]
    try:
        if sc["type"] == "sim":
            G = simruns.make_graph(sc["n"], sc["edges"])
            sim = sc["sim"]
            kind = simruns.kind_of(sim)
            simruns.seed_all(sc["seed"])
            r = simruns.call_sim(EoN, sim, G, sc, True)
            obs = simruns.observe_full(r, G)
            if obs["trans"] is None:
                return {"error": "transmissions()/transmission_tree() raised %s" % obs["tree"], "etype": "no-transmissions"}
            if obs.get("tree_changed"):
                return {"error": "transmission_tree() called again after the caller pruned the graph it had been handed returns %d edge(s) where the first call returned %d"
                                 % (obs["tree_changed"][1], obs["tree_changed"][0]), "etype": "tree-served-from-a-graph-the-caller-owns"}
            tr = _trace(obs["hist"], obs["trans"], obs["tree"], sc["n"], _adj(sc["n"], sc["edges"]), kind,
                        simruns.is_discrete(sim), float(sc["tmin"]),
                        [["I", "R"]] if kind == "SIR" else [["I", "S"]], [["I", "S", "I"]])
            tr["sim"] = sim
            return tr
        if sc["type"] == "ties":
            s = sc["scn"]
            G = event_sir.build(s)
            nodes = list(range(1, s["n"] + 1))
            tt, rt, jt = event_sir.make_fxns(s)
            kw = dict(initial_infecteds=[u for u in nodes if s["init"][u - 1] == "I"], tmin=event_scn.fl(s["tmin"]), tmax=event_scn.fl(s["tmax"]))
            R0 = [u for u in nodes if s["init"][u - 1] == "R"]
            if R0:
                kw["initial_recovereds"] = R0
            joint = (i % 2 == 1)      # both ways of supplying the rules; the joint rule returns a delay for EVERY susceptible neighbour
            if joint:
                r = EoN.fast_nonMarkov_SIR(G, trans_and_rec_time_fxn=jt, return_full_data=True, **kw)
            else:
                r = EoN.fast_nonMarkov_SIR(G, trans_time_fxn=tt, rec_time_fxn=rt, return_full_data=True, **kw)
            obs = simruns.observe_full(r, G)
            tr = _trace(obs["hist"], obs["trans"], obs["tree"], s["n"], s["adj"], "SIR", False, event_scn.fl(s["tmin"]),
                        [["I", "R"]], [["I", "S", "I"]], req=s["init"])      # adj is the (possibly directed) contact adjacency
            tr["sim"] = "fast_nonMarkov_SIR(ties, %s rules)" % ("joint" if joint else "separate")
            return tr
        # generic model
        sts, sp, ind = contagion.MODELS[sc["model"]]
        n = sc["n"]
        cs = {"model": sc["model"], "n": n, "statuses": sts, "adj": sc["adj"], "directed": 1 if sc["directed"] else 0, "wmode": "none",
              "spont": [{"from": a, "to": b, "rate": r, "nw": [1] * n} for (a, b, r) in sp],
              "induced": [{"a": a, "b": b, "c": c, "rate": r, "ew": sc["adj"]} for (a, b, c, r) in ind]}
        G, H, J, calls = contagion.build(cs)
        IC = {u: sc["ic"][u - 1] for u in range(1, n + 1)}
        simruns.seed_all(sc["seed"])
        r = EoN.Gillespie_simple_contagion(G, H, J, IC, sts, tmax=sc["tmax"], return_full_data=True)
        obs = simruns.observe_full(r, G)
        tr = _trace(obs["hist"], obs["trans"], obs["tree"], n, sc["adj"], "generic", False, 0.0,
                    [[a, b] for (a, b, r_) in sp], [[a, b, c] for (a, b, c, r_) in ind])
        tr["infected_status"] = "-none-"
        tr["sim"] = "Gillespie_simple_contagion(%s,%s)" % (sc["model"], "directed" if sc["directed"] else "undirected")
        return tr
    except Exception as ex:
        return {"error": repr(ex), "etype": "exception:" + type(ex).__name__}


def main():
    chk = Check("C09", "model_checking")
    EoN = common.import_eon()
    rp = os.environ.get("EON_VERIF_REPLAY")
    scn = [json.load(open(rp))["replay"]["scenario"]] if rp else scenarios(chk.tier, chk.seed)
    _G.update(EoN=EoN, scn=scn)
    recs = pool_map(_record, range(len(scn)))
    traces = []
    idx = []
    for i, r in enumerate(recs):
        if "error" in r:
            name = scn[i].get("sim") or scn[i]["type"]
            chk.violation("%s|%s|" % (name, r["etype"]), r["error"], {"scenario": scn[i]})
            continue
        traces.append(r)
        idx.append(i)
    acc, res, diags = tracecheck.validate("TraceTrans", traces, invariants=["UsedEntriesAreInfections"])
    chk.add_tlc("TraceTrans: %d full-data runs" % len(traces), res)
    if res.violation:
        chk.violation("spec|TraceTrans|" + res.violation[:60], "TLC: " + res.violation, {})
    if res.coverage.get("Consume", (0, 0))[1] == 0 and res.coverage.get("Next", (0, 0))[1] == 0:
        raise common.MachineryFailure("vacuous: no change was ever consumed")
    for j, t in enumerate(traces):
        chk.cov["evaluations"] += 1
        if j in acc:
            chk.cov["traces_validated_against_impl"] += 1
            if sum(1 for e in t["trans"] if e[1] != 0) >= 1:
                chk.cov["distinct_nontrivial"] += 1
            continue
        clause, detail = tracecheck.failing_clause(diags.get(j))
        chk.violation("%s|%s|" % (t["sim"], clause),
                      "run rejected by TraceTrans: %s; changes %r transmissions %r" % (detail, t["changes"][:6], t["trans"][:6]),
                      {"scenario": scn[idx[j]], "trace": t})
    if traces:
        chk.sample(traces[len(traces) // 2])
    rule = ("trace = the full-data output (node histories, transmissions(), transmission_tree()) of one seeded run: 12 simulators on graphs incl. isolated nodes and several components, "
            "tie-heavy table-driven fast_nonMarkov_SIR scenarios (zero delays, simultaneous events), and Gillespie_simple_contagion with 10 multi-status models on directed and undirected graphs; "
            "TLC replays the node-level epidemic, matching every induced change with exactly one enabled transmission entry (any order among simultaneous events), then checks completeness, "
            "source-less entries, time order, transmission_tree and the SIR forest; non-trivial = at least one sourced transmission")
    return chk.finish(rule, exhaustive=False)


if __name__ == "__main__":
    common.run_main(main)

"""C01 - Markovian SIR simulators sample the exact network SIR process.
C02 reuses this module with sis=True (see c02.py)."""
import sys

from harness import common, netepi, tlc
from harness import gillespie_b1 as b1
from harness.common import Check, pool_map


def domains(tier, sis):
    """(constants for the TLC-only exhaustive run, list of constants for emission + replay)"""
    if tier == "quick":
        mc = netepi.netepi_constants(3, {1, 2}, {1, 2}, {0, 1, 2}, {0, 1, 2}, sis)
        if sis:
            # the SIS trees grow with the event horizon: fewer rate pairs in the quick tier
            replay = [
                ("weighted-3", netepi.netepi_constants(3, {1, 2}, {1, 2}, {0, 2}, {0, 1}, sis), True),
                ("unweighted-4", netepi.netepi_constants(4, {1}, {1}, {1, 2}, {0, 2}, sis), False),
            ]
        else:
            replay = [
                ("weighted-3", netepi.netepi_constants(3, {1, 2}, {1, 2}, {0, 1, 2}, {0, 1, 2}, sis), True),
                ("unweighted-4", netepi.netepi_constants(4, {1}, {1}, {0, 1, 2}, {0, 2}, sis), False),
            ]
    else:
        mc = netepi.netepi_constants(4, {1, 2}, {1}, {0, 1, 2}, {0, 1, 2}, sis)
        replay = [
            ("weighted-3", netepi.netepi_constants(3, {1, 2, 3}, {1, 2}, {0, 1, 2, 4}, {0, 1, 2}, sis), True),
            ("unweighted-4", netepi.netepi_constants(4, {1}, {1}, {0, 1, 2}, {0, 1, 2}, sis), False),
            ("weighted-4", netepi.netepi_constants(4, {1, 2}, {1}, {1, 2}, {0, 1}, sis), True),
        ]
    return mc, replay


def gillespie_part(chk, sis, entry):
    tier = chk.tier
    mc, replay = domains(tier, sis)
    res = netepi.model_check(mc)
    chk.add_tlc("NetEpi(%s) exhaustive %r" % ("SIS" if sis else "SIR", {k: sorted(v) if isinstance(v, set) else v for k, v in mc.items()}), res)
    if res.violation:
        chk.violation("spec|NetEpi|" + res.violation[:60], "TLC: " + res.violation, {"constants": repr(mc)})
    for a in ("Transmit", "Recover"):
        if res.coverage.get(a, (0, 0))[1] == 0:
            raise common.MachineryFailure("vacuous TLC run: action %s never taken" % a)
    # implementation-shaped loop: incremental IS_links / infecteds bookkeeping, refinement of NetEpi
    ic = netepi.netepi_constants(3 if tier == "quick" else 4, {1, 2}, {1}, {0, 1}, {0, 1}, sis)
    ires = tlc.run_tlc("GillespieImpl", tlc.cfg_text(ic, view="View", invariants=["LinksExact", "InfectedsExact", "NoBadRemove", "StopsWithChain"],
                                                    properties=["RefinesNetEpi"]), workers=16, timeout=3000)
    chk.add_tlc("GillespieImpl (%s): bookkeeping invariant and refinement of NetEpi" % ("SIS" if sis else "SIR"), ires)
    if ires.violation:
        chk.violation("spec|GillespieImpl|" + ires.violation[:60], "TLC: " + ires.violation, {"constants": repr(ic)})
    if ires.generated <= ires.distinct:
        raise common.MachineryFailure("vacuous GillespieImpl run")
    for name, consts, weighted in replay:
        sg, eres = netepi.emit_graph(consts)
        chk.add_tlc("NetEpi emission %s" % name, eres)
        b1.SG = sg
        n = consts["N"]
        tasks = []
        for key in b1.all_keys(consts):
            for st0 in b1.all_states(n, sis):
                if "I" not in st0:
                    continue
                if sis:
                    hz = (4 if n <= 3 else 3) if tier == "quick" else (6 if n <= 3 else 5)
                    if weighted and n >= 4:
                        hz = min(hz, 4)
                    tasks.append({"key": key, "st0": st0, "sis": True, "weighted": weighted, "horizon": hz})
                else:
                    tasks.append({"key": key, "st0": st0, "sis": False, "weighted": weighted})
                    # the horizon: a run cut by tmax after 2 events, from a shifted tmin
                    if st0.count("I") == 1 and key[2] > 0:
                        tasks.append({"key": key, "st0": st0, "sis": False, "weighted": weighted,
                                      "tmin": 3, "horizon": 2})
            # unit weights through the weighted code path as well
        if not weighted:
            extra = [dict(t, weighted=True) for t in tasks if t["key"][2] == 2 and t["key"][3] == 2]
            tasks += extra
        for k, t in enumerate(tasks):
            if k % 9 == 4:
                t["scale"] = 2.0 ** -40
            elif k % 9 == 8:
                t["scale"] = 2.0 ** 30
            if k % 5 == 2:
                # a contact network may have self-loops (a node "in contact with itself"): they are inert in the chain
                t["selfloops"] = True
        expected_states = len(b1.all_keys(consts)) * len(b1.all_states(n, sis))
        if expected_states != eres.distinct:
            raise common.MachineryFailure("replay domain (%d states) differs from TLC's (%d)" % (expected_states, eres.distinct))
        done = common.pool_run(b1.run_scenario, tasks, lambda r: bool(r["problems"]), is_settled=lambda r: bool(r.get("settled")))
        common.report_settled(chk, [r for _, r in done])
        results = [r for _, r in done]
        if len(done) < len(tasks):
            chk.note("%s %s: stopped after %d of %d scenarios because enough failing scenarios were collected"
                     % (entry, name, len(done), len(tasks)))
        for t, r in done:
            chk.cov["evaluations"] += r["leaves"] + r["arr"]
            chk.cov["traces_validated_against_impl"] += r["leaves"]
            if r["events"] > 0:
                chk.cov["distinct_nontrivial"] += 1
            chk.part(entry + " " + name, scenarios=1, leaves=r["leaves"], events=r["events"], trie_nodes=r["nodes"],
                     array_mode_reruns=r["arr"])
            for nt in r.get("notes", []):
                chk.note(nt)
            for p in r["problems"]:
                key = "%s|%s|%s" % (entry, p["kind"], p.get("cls", ""))
                chk.violation(key, p["detail"] + (" after history %r" % (p["history"],) if "history" in p else ""),
                              {"entry": entry, "task": t, "problem": {k: v for k, v in p.items()}})
        if results:
            t, r0 = done[len(done) // 2]
            chk.sample({"entry": entry, "domain": name, "scenario": {"w": t["key"][0], "g": t["key"][1], "tau": t["key"][2] * common.RATE_UNIT,
                        "gamma": t["key"][3] * common.RATE_UNIT, "st0": t["st0"], "weighted_path": t["weighted"]},
                        "leaves": r0["leaves"]})


_F = {}

# hand-picked weighted scenarios beyond the exhaustive node bound: the unique heaviest candidate leaves the
# candidate set while the remaining weights' most frequent value is below their maximum (needs >= 4 candidates)
SPECIAL = [
    # (n, w over pairs (1,2),(1,3),(1,4),(1,5),(2,3),..., g, tau, gam, initial statuses)
    (5, (3, 2, 1, 1, 0, 0, 0, 0, 0, 0), (1, 1, 1, 1, 1), 2, 0, "ISSSS"),
    (5, (3, 2, 1, 1, 0, 0, 0, 0, 0, 0), (1, 1, 1, 1, 1), 2, 1, "ISSSS"),
    (5, (6, 3, 1, 1, 0, 0, 0, 0, 0, 0), (2, 1, 1, 1, 1), 1, 1, "ISSSS"),
    (4, (1, 1, 1, 1, 1, 1), (5, 3, 1, 1), 0, 1, "IIII"),
    (4, (1, 1, 1, 1, 1, 1), (5, 3, 1, 1), 1, 2, "IIIS"),
    # a node of recovery weight 0 never recovers but keeps transmitting (path 1-2-3, the middle node has weight 0)
    (3, (1, 0, 1), (1, 0, 1), 2, 2, "SIS"),
    (3, (1, 0, 1), (1, 0, 1), 2, 2, "ISS"),
    (3, (2, 0, 1), (0, 1, 1), 1, 2, "ISS"),
]


def special_part(chk, sis, entry):
    from harness import master
    sg = netepi.SpecGraph(5)
    tasks = []
    for (n, w, g, tau, gam, st0) in SPECIAL:
        key = (tuple(w), tuple(g), tau, gam)
        t = {"key": key, "st0": tuple(st0), "sis": sis, "weighted": True, "max_leaves": 200000}
        if sis:
            t["horizon"] = 4 if n >= 5 else 5
        if key in sg.trans:
            tasks.append(t)
            continue
        trans, res = master.emit_one(n, w, g, tau, gam, sis)
        chk.add_tlc("NetEpiOne: hand-picked weighted scenario n=%d w=%r g=%r" % (n, w, g), res)
        d = sg.trans.setdefault(key, {})
        # emit_one returns (st2, real rate); the walk wants (kind, u, v, rate numerator, st2): re-read the records
        for rec in res.printed("E"):
            _, w_, g_, t_, ga_, st, st2, ev = rec
            d.setdefault(tuple(st), []).append((ev[0], ev[1], ev[2], ev[3], tuple(st2)))
        tasks.append(t)
    b1.SG = sg
    for t, r in zip(tasks, pool_map(b1.run_scenario, tasks)):
        chk.cov["evaluations"] += r["leaves"] + r["arr"]
        chk.cov["traces_validated_against_impl"] += r["leaves"]
        chk.cov["distinct_nontrivial"] += 1
        chk.part(entry + " hand-picked weighted", scenarios=1, leaves=r["leaves"], events=r["events"])
        for p in r["problems"]:
            chk.violation("%s|%s|%s" % (entry, p["kind"], "weighted-special"),
                          p["detail"] + (" after history %r" % (p["history"],) if "history" in p else ""),
                          {"entry": entry, "task": t, "problem": p})


def _stat_chunk(arg):
    """one chunk of seeded runs of fast_SIR / fast_SIS / Gillespie: histogram of the node-state vector at time T"""
    import random
    import numpy as np
    (entry, n, w, g, tau, gam, st0, T, tmax, nruns, seed, weighted) = arg[:12]
    tmin = arg[12] if len(arg) > 12 else 0.0
    EoN = _F["EoN"]
    G = netepi.build_graph(n, w, g)
    nodes = list(range(1, n + 1))
    if weighted in (True, "w"):
        # a contact whose weight is exactly 0 never transmits: the pairs that are not contacts of the chain are
        # present in the network handed over, with transmission weight 0
        for a in nodes:
            for b in nodes:
                if a < b and not G.has_edge(a, b):
                    G.add_edge(a, b, w=0.0)
    I0 = [u for u in nodes if st0[u - 1] == "I"]
    R0 = [u for u in nodes if st0[u - 1] == "R"]
    random.seed(seed)
    np.random.seed(seed % (2 ** 32))
    f = getattr(EoN, entry)
    kw = dict(initial_infecteds=I0, return_full_data=True)
    if weighted is True:
        kw.update(transmission_weight="w", recovery_weight="g")
    elif weighted == "g":       # only the recovery rates are scaled (contacts all have weight 1 in the chain)
        kw.update(recovery_weight="g")
    elif weighted == "w":       # only the transmission rates are scaled (node weights all 1 in the chain)
        kw.update(transmission_weight="w")
    if R0:
        kw["initial_recovereds"] = R0
    if tmax is not None:
        kw["tmax"] = tmin + tmax
    if tmin != 0.0:
        kw["tmin"] = tmin
    obs = {}
    try:
        for _ in range(nruns):
            sim = f(G, tau * common.RATE_UNIT, gam * common.RATE_UNIT, **kw)
            st = sim.get_statuses(nodelist=nodes, time=tmin + T)
            k = tuple(st[u] for u in nodes)
            obs[k] = obs.get(k, 0) + 1
    except Exception as ex:
        return "%s: %r" % (type(ex).__name__, ex)
    return obs


def law_at_T(chk, entry, sis, case, per, label):
    """the law of the full node-state vector at time T of `entry` against p0 expm(QT), Q assembled from the
    TLC-emitted NetEpiOne transitions; returns (p value, detail, N, observed, expected)"""
    from harness import master
    (n, w, g, tau, gam, st0, T, weighted) = case[:8]
    tmin0 = float(case[8]) if len(case) > 8 else 0.0      # the start time of the real calls (the law is shift invariant)
    trans, res = master.emit_one(n, w, g, tau, gam, sis)
    chk.add_tlc("NetEpiOne generator for the law layer n=%d (%s)" % (n, label), res)
    exp = master.distribution_at(trans, n, sis, st0, T)
    args = [(entry, n, w, g, tau, gam, st0, T, (T + 0.5) if sis else None, per, chk.seed * 1000 + k, weighted, tmin0) for k in range(16)]
    obs = {}
    for o in pool_map(_stat_chunk, args):
        if isinstance(o, str):
            return 0.0, "the seeded run raised " + o, per * 16, {}, exp
        for k, v in o.items():
            obs[k] = obs.get(k, 0) + v
    N = per * 16
    pval, detail = master.g_test(obs, exp, N)
    chk.cov["evaluations"] += N
    return pval, detail, N, obs, exp


def statistical_part(chk, sis):
    """disclosed statistical layer: the law of the full node-state vector at time T of the event-driven simulators
    against p0 expm(QT) with Q assembled from the TLC-emitted NetEpi transitions; rejection threshold p < 1e-9"""
    entry = "fast_SIS" if sis else "fast_SIR"
    cases = [
        (4, (1, 0, 2, 1, 0, 1), (1, 2, 1, 1), 2, 2, ("I", "S", "S", "S"), 0.75, True),
        (4, (1, 1, 1, 0, 0, 0), (1, 1, 1, 1), 3, 2, ("I", "S", "S", "S"), 0.5, False),    # star, unweighted fast path
        (4, (1, 0, 1, 1, 0, 1), (1, 1, 1, 1), 2, 1, ("S", "I", "S", "I"), 1.0, False),    # 4-cycle, two seeds
        (3, (2, 1, 1), (2, 1, 1), 2, 3, ("S", "S", "I"), 0.6, True),
    ]
    if not sis:
        cases.append((4, (1, 1, 0, 1, 0, 1), (1, 1, 2, 1), 2, 2, ("I", "S", "R", "S"), 0.9, True))   # an initially recovered node
    # one kind of weight only: the simulators choose their code path by which weights are named
    cases.append((3, (1, 1, 0), (4, 1, 1), 2, 1, ("I", "S", "S"), 0.5, "g"))
    cases.append((3, (2, 1, 1), (1, 1, 1), 1, 2, ("S", "I", "S"), 0.5, "w"))
    per = 2500 if chk.tier == "quick" else 20000
    for case in cases:
        (n, w, g, tau, gam, st0, T, weighted) = case
        pval, detail, N, obs, exp = law_at_T(chk, entry, sis, case, per, "fixed case")
        chk.part(entry + " statistical layer", runs=N, cases=1)
        wname = {True: "weighted", False: "unweighted", "g": "recovery-weight-only", "w": "transmission-weight-only"}[weighted]
        chk.note("%s state-at-T law vs master equation (n=%d, %s path): p=%.3g (%s, N=%d)" % (entry, n, wname, pval, detail, N))
        if pval < 1e-9:
            chk.violation("%s|state-at-T-law|%s" % (entry, wname),
                          "the distribution of the node-state vector at T=%r differs from the master-equation solution (G-test p=%.3g, %s, N=%d)" % (T, pval, detail, N),
                          {"case": [n, w, g, tau, gam, st0, T, weighted], "observed": {"".join(k): v for k, v in obs.items()},
                           "expected": {"".join(k): v * N for k, v in exp.items() if v > 0}})
    chk.assumptions.append("the law of %s at time T is compared with the master equation statistically (G-test, rejection threshold 1e-9); everything else in this check is exact" % entry)


# Problems of the draw-protocol layer that say "this run is not a run of the chain at all" are violations as they
# stand; every other disagreement only says that the implementation consumes its random numbers differently from the
# implementation-shaped specification (FastSISMarkov / the binomial protocol of fast_SIR) - which a law-preserving
# refactoring may legitimately do.  Those are decided at the level the property is stated at: the law.
# (kinds that the replay functions mark with a trailing "~")


def escalate(chk, sis, entry, mismatches, case_of, call=None):
    """mismatches: {(kind, class): [(scenario index, detail, scenario)]}.  For each class the law of the simulator at
    a time T is compared with the master equation on (up to K of) the very scenarios that disagreed; a violation is
    reported iff the law is rejected."""
    K = 3 if chk.tier == "quick" else 6
    per = 6000 if chk.tier == "quick" else 25000
    done = {}
    for (kind, cls), items in sorted(mismatches.items()):
        if not kind.endswith("~"):
            for (i, detail, scn) in items[:3]:
                chk.violation("%s|%s|%s" % (entry, kind, cls), detail + " [scenario %d]" % i, {"scenario": scn})
            continue
        kind = kind[:-1]
        worst = None
        tried = 0
        for (i, detail, scn) in items:
            case = case_of(scn)
            if case is None:
                continue
            ck = repr(case)
            if ck not in done:
                done[ck] = law_at_T(chk, call or entry, sis, case, per, "escalated scenario %d" % i)
            pval, d2, N, obs, exp = done[ck]
            tried += 1
            if worst is None or pval < worst[0]:
                worst = (pval, d2, N, obs, exp, i, detail, scn, case)
            if pval < 1e-9 or tried >= K:
                break
        if worst is None:
            raise common.MachineryFailure("%s: draw protocol differs (%s) and no disagreeing scenario could be decided at the law level" % (entry, kind))
        (pval, d2, N, obs, exp, i, detail, scn, case) = worst
        chk.part(entry + " protocol disagreement decided at the law level", runs=N * tried, cases=tried)
        if pval < 1e-9:
            chk.violation("%s|%s|%s" % (entry, kind, cls),
                          "%s [scenario %d]; and the law of the node-state vector at T=%r on this scenario differs from the master equation (G-test p=%.3g, %s, N=%d)"
                          % (detail, i, case[6], pval, d2, N),
                          {"scenario": scn, "case": list(case), "observed": {"".join(k): v for k, v in obs.items()},
                           "expected": {"".join(k): v * N for k, v in exp.items() if v > 0}})
        else:
            chk.note("%s: the implementation's draw protocol differs from the implementation-shaped specification on %d scenario(s) (%s: %s [scenario %d]) "
                     "but the law at time T agrees with the master equation on %d of them (smallest p=%.3g, N=%d each): the protocol specification is out of "
                     "sync with the code, the property (a statement about the law) is not violated" % (entry, len(items), kind, detail[:160], i, tried, pval, N))


def _tri(mat, n):
    return tuple(int(mat[a][b]) for a in range(n) for b in range(a + 1, n))


FLOAT_CASES = [
    # (n, w (upper triangle), g, tau, gam, initial statuses); zero recovery weights = nodes that never recover
    (4, (1, 2, 0, 3, 1, 2), (1, 2, 3, 0), 1, 1, ("I", "S", "S", "S")),
    (4, (1, 1, 1, 1, 1, 1), (0, 0, 1, 2), 2, 1, ("I", "I", "S", "S")),
    (3, (3, 0, 1), (1, 2, 3), 1, 3, ("S", "I", "S")),
    (4, (1, 0, 0, 2, 0, 3), (3, 1, 0, 2), 3, 1, ("S", "I", "S", "S")),
]


def _float_chunk(arg):
    """seeded runs (real random source) with weights that are not exactly representable: the recorded run must be a
    path of the TLC-emitted chain; with an unbounded horizon it must end in a terminal state of the chain"""
    import random
    (entry, sis, case, unit, seeds, trans) = arg
    (n, w, g, tau, gam, st0) = case
    EoN = _F["EoN"]
    G = netepi.build_graph(n, w, g)
    for u in G:
        G.nodes[u]["g"] *= unit
    for (u, v) in G.edges():
        G.edges[u, v]["w"] *= unit
    nodes = list(range(1, n + 1))
    I0 = [u for u in nodes if st0[u - 1] == "I"]
    tmax = 4.0 / unit if sis else float("inf")
    out = []
    for seed in seeds:
        random.seed(seed)
        try:
            sim = getattr(EoN, entry)(G, float(tau), float(gam), initial_infecteds=I0, transmission_weight="w", recovery_weight="g",
                                      tmax=tmax, return_full_data=True)
            ch = []
            for u in nodes:
                ts, ss = sim.node_history(u)
                for k in range(1, len(ts)):
                    ch.append((float(ts[k]), u, ss[k - 1], ss[k]))
        except Exception as ex:
            out.append(("exception:%s" % type(ex).__name__, "seed %d, weight unit %r: %r" % (seed, unit, ex)))
            continue
        ch.sort(key=lambda c: c[0])
        st = tuple(st0)
        bad = None
        for (t, u, old, new) in ch:
            nxt = tuple(new if v == u else st[v - 1] for v in nodes)
            if not any(s2 == nxt and r > 0 for (s2, r) in trans.get(st, [])):
                bad = "the change %r from state %r is not a transition of the chain" % ((t, u, old, new), st)
                break
            st = nxt
        if bad is None and not sis and trans.get(st, []):
            bad = "the run stopped in state %r although %d transition(s) have positive rate and the horizon is unbounded" % (st, len(trans.get(st, [])))
        if bad:
            out.append(("run-not-a-terminated-path", "seed %d, weight unit %r: %s" % (seed, unit, bad)))
    return out[:3], len(seeds)


def float_part(chk, sis, entry):
    from harness import master
    nseeds = 12 if chk.tier == "quick" else 100
    args = []
    for case in FLOAT_CASES:
        (n, w, g, tau, gam, st0) = case
        trans, res = master.emit_one(n, w, g, tau, gam, sis)
        chk.add_tlc("NetEpiOne: chain for the non-representable-weights scenario n=%d w=%r g=%r" % (n, w, g), res)
        for unit in (0.1, 0.3, 1.0 / 3.0, 0.7):
            args.append((entry, sis, case, unit, list(range(chk.seed * 1000, chk.seed * 1000 + nseeds)), trans))
    runs = 0
    for a, (probs, k) in zip(args, pool_map(_float_chunk, args)):
        runs += k
        chk.cov["evaluations"] += k
        chk.cov["traces_validated_against_impl"] += k
        for (kind, detail) in probs:
            chk.violation("%s|%s|non-dyadic-weights%s" % (entry, kind, "" if sis else ",unbounded-horizon"), detail, {"case": list(a[2]), "unit": a[3]})
    chk.part(entry + " seeded runs with weights that are not exactly representable, validated as (terminated) paths of the chain", runs=runs)


def _fsir(i):
    from harness import event_sir
    return event_sir.fast_sir_unweighted_scripted(_F["scn"][i], _F["refs"][i], _F["EoN"])


def _fsis(i):
    from harness import fast_sis
    return fast_sis.replay(_F["scn"][i], _F["refs"][i], _F["EoN"])


def fast_part(chk, sis, EoN):
    """the event-driven simulators: draw protocol (exact) + statistical layer"""
    from harness import event_scn, event_sir, fast_sis
    from checks import c11
    _F["EoN"] = EoN
    if not sis:
        scn = event_scn.sir_generic_scenarios(chk.seed, 800 if chk.tier == "quick" else 8000)
        res = c11.model_check(scn)
        chk.add_tlc("EventSIR on %d generic-time scenarios (reference for fast_SIR's binomial/truncated-exponential path)" % len(scn), res)
        if res.violation:
            chk.violation("spec|EventSIR|" + res.violation[:60], "TLC: " + res.violation, {})
        refs = {}
        for rec in res.printed("REF"):
            r = event_sir.ref_of(rec)
            refs[r["idx"] - 1] = r
        _F.update(scn=scn, refs=refs)
        nrun = 0
        mism = {}
        for i, probs in enumerate(pool_map(_fsir, range(len(scn)))):
            if probs is None:
                continue
            nrun += 1
            chk.cov["evaluations"] += 1
            chk.cov["traces_validated_against_impl"] += 1
            for (kind, detail) in probs:
                mism.setdefault((kind, ""), []).append((i, detail, scn[i]))
        chk.part("fast_SIR draw protocol", scenarios=nrun)
        if nrun < len(scn) // 3:
            raise common.MachineryFailure("fast_SIR protocol: only %d of %d scenarios usable" % (nrun, len(scn)))

        def case_of(sc):
            return (sc["n"], _tri(sc["adj"], sc["n"]), (1,) * sc["n"], 1, 2, tuple(sc["init"]), 0.8, False, event_scn.fl(sc["tmin"]))
        escalate(chk, sis, "fast_SIR(unweighted path)", mism, case_of, call="fast_SIR")
    else:
        scn = fast_sis.scenarios(chk.seed, 1200 if chk.tier == "quick" else 12000)
        res = fast_sis.model_check(scn)
        chk.add_tlc("FastSISMarkov on %d (graph, weights, rates, draw tape) scenarios" % len(scn), res)
        if res.violation:
            chk.violation("spec|FastSISMarkov|" + res.violation[:60], "TLC: " + res.violation, {})
        for a in ("DoTrans", "DoRec"):
            if res.coverage.get(a, (0, 0))[1] == 0:
                raise common.MachineryFailure("vacuous FastSISMarkov run")
        refs = {r[1] - 1: (r[2], r[3], r[4]) for r in res.printed("REF")}
        _F.update(scn=scn, refs=refs)
        skipped = 0
        mism = {}
        for i, probs in enumerate(pool_map(_fsis, range(len(scn)))):
            chk.cov["evaluations"] += 1
            if probs and probs[0][0] == "tied-skip":
                skipped += 1
                continue
            chk.cov["traces_validated_against_impl"] += 1
            if len(refs[i][0]) >= 3:
                chk.cov["distinct_nontrivial"] += 1
            for (kind, detail) in probs:
                mism.setdefault((kind, "weighted" if scn[i]["weighted"] else "unweighted"), []).append((i, detail, scn[i]))
        chk.part("fast_SIS draw protocol", scenarios=len(scn), skipped_because_of_ties=skipped)

        def case_of(sc):
            if sc["tau"] == 0:
                return None
            return (sc["n"], _tri(sc["w"], sc["n"]), tuple(sc["g"]), sc["tau"], sc["gam"], tuple(sc["init"]), 0.6, bool(sc["weighted"]),
                    float(sc["tmin"]) - float(sc.get("shift", 0)))
        escalate(chk, sis, "fast_SIS", mism, case_of)
    statistical_part(chk, sis)


def main(argv=None, sis=False):
    pid = "C02" if sis else "C01"
    chk = Check(pid, "model_checking")
    common.import_eon()
    EoN = common.import_eon()
    gillespie_part(chk, sis, "Gillespie_SIS" if sis else "Gillespie_SIR")
    special_part(chk, sis, "Gillespie_SIS" if sis else "Gillespie_SIR")
    fast_part(chk, sis, EoN)
    float_part(chk, sis, "Gillespie_SIS" if sis else "Gillespie_SIR")
    from harness import stamina
    stamina.probe(EoN, chk, entry="weighted sampler of Gillespie_%s" % ("SIS" if sis else "SIR"))
    rule = ("every (weighted graph, rate pair, initial status vector with >=1 infected node) of the TLC-emitted NetEpi state graph is one scenario; "
            "the implementation's complete decision tree under the scripted random source is enumerated (leaves = evaluations) and compared at every "
            "history with the chain's enabled events, their probabilities, the clock rate and the stopping states; non-trivial = the tree contains at least one event")
    return chk.finish(rule, exhaustive=True)


if __name__ == "__main__":
    common.run_main(main)

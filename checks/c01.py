"""C01 - Markovian SIR simulators sample the exact network SIR process.
C02 reuses this module with sis=True (see c02.py)."""
import sys

from harness import common, netepi, tlc
from harness import gillespie_b1 as b1
from harness.common import Check, pool_map


def domains(tier, sis):
    """(constants for the TLC-only exhaustive run, list of constants for emission + replay)"""
    if tier == "quick":
        mc = netepi.netepi_constants(3, {1, 2}, {1, 2}, {0, 1, 2}, {0, 1, 2}, sis)
        replay = [
            ("weighted-3", netepi.netepi_constants(3, {1, 2}, {1, 2}, {0, 1, 2}, {0, 1, 2}, sis), True),
            ("unweighted-4", netepi.netepi_constants(4, {1}, {1}, {0, 1, 2}, {0, 2}, sis), False),
        ]
    else:
        mc = netepi.netepi_constants(4, {1, 2}, {1}, {0, 1, 2}, {0, 1, 2}, sis)
        replay = [
            ("weighted-3", netepi.netepi_constants(3, {1, 2, 3}, {1, 2}, {0, 1, 2, 4}, {0, 1, 2}, sis), True),
            ("unweighted-4", netepi.netepi_constants(4, {1}, {1}, {0, 1, 2}, {0, 1, 2}, sis), False),
            ("weighted-4", netepi.netepi_constants(4, {1, 2}, {1}, {1, 2}, {0, 1}, sis), True),
        ]
    return mc, replay


def gillespie_part(chk, sis, entry):
    tier = chk.tier
    mc, replay = domains(tier, sis)
    res = netepi.model_check(mc)
    chk.add_tlc("NetEpi(%s) exhaustive %r" % ("SIS" if sis else "SIR", {k: sorted(v) if isinstance(v, set) else v for k, v in mc.items()}), res)
    if res.violation:
        chk.violation("spec|NetEpi|" + res.violation[:60], "TLC: " + res.violation, {"constants": repr(mc)})
    for a in ("Transmit", "Recover"):
        if res.coverage.get(a, (0, 0))[1] == 0:
            raise common.MachineryFailure("vacuous TLC run: action %s never taken" % a)
    for name, consts, weighted in replay:
        sg, eres = netepi.emit_graph(consts)
        chk.add_tlc("NetEpi emission %s" % name, eres)
        b1.SG = sg
        n = consts["N"]
        tasks = []
        for key in b1.all_keys(consts):
            for st0 in b1.all_states(n, sis):
                if "I" not in st0:
                    continue
                if sis:
                    hz = (5 if n <= 3 else 4) if tier == "quick" else (6 if n <= 3 else 5)
                    if weighted and n >= 4:
                        hz = 4
                    tasks.append({"key": key, "st0": st0, "sis": True, "weighted": weighted, "horizon": hz})
                else:
                    tasks.append({"key": key, "st0": st0, "sis": False, "weighted": weighted})
                    # the horizon: a run cut by tmax after 2 events, from a shifted tmin
                    if st0.count("I") == 1 and key[2] > 0:
                        tasks.append({"key": key, "st0": st0, "sis": False, "weighted": weighted,
                                      "tmin": 3, "horizon": 2})
            # unit weights through the weighted code path as well
        if not weighted:
            extra = [dict(t, weighted=True) for t in tasks if t["key"][2] == 2 and t["key"][3] == 2]
            tasks += extra
        expected_states = len(b1.all_keys(consts)) * len(b1.all_states(n, sis))
        if expected_states != eres.distinct:
            raise common.MachineryFailure("replay domain (%d states) differs from TLC's (%d)" % (expected_states, eres.distinct))
        done = common.pool_run(b1.run_scenario, tasks, lambda r: bool(r["problems"]))
        results = [r for _, r in done]
        if len(done) < len(tasks):
            chk.note("%s %s: stopped after %d of %d scenarios because enough failing scenarios were collected"
                     % (entry, name, len(done), len(tasks)))
        for t, r in done:
            chk.cov["evaluations"] += r["leaves"] + r["arr"]
            chk.cov["traces_validated_against_impl"] += r["leaves"]
            if r["events"] > 0:
                chk.cov["distinct_nontrivial"] += 1
            chk.part(entry + " " + name, scenarios=1, leaves=r["leaves"], events=r["events"], trie_nodes=r["nodes"],
                     array_mode_reruns=r["arr"])
            for nt in r.get("notes", []):
                chk.note(nt)
            for p in r["problems"]:
                key = "%s|%s|%s" % (entry, p["kind"], p.get("cls", ""))
                chk.violation(key, p["detail"] + (" after history %r" % (p["history"],) if "history" in p else ""),
                              {"entry": entry, "task": t, "problem": {k: v for k, v in p.items()}})
        if results:
            t, r0 = done[len(done) // 2]
            chk.sample({"entry": entry, "domain": name, "scenario": {"w": t["key"][0], "g": t["key"][1], "tau": t["key"][2] * common.RATE_UNIT,
                        "gamma": t["key"][3] * common.RATE_UNIT, "st0": t["st0"], "weighted_path": t["weighted"]},
                        "leaves": r0["leaves"]})


def main(argv=None, sis=False):
    pid = "C02" if sis else "C01"
    chk = Check(pid, "model_checking")
    common.import_eon()
    gillespie_part(chk, sis, "Gillespie_SIS" if sis else "Gillespie_SIR")
    rule = ("every (weighted graph, rate pair, initial status vector with >=1 infected node) of the TLC-emitted NetEpi state graph is one scenario; "
            "the implementation's complete decision tree under the scripted random source is enumerated (leaves = evaluations) and compared at every "
            "history with the chain's enabled events, their probabilities, the clock rate and the stopping states; non-trivial = the tree contains at least one event")
    return chk.finish(rule, exhaustive=True)


if __name__ == "__main__":
    common.run_main(main)

"""C20 - Time-series and degree-distribution helpers have exact step/moment semantics.

specs/Subsample.tla : TLC checks that the two-pointer scan of EoN.subsample (PlusCal, recursive over
                      two/three series) and the for/break loop of get_time_shift equal their declarative
                      definitions on every ordered report/time grid in the bound, then prints
                      input |-> definition.
specs/DegreeDist.tla: TLC checks the generating-function / moment identities on every graph and degree
                      sequence in the bound and prints input |-> exact expected values.
This module replays every printed record into the real functions and compares (integers and step values
exactly, rationals within 1e-12 of the specification's fraction).

EON_VERIF_REPLAY=<replay json>: re-run just the input of that file (fresh TLC emission for the smallest
domain containing it, then the real function).
"""
import json
import os
import sys
import time
from concurrent.futures import ThreadPoolExecutor

from harness import common, tlc
from harness import c20_support as s
from harness.common import Check, MachineryFailure

CHUNK = 2000


def tier_domains(tier, seed):
    if tier == "quick":
        sub = s.subsample_constants(maxlen=4)
        dd = s.degdist_constants(nmax=4, ew=(1, 2), dlen=3, extra=s.extra_degree_sequences(24, seed))
    else:
        sub = s.subsample_constants(maxlen=5)
        dd = s.degdist_constants(nmax=5, ew=(1, 2), dlen=5, extra=s.extra_degree_sequences(300, seed))
    return sub, dd


def _show(consts):
    return {k: (sorted(v) if isinstance(v, (set, frozenset)) else (len(v) if k == "extra" else v))
            for k, v in consts.items() if k != "defaultInitValue"}


def run_tlc_jobs(jobs):
    """jobs: name -> thunk.  The TLC processes run side by side (the emission runs are single-worker)."""
    out = {}
    with ThreadPoolExecutor(max_workers=len(jobs)) as ex:
        futs = {name: ex.submit(fn) for name, fn in jobs.items()}
        for name, f in futs.items():
            try:
                out[name] = f.result()
            except tlc.TLCError as e:
                raise MachineryFailure("TLC run '%s' failed: %s" % (name, e))
    return out


def require_clean(name, res):
    if res.violation or not res.ok:
        # the specification contradicts itself (definition vs. its own algorithm / identity): that is a
        # fault of the machinery, not an observation about /repo
        raise MachineryFailure("TLC reports on %s: %s\n%s" % (name, res.violation, res.stdout[-3000:]))


def replay_records(chk, texts):
    """All records through the real code, in forked workers.  Returns merged counters."""
    chunks = [texts[i:i + CHUNK] for i in range(0, len(texts), CHUNK)]
    done = common.pool_run(s.replay_chunk, chunks, lambda r: bool(r["problems"]), stop_after=40)
    if len(done) < len(chunks):
        chk.note("stopped after %d of %d record chunks because enough failing records were collected" % (len(done), len(chunks)))
    tot = {"SUB": 0, "GTS": 0, "G": 0, "D": 0, "calls": 0, "nontrivial": 0, "r0_undefined": 0, "graphs_built": 0}
    never, by_series, samples, problems = {}, {}, {}, {}
    for _, r in done:
        for k in tot:
            tot[k] += r[k]
        for k, v in r["never"].items():
            never[k] = never.get(k, 0) + v
        for k, v in r["sub_by_series"].items():
            by_series[k] = by_series.get(k, 0) + v
        for k, v in r["samples"].items():
            samples.setdefault(k, v)
        for k, (pr, cnt) in r["problems"].items():
            slot = problems.setdefault(k, [pr, 0])
            slot[1] += cnt
    return tot, never, by_series, samples, problems, len(done) == len(chunks)


SAMPLE_DOC = {
    "SUB": "[tag, report ticks, observation ticks, series, Sub = expected output per series]; one tick = 0.5",
    "GTS": "[tag, time ticks, L, threshold, [at, first tick with L >= threshold] | [never]]",
    "G": "[tag, n, weight vector over node pairs (1,2),(1,3),.., degrees, Pk as [k,num,den], Pnk rows as [k1,[[k2,num,den]..]], "
         "coefficients of N*psi, of N*psi', of N*psi'', [[x, psi(x), psi'(x), psi''(x)]..] as [num,den], [N, sum k, sum k(k-1)], [[T, R0]..]]",
    "D": "[tag, degree sequence, Pk, coefficients of N*psi, N*psi', N*psi'', evaluations, moments, [[T, R0]..]]",
}


def full_run(chk):
    tier = chk.tier
    sub, dd = tier_domains(tier, chk.seed)
    probe_sub = s.subsample_constants(maxlen=2)
    probe_dd = s.degdist_constants(nmax=3, ew=(1, 2), dlen=2, extra=dd["extra"][:3])
    t0 = time.time()
    res = run_tlc_jobs({
        "sub_design": lambda: s.subsample_design(sub, workers=16),
        "sub_emit": lambda: s.subsample_emit(sub),
        "sub_probe": lambda: s.subsample_design(probe_sub, workers=2, coverage=True),
        "dd_ident": lambda: s.degdist_identities(dd, workers=8),
        "dd_emit": lambda: s.degdist_emit(dd),
        "dd_probe": lambda: s.degdist_identities(probe_dd, workers=2, coverage=True),
    })
    print("TLC: %.1fs wall for %d runs" % (time.time() - t0, len(res)))
    names = {
        "sub_design": "Subsample: scan = definition, loop invariants, variant (exhaustive) %r" % _show(sub),
        "sub_emit": "Subsample: emission of input |-> definition %r" % _show(sub),
        "sub_probe": "Subsample: coverage probe %r" % _show(probe_sub),
        "dd_ident": "DegreeDist: identities (exhaustive) %r" % _show(dd),
        "dd_emit": "DegreeDist: emission of input |-> expected values %r" % _show(dd),
        "dd_probe": "DegreeDist: coverage probe %r" % _show(probe_dd),
    }
    for k in ("sub_design", "sub_emit", "sub_probe", "dd_ident", "dd_emit", "dd_probe"):
        require_clean(k, res[k])
        chk.add_tlc(names[k], res[k])

    # --- vacuity --------------------------------------------------------------------------------
    cov = res["sub_probe"].coverage
    for a in s.SUB_ACTIONS:
        if cov.get(a, (0, 0))[1] == 0:
            raise MachineryFailure("vacuous TLC run: action %s of Subsample never taken" % a)
    if res["dd_probe"].coverage.get("Evaluate", (0, 0))[1] == 0:
        raise MachineryFailure("vacuous TLC run: action Evaluate of DegreeDist never taken")
    n_init, n_sub, n_gts = s.subsample_domain_size(sub)
    for k in ("sub_design", "sub_emit"):
        if s.initial_states(res[k]) != n_init:
            raise MachineryFailure("%s: TLC computed %d initial states, the input family has %d"
                                   % (k, s.initial_states(res[k]), n_init))
    if res["sub_design"].distinct < 5 * n_init:
        raise MachineryFailure("Subsample design run visited only %d states for %d inputs: the scan was not executed"
                               % (res["sub_design"].distinct, n_init))
    n_g, n_d = s.degdist_domain_size(dd)
    for k in ("dd_ident", "dd_emit"):
        if res[k].distinct != 2 * (n_g + n_d):
            raise MachineryFailure("%s: TLC visited %d states, expected 2 x %d inputs" % (k, res[k].distinct, n_g + n_d))

    # --- records --------------------------------------------------------------------------------
    texts = list(s.record_texts(res["sub_emit"].stdout)) + list(s.record_texts(res["dd_emit"].stdout))
    res["sub_emit"].stdout = res["dd_emit"].stdout = ""
    t1 = time.time()
    tot, never, by_series, samples, problems, complete = replay_records(chk, texts)
    print("replay: %d records, %d calls of the real functions, %.1fs" % (len(texts), tot["calls"], time.time() - t1))
    if complete:
        want = {"SUB": n_sub, "GTS": n_gts, "G": n_g, "D": n_d}
        for k, v in want.items():
            if tot[k] != v:
                raise MachineryFailure("%d %s records were replayed but the specification's input family has %d" % (tot[k], k, v))
    for key in sorted(problems):
        p, cnt = problems[key]
        chk.violation(key, p["what"] + " [%d record(s) of this class]" % cnt, p["replay"])
    if never:
        chk.note("get_time_shift with a threshold that is never reached (the property promises nothing): observed %s"
                 % ", ".join("%s (%d inputs)" % (k, v // 2) for k, v in sorted(never.items())))
    if tot["r0_undefined"]:
        chk.note("estimate_R0 on graphs without edges is undefined (<k> = 0); %d such (graph, T) pairs were not judged" % tot["r0_undefined"])
    chk.cov["evaluations"] += tot["calls"]
    chk.cov["traces_validated_against_impl"] += tot["SUB"] + tot["GTS"] + tot["G"] + tot["D"]
    chk.cov["distinct_nontrivial"] += tot["nontrivial"]
    chk.part("subsample", records=tot["SUB"], **{"records_with_%s_series" % k: v for k, v in sorted(by_series.items())})
    chk.part("get_time_shift", records=tot["GTS"], threshold_never_reached=sum(never.values()) // 2)
    chk.part("graphs", records=tot["G"])
    chk.part("degree sequences", records=tot["D"], realised_as_graphs=tot["graphs_built"])
    for tag in ("SUB", "GTS", "G", "D"):
        if tag in samples:
            chk.sample({"record": samples[tag], "layout": SAMPLE_DOC[tag]})
    chk.assumptions[:] = [
        "TLC 1.8 and its PlusCal translation are trusted",
        "float(num)/den of the specification's fractions is used to build the Pk dictionaries handed to get_PGF*",
        "time ticks are mapped to multiples of 0.5 (exact floats), so ties in the specification are ties in the call",
        "networkx builds the graph the weight vector describes (degrees are re-checked against the specification's)",
    ]
    rule = ("every record TLC printed is one case: (report grid, time grid, 1-3 series) |-> Sub for every pair of ordered grids over 5 ticks "
            "with the precondition, (times, L, threshold) |-> first reach, every weighted graph on <= NMax nodes and every ordered degree "
            "sequence in the bound |-> Pk, Pnk, psi/psi'/psi'' at 1/4,1/2,3/4,1 and R0 as exact fractions; the real function is called on each "
            "(lists and numpy arrays; transmissibility and tau/gamma forms). non-trivial = subsample input with a tie between a report and an "
            "observation time, a repeated observation time or a report after the last observation; get_time_shift input whose threshold is first "
            "reached after the first observation; graph with >= 1 edge; degree sequence with a degree >= 2")
    return chk.finish(rule, exhaustive=True)


# ----------------------------------------------------------------------------------------------
def replay_one(chk, path):
    with open(path) as fh:
        rp = json.load(fh)["replay"]
    rec = rp["record"]
    kind = rp["kind"]
    if kind == "SUB":
        vals = {v for ser in rec[3] for v in ser} if len(rec[3]) == 1 else set()
        consts = s.subsample_constants(maxlen=max(len(rec[1]), len(rec[2])), tmax=max([4] + rec[1] + rec[2]),
                                       valdom={0, 1} | {v for v in vals if v < 3}, ldom={0}, thdom={0})
        res = s.subsample_emit(consts)
        same = lambda r: r[0] == "SUB" and r[1:4] == rec[1:4]
    elif kind == "GTS":
        consts = s.subsample_constants(maxlen=len(rec[1]), tmax=max([4] + rec[1]), valdom={0},
                                       ldom=set(rec[2]) | {0}, thdom={rec[3]})
        res = s.subsample_emit(consts)
        same = lambda r: r[0] == "GTS" and r[1:4] == rec[1:4]
    elif kind == "G":
        consts = s.degdist_constants(nmax=rec[1], ew=({x for x in rec[2] if x > 0} or {1}), dlen=1)
        res = s.degdist_emit(consts)
        same = lambda r: r[0] == "G" and r[1:3] == rec[1:3]
    elif kind == "D":
        consts = s.degdist_constants(nmax=1, ew={1}, dlen=1, extra=[tuple(rec[1])])
        res = s.degdist_emit(consts)
        same = lambda r: r[0] == "D" and r[1] == rec[1]
    else:
        raise MachineryFailure("unknown replay kind %r" % kind)
    require_clean("replay emission", res)
    texts = [t for t in s.record_texts(res.stdout) if same(s.parse_record(t))]
    if len(texts) != 1:
        raise MachineryFailure("the replayed input was printed %d times by TLC (expected once)" % len(texts))
    fresh = s.parse_record(texts[0])
    print("input     : %s" % (rp.get("call"),))
    print("TLC record: %s" % (fresh,))
    if fresh != rec:
        print("NOTE: the specification's expectation differs from the one stored in the replay file (%r)" % (rec,))
    out = s.replay_chunk(texts)
    for key in sorted(out["problems"]):
        p = out["problems"][key][0]
        chk.violation(key, p["what"], p["replay"])
    print("C20 replay: %d call(s) of the real functions, %d violation class(es)" % (out["calls"], len(chk.violations)))
    for key, (k, cnt) in sorted(chk.known_hit.items()):
        print("KNOWN-FINDING: property=C20 %s [%s]" % (k["what"], key))
    return 1 if chk.violations else 0


def main(argv=None):
    chk = Check("C20", "model_checking")
    common.import_eon()
    path = os.environ.get("EON_VERIF_REPLAY")
    if path:
        return replay_one(chk, path)
    return full_run(chk)


if __name__ == "__main__":
    common.run_main(main)

"""C11 - event-driven SIR with arbitrary delays equals first-passage percolation."""
import json
import os
import tempfile

from harness import common, tlc, event_scn, event_sir
from harness.common import Check, pool_map

INV = ["Correct", "QueueBounded", "PredConsistent", "RowsCount"]
PROP = ["Ordered", "Mono"]
_G = {}


def model_check(scn, workers=16):
    d = tempfile.mkdtemp(prefix="eonverif_c11_")
    try:
        p = os.path.join(d, "scenarios.json")
        with open(p, "w") as fh:
            json.dump(scn, fh)
        cfg = tlc.cfg_text({}, invariants=INV, properties=PROP).replace("CONSTANTS\n", "")
        return tlc.run_tlc("EventSIR", cfg, workers=workers, env={"EON_SCENARIOS": p}, coverage=True, timeout=3000)
    finally:
        import shutil
        shutil.rmtree(d, ignore_errors=True)


def queue_part(chk, EoN):
    """EventQueue.tla: heap implementation = reference queue on every add/pop history in the bound; every
    history is replayed into the real myQueue (pop order incl. FIFO on ties, events at or after tmax dropped)"""
    maxops = 6 if chk.tier == "quick" else 7
    cfg = tlc.cfg_text({"MaxT": 3, "Tmax": 3, "MaxOps": maxops},
                       invariants=["HeapInvariant", "SameContent", "HeapTopIsMin", "NothingAtOrAfterTmax", "EmitHist"],
                       properties=["PopAgrees", "FifoOnTies"])
    res = tlc.run_tlc("EventQueue", cfg, workers=1, coverage=True, timeout=1800)
    chk.add_tlc("EventQueue: every add/pop history of %d operations" % maxops, res)
    if res.violation:
        chk.violation("spec|EventQueue|" + res.violation[:60], "TLC: " + res.violation, {})
    for a in ("Add", "Pop"):
        if res.coverage.get(a, (0, 0))[1] == 0:
            raise common.MachineryFailure("vacuous EventQueue run")
    n = 0
    for rec in res.printed("H"):
        hist = rec[1]
        Q = EoN.simulation.myQueue(tmax=3)
        popped = []
        k = 0
        bad = None
        for op in hist:
            if op[0] == "add":
                k += 1
                Q.add(op[1], lambda t, ident: popped.append((t, ident)), args=(k,))
            else:
                before = len(popped)
                try:
                    Q.pop_and_run()
                except Exception as ex:
                    bad = "pop raised %r" % (ex,)
                    break
                if len(popped) != before + 1 or popped[-1] != (op[1], op[2]):
                    bad = "pop returned %r, the queue specification gives time %r of add #%r" % (popped[before:], op[1], op[2])
                    break
        want_len = rec[2]
        if bad is None and len(Q) != want_len:
            bad = "len(Q) = %d after the history, specification %d" % (len(Q), want_len)
        n += 1
        chk.cov["evaluations"] += 1
        chk.cov["traces_validated_against_impl"] += 1
        if bad:
            chk.violation("myQueue|pop-order-or-horizon|", bad + " in history %r" % (hist,), {"history": hist})
    chk.part("myQueue", histories=n)


def _run(i):
    EoN = _G["EoN"]
    return event_sir.run_all(_G["scn"][i], _G["refs"][i], EoN)


def main():
    chk = Check("C11", "model_checking")
    EoN = common.import_eon()
    rp = os.environ.get("EON_VERIF_REPLAY")
    if rp:
        scn = [json.load(open(rp))["replay"]["scenario"]]
    elif chk.tier == "quick":
        scn = event_scn.sir_scenarios(chk.seed, 3000)
    else:
        scn = event_scn.sir_scenarios(chk.seed, 40000, sizes=(3, 4, 5, 6), dvals=(0, 1, 2, 3, event_scn.INF))
    res = model_check(scn)
    chk.add_tlc("EventSIR: algorithm = first-passage percolation on %d scenarios, all tie orders" % len(scn), res)
    if res.violation:
        chk.violation("spec|EventSIR|" + res.violation[:60], "TLC: " + res.violation, {"n_scenarios": len(scn)})
    for a in ("DoTrans", "DoRec"):
        if not rp and res.coverage.get(a, (0, 0))[1] == 0:
            raise common.MachineryFailure("vacuous TLC run: %s never taken" % a)
    refs = {}
    for rec in res.printed("REF"):
        r = event_sir.ref_of(rec)
        refs[r["idx"] - 1] = r
    if len(refs) != len(scn):
        raise common.MachineryFailure("TLC emitted %d reference outcomes for %d scenarios" % (len(refs), len(scn)))
    _G.update(EoN=EoN, scn=scn, refs=refs)
    if not rp:
        queue_part(chk, EoN)
    results = pool_map(_run, range(len(scn)))
    nontriv = 0
    for i, probs in enumerate(results):
        chk.cov["evaluations"] += 6
        chk.cov["traces_validated_against_impl"] += 1
        r = refs[i]
        if sum(1 for v, x in enumerate(r["inf"]) if x < event_scn.INF and scn[i]["init"][v] == "S") > 0:
            nontriv += 1
        for (iface, kind, detail) in probs:
            chk.violation("%s|%s|%s" % (iface, kind, _cls(scn[i])), detail + " [scenario %d]" % i,
                          {"scenario": scn[i], "reference": {k: (sorted(v) if isinstance(v, set) else v) for k, v in r.items() if k != "preds"},
                           "interface": iface})
    chk.cov["distinct_nontrivial"] = nontriv
    chk.sample({"scenario": scn[len(scn) // 2], "reference_infection_times": refs[len(scn) // 2]["inf"],
                "reference_recovery_times": refs[len(scn) // 2]["rec"]})
    rule = ("scenario = (graph, initial infected/recovered sets, delay table, duration table, tmin, tmax): exhaustive over 2-node scenarios with values in "
            "{0,1,2,Inf} plus seeded random tie-heavy scenarios on 3-4 (thorough: 3-6) nodes; TLC checks the queue algorithm against first-passage percolation "
            "for every scenario and every tie order and emits the reference outcome; the real fast_nonMarkov_SIR (separate and joint rule interfaces, both return modes), "
            "fast_SIR (weighted path, delays fed through the scripted expovariate) and the percolation builders are run on every scenario and compared; "
            "non-trivial = at least one node is infected by transmission")
    return chk.finish(rule, exhaustive=False)


def _cls(s):
    c = []
    if "R" in s["init"]:
        c.append("initial-recovereds")
    if s["tmax"] < event_scn.INF:
        c.append("finite-tmax")
    return "+".join(c) or "plain"


if __name__ == "__main__":
    common.run_main(main)

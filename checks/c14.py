"""C14 - results depend on network structure, not on node names or ordering."""
import json
import os
import random as pyrandom

from harness import common, tlc, event_scn, event_sir, event_sis, relabel
from harness.common import Check, pool_map
from checks import c11, c13, c12

_G = {}
INF = event_scn.INF


def _bare(ii):
    """a single initially infected node is passed bare (the documented alternative to a collection)"""
    if len(ii) == 1 and not isinstance(ii[0], (tuple, frozenset)):
        return ii[0]
    return ii


def edges_of(adj):
    n = len(adj)
    return [(u + 1, v + 1) for u in range(n) for v in range(u, n) if adj[u][v]]     # v = u: a self-loop


def permute_sir(s, perm):
    """scenario with spec node i renamed perm[i] (0-based permutation)"""
    n = s["n"]
    inv = [0] * n
    for i, p in enumerate(perm):
        inv[p] = i
    return {"n": n, "adj": [[s["adj"][inv[a]][inv[b]] for b in range(n)] for a in range(n)],
            "init": [s["init"][inv[a]] for a in range(n)],
            "delay": [[s["delay"][inv[a]][inv[b]] for b in range(n)] for a in range(n)],
            "dur": [s["dur"][inv[a]] for a in range(n)], "tmin": s["tmin"], "tmax": s["tmax"]}


def _sir(i):
    EoN = _G["EoN"]
    s = _G["sir"][i]
    ref = _G["sir_refs"][i]
    rng = pyrandom.Random(1000 + i)
    n = s["n"]
    nodes = list(range(1, n + 1))
    probs = []
    maps = relabel.label_maps(n, rng)
    ords = relabel.orders(n, edges_of(s["adj"]), rng)
    combos = [(m, o) for m in maps for o in ords]
    if _G["tier"] == "quick":
        combos = [combos[(i + k * 5) % len(combos)] for k in range(6)]
    for (mk, lab), (ok, norder, eorder) in combos:
        G = relabel.build_graph(n, norder, eorder, lab)
        back = {lab[u - 1]: u for u in nodes}
        tt, rt, jt = event_sir.make_fxns(s)
        ii = [lab[u - 1] for u in nodes if s["init"][u - 1] == "I"]
        if len(ii) == 1 and not isinstance(ii[0], (tuple, frozenset)):
            ii = ii[0]     # a single node may be given bare - also when its label is falsy (0)
        kw = dict(initial_infecteds=ii, tmin=event_scn.fl(s["tmin"]), tmax=event_scn.fl(s["tmax"]))
        R0 = [lab[u - 1] for u in nodes if s["init"][u - 1] == "R"]
        if R0:
            kw["initial_recovereds"] = R0
        try:
            sim = EoN.fast_nonMarkov_SIR(G, trans_time_fxn=lambda a, b: tt(back[a], back[b]), rec_time_fxn=lambda a: rt(back[a]),
                                         return_full_data=True, **kw)
            hist = {u: (list(sim.node_history(lab[u - 1])[0]), list(sim.node_history(lab[u - 1])[1])) for u in nodes}
            trans = [(t, None if a is None else back[a], back[b]) for (t, a, b) in sim.transmissions()]
            for k, d in event_sir.compare_full(s, ref, hist, trans):
                probs.append(("fast_nonMarkov_SIR", mk, ok, k, d))
        except Exception as ex:
            probs.append(("fast_nonMarkov_SIR", mk, ok, "exception:%s" % type(ex).__name__, repr(ex)))
    return probs


def _sis(i):
    EoN = _G["EoN"]
    s = _G["sis"][i]
    reflog = _G["sis_refs"][i]
    rng = pyrandom.Random(2000 + i)
    n = s["n"]
    nodes = list(range(1, n + 1))
    probs = []
    maps = relabel.label_maps(n, rng)
    ords = relabel.orders(n, edges_of(s["adj"]), rng)
    combos = [(m, o) for m in maps for o in ords]
    if _G["tier"] == "quick":
        combos = [combos[(i + k * 5) % len(combos)] for k in range(6)]
    lattice = reflog is None
    if not lattice:
        want = [[float(e[0]) - float(s.get("shift", 0)), e[1], e[2], e[3]] for e in reflog]
    else:
        # simultaneous events: the specification leaves their order open, so the reference is the implementation's own
        # run on the identity-labelled, sorted-insertion graph; the infector of an infection is left out of the comparison
        want = None
        ident = list(range(1, n + 1))
        combos = [(("identity", ident), ("identity-order", ident, edges_of(s["adj"])))] + combos
    for (mk, lab), (ok, norder, eorder) in combos:
        G = relabel.build_graph(n, norder, eorder, lab)
        back = {lab[u - 1]: u for u in nodes}
        tt, rt, jt, _js = event_sis.make_fxns(s)
        try:
            sim = EoN.fast_nonMarkov_SIS(G, trans_time_fxn=lambda a, b, rd: tt(back[a], back[b], rd), rec_time_fxn=lambda a: rt(back[a]),
                                         initial_infecteds=_bare([lab[u - 1] for u in nodes if s["init"][u - 1] == "I"]),
                                         tmin=float(s["tmin"]) - float(s.get("shift", 0)), tmax=float(s["tmax"]) - float(s.get("shift", 0)),
                                         return_full_data=True)

            class View(object):
                def node_history(self, u):
                    return sim.node_history(lab[u - 1])

                def transmissions(self):
                    return [(t, None if a is None else back[a], back[b]) for (t, a, b) in sim.transmissions()]
            got = event_sis.log_from_full(View(), nodes)
            if lattice:
                got = sorted([e[0], e[1], e[2]] for e in got)
                if want is None:
                    want = got
                    continue
            if got != want:
                k = 0
                while k < min(len(got), len(want)) and got[k] == want[k]:
                    k += 1
                probs.append(("fast_nonMarkov_SIS", mk, ok, "history", "differs from the reference semantics at event %d: %r vs %r" % (k, got[k:k + 2], want[k:k + 2])))
        except Exception as ex:
            probs.append(("fast_nonMarkov_SIS", mk, ok, "exception:%s" % type(ex).__name__, repr(ex)))
    return probs


def _disc(i):
    EoN = _G["EoN"]
    s = _G["rules"][i]
    infT, recT, tend = _G["rule_refs"][i]
    rng = pyrandom.Random(3000 + i)
    n = s["n"]
    nodes = list(range(1, n + 1))
    probs = []
    maps = relabel.label_maps(n, rng)
    ords = relabel.orders(n, edges_of(s["adj"]), rng)
    combos = [(m, o) for m in maps for o in ords]
    if _G["tier"] == "quick":
        combos = [combos[(i + k * 5) % len(combos)] for k in range(6)]
    notest = all(r == [1] for r in s["rec"])
    tmax = float("inf") if s["tmax"] >= INF else float(s["tmax"])
    for (mk, lab), (ok, norder, eorder) in combos:
        G = relabel.build_graph(n, norder, eorder, lab)
        back = {lab[u - 1]: u for u in nodes}
        cnt = {}

        def tt(a, b):
            return bool(s["succ"][back[a] - 1][back[b] - 1])

        def tr(a):
            u = back[a]
            cnt[u] = cnt.get(u, 0) + 1
            row = s["rec"][u - 1]
            return bool(row[min(cnt[u], len(row)) - 1])
        kw = dict(initial_infecteds=_bare([lab[u - 1] for u in nodes if s["init"][u - 1] == "I"]), tmin=s["tmin"], tmax=tmax, return_full_data=True)
        R0 = [lab[u - 1] for u in nodes if s["init"][u - 1] == "R"]
        if R0:
            kw["initial_recovereds"] = R0
        if not notest:
            kw["test_recovery"] = tr
        try:
            r = EoN.discrete_SIR(G, test_transmission=tt, args=(), **kw)
            for v in nodes:
                ts, ss = r.node_history(lab[v - 1])
                gi = [float(t) for t, x in zip(ts, ss) if x == "I"]
                gr = [float(t) for t, x in zip(ts, ss) if x == "R"]
                wi = [float(infT[v - 1])] if infT[v - 1] < INF else []
                wr = [float(recT[v - 1])] if recT[v - 1] < INF else []
                if gi != wi or gr != wr:
                    probs.append(("discrete_SIR", mk, ok, "history", "node %d: infected %r recovered %r, generation semantics %r / %r" % (v, gi, gr, wi, wr)))
                    break
        except Exception as ex:
            probs.append(("discrete_SIR", mk, ok, "exception:%s" % type(ex).__name__, repr(ex)))
    return probs


def main():
    chk = Check("C14", "model_checking")
    EoN = common.import_eon()
    tier = chk.tier
    _G.update(EoN=EoN, tier=tier)
    rng = pyrandom.Random(chk.seed + 14)
    # ---- simulators driven by deterministic rules: the relabelled run must be the same spec behaviour ----
    base = [s for s in event_scn.sir_scenarios(chk.seed + 1, 340 if tier == "quick" else 2000, sizes=(3, 4, 5), exhaustive2=False)
            if not s.get("directed")]
    # spec-level symmetry: TLC evaluates the reference on s and on pi(s); the outcomes must commute with pi
    perms = []
    sir = []
    for s in base:
        p = list(range(s["n"]))
        rng.shuffle(p)
        perms.append(p)
        sir.append(s)
        sir.append(permute_sir(s, p))
    res = c11.model_check(sir)
    chk.add_tlc("EventSIR on %d scenarios and their permuted copies" % len(base), res)
    if res.violation:
        chk.violation("spec|EventSIR|" + res.violation[:60], "TLC: " + res.violation, {})
    refs = {}
    for rec in res.printed("REF"):
        r = event_sir.ref_of(rec)
        refs[r["idx"] - 1] = r
    nsym = 0
    for k, s in enumerate(base):
        a, b, p = refs[2 * k], refs[2 * k + 1], perms[k]
        n = s["n"]
        ok = all(a["inf"][i] == b["inf"][p[i]] and a["rec"][i] == b["rec"][p[i]] and
                 {p[x - 1] + 1 for x in a["preds"][i]} == b["preds"][p[i]] for i in range(n)) and \
            {p[x - 1] + 1 for x in a["out"]} == b["out"]
        nsym += 1
        if not ok:
            chk.violation("spec|EventSIR-not-permutation-symmetric|", "reference outcome does not commute with the permutation %r on scenario %r" % (p, s), {"scenario": s})
    chk.part("spec symmetry", eventsir_instances=nsym)
    _G["sir"] = base
    _G["sir_refs"] = {k: refs[2 * k] for k in range(len(base))}

    sis = [s for s in event_scn.sis_scenarios(chk.seed + 2, 250 if tier == "quick" else 1500) if not s.get("directed")]
    res2 = c13.model_check(sis)
    chk.add_tlc("EventSIS on %d scenarios" % len(sis), res2)
    by = {}
    for rec in res2.printed("REF"):
        by.setdefault(rec[1] - 1, []).append((rec[2], rec[3]))
    sis_refs = {i: by[i][0][1] for i in by if not any(t for t, _ in by[i])}
    lat = event_scn.sis_lattice_scenarios(chk.seed + 5, 150 if tier == "quick" else 1000)
    for s_ in lat:
        sis_refs[len(sis)] = None
        sis.append(s_)
    _G["sis"] = sis
    _G["sis_refs"] = sis_refs

    rules = c12.rule_scenarios(chk.seed + 3, 250 if tier == "quick" else 1500, "quick")[-(250 if tier == "quick" else 1500):]
    res3 = c12.check_rules(rules)
    chk.add_tlc("DiscreteRule on %d scenarios" % len(rules), res3)
    rule_refs = {rec[1] - 1: (rec[2], rec[3], rec[4]) for rec in res3.printed("REF")}
    _G["rules"] = rules
    _G["rule_refs"] = rule_refs

    per = 6 if tier == "quick" else 28
    for name, fn, idx in (("fast_nonMarkov_SIR", _sir, list(range(len(base)))), ("fast_nonMarkov_SIS", _sis, sorted(sis_refs)),
                          ("discrete_SIR", _disc, sorted(rule_refs))):
        for i, probs in zip(idx, pool_map(fn, idx)):
            chk.cov["evaluations"] += per
            chk.cov["traces_validated_against_impl"] += per
            chk.cov["distinct_nontrivial"] += 1
            for (sim, mk, ok, kind, detail) in probs:
                chk.violation("%s|relabelling:%s|%s" % (sim, mk, kind), "%s [%s]" % (detail, ok), {"simulator": sim, "index": i, "labels": mk, "order": ok})
        chk.part(name, scenarios=len(idx), relabelled_runs=per * len(idx))
    # ---- ODE entry points ----
    try:
        from harness import c14_ode
    except ImportError:
        c14_ode = None
        chk.note("ODE half (harness/c14_ode.py) not present in this tree")
    if c14_ode is not None:
        c14_ode.run_ode_part(chk, tier, chk.seed)
    chk.sample({"label_kinds": [k for k, _ in relabel.label_maps(3, pyrandom.Random(0))], "orders": ["identity", "reversed", "shuffled x2"],
                "scenario": base[0]})
    rule = ("simulators with deterministic user rules (fast_nonMarkov_SIR, fast_nonMarkov_SIS, discrete_SIR): each TLC-checked scenario is run on relabelled graphs (permuted/negative ints, strings, tuples, "
            "frozensets, mixed labels) x node/edge insertion orders and must still produce the reference outcome TLC emitted for the unlabelled scenario (so all relabelled runs agree up to the map); "
            "spec-level symmetry is checked by having TLC evaluate the reference on each scenario and on a permuted copy; ODE entry points: see the ode part; non-trivial = every scenario (each has an epidemic)")
    return chk.finish(rule, exhaustive=False)


if __name__ == "__main__":
    common.run_main(main)

"""C19 - Calls do not modify their arguments and can be repeated.

Specification: specs/ApiFrame.tla (Call: env' = env; the call returns; for the
deterministic entry points result is a function of env).  Binding: B2 - for every
public entry point of EoN.simulation / EoN.analytic / EoN.auxiliary and every
scenario of harness/c19_support.py the real function is called twice with THE SAME
argument objects; the trace <env0, result1, env1, result2, env2> of argument /
result fingerprints is validated by TLC against specs/TraceApiFrame.tla, thousands
of traces per TLC start.  Python only records, fingerprints and - for a trace TLC
rejected - describes what changed; the verdict is TLC's.
"""
import collections
import json
import os

from harness import common, tlc
from harness import c19_support as sup
from harness.common import Check, pool_map

BATCH = 4000          # traces per TLC start
CANARY_BASE = 9000000  # ids of the negative controls mixed into every batch

TRACE_CFG = """CONSTANTS
  Args = {"a"}
  Values = {1}
  Results = {1}
SPECIFICATION TraceSpec
INVARIANT TraceFrame
POSTCONDITION TraceAccepted
CHECK_DEADLOCK FALSE
"""

MC_CFG = """CONSTANTS
  Args = {"G", "Y0"}
  Values = {1, 2}
  Results = {1, 2}
SPECIFICATION Spec
INVARIANT TypeOK
INVARIANT ResultIsMemo
PROPERTY Frame
PROPERTY MemoStable
PROPERTY Repeatable
PROPERTY SameEnvSameResult
PROPERTY DetFrozen
CHECK_DEADLOCK FALSE
"""


def model_check_spec(chk):
    """ApiFrame on small constants: the theorems the trace validation relies on."""
    res = tlc.run_tlc("ApiFrame", MC_CFG, workers=4, coverage=True, timeout=600)
    chk.add_tlc("ApiFrame exhaustive (2 arguments x 2 values x 2 results, det in BOOLEAN)", res)
    if res.violation:
        chk.violation("spec|ApiFrame|" + res.violation[:60], "TLC: " + res.violation, {"cfg": MC_CFG})
    for a in ("Call", "CallerSets"):
        if res.coverage.get(a, (0, 0))[1] == 0:
            raise common.MachineryFailure("vacuous TLC run: ApiFrame action %s never taken" % a)
    return res


# -----------------------------------------------------------------------------
# batches
# -----------------------------------------------------------------------------
class Table(object):
    """fingerprint (hex string) -> small positive integer, per batch (TLC ints are 32 bit)."""

    def __init__(self):
        self.ix = {}

    def __call__(self, fp):
        if fp == sup.RAISED:
            return 0
        v = self.ix.get(fp)
        if v is None:
            v = self.ix[fp] = len(self.ix) + 1
        return v

    def fresh(self):
        return self("fresh-%d" % len(self.ix))


def to_trace(tid, rec, tab):
    return {"id": tid, "det": bool(rec["det"]),
            "env0": {a: tab(rec["fp"][0][a]) for a in rec["args"]},
            "rows": [{"result": tab(rec["res"][r]), "env": {a: tab(rec["fp"][r + 1][a]) for a in rec["args"]}}
                     for r in (0, 1)]}


def canaries(traces, recs_by_id, tab):
    """Negative (and one positive) controls derived from real, clean traces of this batch.
    Returns [(trace, expectation)], expectation = None (must be accepted) or
    {row: (set of clauses, set of changed args)}."""
    import copy
    out = []

    def clean(t):
        return t["rows"][0]["env"] == t["env0"] == t["rows"][1]["env"] and t["rows"][0]["result"] == t["rows"][1]["result"] \
            and t["rows"][0]["result"] != 0
    det = next((t for t in traces if t["det"] and clean(t)), None)
    sto = next((t for t in traces if not t["det"] and clean(t)), None)
    n = CANARY_BASE
    if det is not None:
        arg = sorted(det["env0"])[0]
        c = copy.deepcopy(det)
        c["id"] = n + 1
        c["rows"][0]["env"][arg] = tab.fresh()
        out.append((c, {1: ({"argument-mutated"}, {arg}), 2: ({"argument-mutated"}, {arg})}))
        c = copy.deepcopy(det)
        c["id"] = n + 2
        c["rows"][1]["result"] = 0
        out.append((c, {2: ({"call-fails"}, set())}))
        c = copy.deepcopy(det)
        c["id"] = n + 3
        c["rows"][1]["result"] = tab.fresh()
        out.append((c, {2: ({"nondeterministic-result"}, set())}))
    if sto is not None:
        c = copy.deepcopy(sto)
        c["id"] = n + 4
        c["rows"][1]["result"] = tab.fresh()
        out.append((c, None))
    return out


def validate_batch(chk, batch_no, items):
    """items: [(tid, rec)].  Returns {tid: [(row, clauses, changed)]} for the rejected traces."""
    tab = Table()
    traces = [to_trace(tid, rec, tab) for tid, rec in items]
    ctl = canaries(traces, dict(items), tab)
    if len(ctl) < 4:
        chk.note("batch %d: only %d of the 4 control traces could be derived (no clean deterministic / stochastic trace)"
                 % (batch_no, len(ctl)))
    allt = traces + [c for c, _ in ctl]
    res = tlc.run_tlc("TraceApiFrame", TRACE_CFG, workers=1, coverage=True, timeout=1800,
                      files=[("c19_traces.json", json.dumps(allt))], env={"C19_TRACES": "c19_traces.json"})
    chk.add_tlc("TraceApiFrame batch %d (%d recorded traces + %d controls)" % (batch_no, len(traces), len(ctl)), res)
    if res.violation:
        raise common.MachineryFailure("TraceApiFrame: " + res.violation)
    head = res.printed("TRACES")
    unexpl = res.printed("UNEXPLAINED")
    both = res.printed("BOTH")
    if len(head) != 1 or len(unexpl) != 1 or len(both) != 1:
        raise common.MachineryFailure("TraceApiFrame post-condition output not found")
    if head[0][1] != len(allt):
        raise common.MachineryFailure("TLC read %s traces, %d were written" % (head[0][1], len(allt)))
    if unexpl[0][1]["__set__"] or both[0][1]["__set__"]:
        raise common.MachineryFailure("TraceApiFrame: traces neither accepted nor explained %r / both %r"
                                      % (unexpl[0][1]["__set__"][:5], both[0][1]["__set__"][:5]))
    for a in ("TraceCall", "TraceDone"):
        if res.coverage.get(a, (0, 0))[1] == 0:
            raise common.MachineryFailure("vacuous TLC run: %s never taken" % a)
    rejected = collections.defaultdict(list)
    for r in res.printed("REJECT"):
        rejected[r[1]].append((r[2], set(r[3]["__set__"]), set(r[4]["__set__"])))
    if head[0][3] + len(rejected) != len(allt):
        raise common.MachineryFailure("accepted %d + rejected %d != %d traces" % (head[0][3], len(rejected), len(allt)))
    # the controls must come out exactly as constructed, otherwise the binding is broken
    for c, exp in ctl:
        got = {row: (cl, ch) for row, cl, ch in rejected.pop(c["id"], [])}
        if (exp or {}) != got:
            raise common.MachineryFailure("control trace %d: expected %r, TLC reported %r" % (c["id"], exp, got))
    chk.part("TLC controls", derived=len(ctl), as_expected=len(ctl))
    return rejected, res


# -----------------------------------------------------------------------------
# reporting
# -----------------------------------------------------------------------------
def _exc_type(msg):
    return (msg or "Exception").split(":")[0]


def _result_class(resdiff):
    """stable class of a result difference: the kind of the first differing component"""
    return resdiff[0][0] if resdiff else "values"


def _call_text(rec):
    return "%s(%s)" % (rec["entry"], ", ".join("%s=%s" % (a, rec["arg_render"][a]) for a in rec["args"]))


def report(chk, rec, devs):
    """Turn TLC's deviations of one trace into violations (entry point | class | detail)."""
    entry = rec["entry"]
    base = {"entry": entry, "scenario": rec["sid"], "tier": chk.tier, "call": _call_text(rec),
            "tlc_deviations": [{"row": row, "clauses": sorted(cl), "changed": sorted(ch)} for row, cl, ch in devs],
            "how_to_replay": "./check C19 --replay <this file>"}
    mutated_in_1 = sorted(rec["diffs"][0]) if rec["diffs"] else []
    for row, clauses, changed in sorted(devs, key=lambda d: d[0]):
        if "argument-mutated" in clauses:
            for arg in sorted(changed):
                dd = rec["diffs"][row - 1].get(arg)
                if not dd:
                    raise common.MachineryFailure("TLC reports argument %s of %s changed in call %d, the recorder has no diff"
                                                  % (arg, rec["sid"], row))
                kind = sup.classify(dd)
                detail = "; ".join("%s: %s" % (p, d) for _, p, d in dd[:3])
                what = ("%s changed its argument %s during call #%d (%s). Input: %s. Expected: argument left as passed "
                        "(ApiFrame!Call: env' = env)." % (entry, arg, row, detail, _call_text(rec)))
                chk.violation("%s|argument-mutated:%s|%s" % (entry, arg, kind), what,
                              dict(base, argument=arg, kind=kind, diff=[list(x) for x in dd[:6]]))
        if "call-fails" in clauses:
            if row == 1:
                raise common.MachineryFailure("a trace whose first call raised was submitted: %s" % rec["sid"])
            what = ("%s: the second call with the same argument objects raised %s, the first one returned. Input: %s.%s "
                    "Expected: both calls return (ApiFrame!Call always returns)."
                    % (entry, rec["exc"][1], _call_text(rec),
                       (" The first call had modified %s." % ", ".join(mutated_in_1)) if mutated_in_1 else ""))
            chk.violation("%s|second-call-fails|%s" % (entry, _exc_type(rec["exc"][1])), what,
                          dict(base, exception=rec["exc"][1], mutated_by_first_call=mutated_in_1))
        if "nondeterministic-result" in clauses:
            cls = _result_class(rec["resdiff"])
            what = ("%s returned different results for two calls from the same, unmodified arguments: %s. Input: %s. "
                    "Expected: equal results (ApiFrame: result is a function of env for deterministic entry points)."
                    % (entry, "; ".join("%s: %s" % (x[1], x[2]) for x in (rec["resdiff"] or [])[:2]), _call_text(rec)))
            chk.violation("%s|nondeterministic-result|%s" % (entry, cls), what, dict(base, result_diff=rec["resdiff"]))


# -----------------------------------------------------------------------------
def run(chk, scns):
    sup.set_table(scns)
    recs = pool_map(sup.record_at, range(len(scns)))
    timeouts = [r for r in recs if "timeout" in r]
    if timeouts:
        raise common.MachineryFailure("%d scenario(s) timed out, e.g. %s: %s"
                                      % (len(timeouts), timeouts[0]["sid"], timeouts[0]["timeout"]))
    build_errors = [r for r in recs if "build_error" in r]
    if build_errors:
        raise common.MachineryFailure("scenario builder failed: %s: %s" % (build_errors[0]["sid"], build_errors[0]["build_error"]))
    first_fail = collections.OrderedDict()
    submitted = []
    for r in recs:
        chk.cov["evaluations"] += len(r["res"])
        chk.part(r["entry"], scenarios=1)
        if r["res"][0] == sup.RAISED:
            k = (r["entry"], r["exc"][0][:110])
            first_fail.setdefault(k, [0, r["sid"], set()])
            first_fail[k][0] += 1
            first_fail[k][2].update(r["diffs"][0] if r["diffs"] else [])
            chk.part(r["entry"], first_call_raises=1)
        else:
            submitted.append(r)
            chk.part(r["entry"], traces=1)
    for (entry, msg), (n, sid, mut) in first_fail.items():
        chk.note("%s raises on the FIRST call in %d scenario(s) (e.g. %s): %s - not a C19 matter (C06/C05/C14), no trace submitted%s"
                 % (entry, n, sid, msg, ("; arguments %s were modified before the exception" % sorted(mut)) if mut else ""))
    items = list(enumerate(submitted, 1))
    rejected_total = 0
    for b in range(0, len(items), BATCH):
        chunk = items[b:b + BATCH]
        rejected, res = validate_batch(chk, b // BATCH + 1, chunk)
        byid = dict(chunk)
        chk.cov["traces_validated_against_impl"] += len(chunk)
        for tid, devs in sorted(rejected.items()):
            rejected_total += 1
            chk.part(byid[tid]["entry"], rejected=1)
            report(chk, byid[tid], devs)
        # every difference the recorder saw must have been rejected by TLC (same integers), and vice versa
        for tid, rec in chunk:
            py = any(rec["diffs"][0]) or any(rec["diffs"][1]) or rec["res"][1] == sup.RAISED or \
                (rec["det"] and rec["res"][0] != rec["res"][1])
            if bool(py) != (tid in rejected):
                raise common.MachineryFailure("recorder and TLC disagree on trace %s" % rec["sid"])
    # distinct non-trivial: distinct (entry point, initial env) pairs whose two calls both returned
    seen = set()
    same_seed_equal = same_seed_diff = 0
    for r in submitted:
        if r["res"][1] != sup.RAISED:
            seen.add((r["entry"], tuple(sorted(r["fp"][0].items()))))
        if not r["det"] and r["res"][1] != sup.RAISED:
            if r["res"][0] == r["res"][1]:
                same_seed_equal += 1
            else:
                same_seed_diff += 1
                chk.note("%s: two calls with identical seeds and arguments returned different results (%s) - "
                         "reproducibility is C18's matter" % (r["entry"], r["sid"]))
    chk.cov["distinct_nontrivial"] = len(seen)
    chk.part("stochastic entry points, same seed", results_equal=same_seed_equal, results_differ=same_seed_diff)
    for r in submitted[:: max(1, len(submitted) // 5)]:
        chk.sample({"entry": r["entry"], "scenario": r["sid"], "call": _call_text(r), "det": r["det"],
                    "env_fingerprints": [{a: v[:12] for a, v in fp.items()} for fp in r["fp"]],
                    "result_fingerprints": [x if x == sup.RAISED else x[:12] for x in r["res"]],
                    "result": r["result_render"]})
    return len(recs), len(submitted), rejected_total


RULE = ("one case = one (entry point, scenario): the real function is called twice with the same argument objects after "
        "seeding random/numpy.random identically; arguments and results are fingerprinted (SHA-256 of a canonical deep snapshot: "
        "graphs with node order, adjacency order and all attributes; containers with order/type/defaults; arrays with shape, "
        "dtype, bytes) before and after each call; the trace <env0,result1,env1,result2,env2> is accepted or rejected by TLC "
        "against ApiFrame. evaluations = calls executed; traces_validated_against_impl = traces whose first call returned "
        "(the others are C06's business and only noted); distinct_nontrivial = distinct (entry point, initial env fingerprints) "
        "pairs for which both calls returned, i.e. the frame condition was judged on two completed calls")

EXPLANATION = ("Trace validation of a frame condition: TLC explores nothing of its own here - every recorded trace is a straight "
               "line of four states (one initial state per trace id, two Call steps, one Done step) and the ApiFrame model itself "
               "has a few thousand states (checked exhaustively on 2 arguments x 2 values x 2 results for the theorems Frame, "
               "Repeatable, SameEnvSameResult). The value of the run is that every recorded call of every public entry point is "
               "judged by the same explicit condition env' = env / the call returns / result = F(env), and that control traces "
               "with one corrupted field per clause are rejected in every batch. states/transitions are TLC's own counts summed "
               "over the runs. Coverage is by scenario families (small weighted graphs, every documented way of passing initial "
               "conditions, 1-D/2-D arrays of several dtypes/layouts, model-specification graphs, Pk/Pnk dicts), not exhaustive "
               "over all argument values.")


def main(argv=None):
    chk = Check("C19", "model_checking")
    common.import_eon()
    replay = os.environ.get("EON_VERIF_REPLAY")
    model_check_spec(chk)
    if replay:
        with open(replay) as fh:
            rp = json.load(fh)
        sid = rp["replay"]["scenario"]
        scns = []
        for tier in ("quick", "thorough"):
            table = sup.scenario_table(tier)[0]
            scns = [s for s in table if s.sid == sid][:1]
            if scns:
                # two well-behaved companions (one deterministic, one stochastic) so that the
                # control traces of the batch can be derived and TraceCall is exercised
                for e in ("get_Pk", "percolate_network"):
                    scns += [s for s in table if s.entry == e][:1]
                break
        if not scns:
            raise common.MachineryFailure("scenario %s of the replay file no longer exists" % sid)
        print("replaying %s (plus %d companion scenarios)" % (sid, len(scns) - 1))
        n, sub, rej = run(chk, scns)
        print("replay: %d trace(s) submitted, %d rejected by TLC" % (sub, rej))
        # a replay must not replace the evidence of the last full run
        evp = os.path.join(common.VERIF, "evidence", "C19.json")
        keep = open(evp, "rb").read() if os.path.exists(evp) else None
        rc = chk.finish(RULE + " [replay of one scenario]", explanation=EXPLANATION)
        if keep is not None:
            with open(evp, "wb") as fh:
                fh.write(keep)
        return rc
    scns, uncovered, missing = sup.scenario_table(chk.tier)
    eps = sup.public_entry_points()
    for n in uncovered:
        chk.note("entry point %s has no C19 scenario (not covered)" % n)
    for n in missing:
        chk.note("scenario builder for %s: no such public function in this tree" % n)
    if len(uncovered) > len(eps) // 4:
        raise common.MachineryFailure("%d of %d entry points are not covered" % (len(uncovered), len(eps)))
    nrec, nsub, nrej = run(chk, scns)
    covered = {s.entry for s in scns}
    chk.part("entry points", public=len(eps), covered=len(covered), scenarios=nrec, traces=nsub, rejected_by_tlc=nrej)
    never = sorted(e for e in covered if chk.cov["parts"].get(e, {}).get("traces", 0) == 0)
    if never:
        chk.note("entry points whose first call raised in every scenario (frame condition not judged): %s" % ", ".join(never))
    return chk.finish(RULE, exhaustive=False, explanation=EXPLANATION)


if __name__ == "__main__":
    common.run_main(main)

"""C03 - Gillespie_simple_contagion realises exactly the user-specified transitions."""
import itertools
import json
import os
import random as pyrandom
import shutil
import tempfile

from harness import common, tlc, contagion
from harness.common import Check


def emit(scn):
    d = tempfile.mkdtemp(prefix="eonverif_c03_")
    try:
        p = os.path.join(d, "scenarios.json")
        with open(p, "w") as fh:
            json.dump(scn, fh)
        cfg = tlc.cfg_text({}, view="View", action_constraints=["Emit"], invariants=["TypeOK"],
                           properties=["OneSpecEdge", "InducerKeeps", "ScenarioFrozen"]).replace("CONSTANTS\n", "")
        return tlc.run_tlc("SimpleContagion", cfg, workers=1, env={"EON_SCENARIOS": p}, coverage=True, timeout=3000)
    finally:
        shutil.rmtree(d, ignore_errors=True)


def main():
    chk = Check("C03" if contagion.ENTRY == "Gillespie_simple_contagion" else "X03", "model_checking")
    common.import_eon()
    scn = contagion.make_scenarios(chk.tier, chk.seed)
    res = emit(scn)
    chk.add_tlc("SimpleContagion: %d (model, graph, weights) scenarios x every status vector" % len(scn), res)
    if res.violation:
        chk.violation("spec|SimpleContagion|" + res.violation[:60], "TLC: " + res.violation, {})
    for a in ("DoSpont", "DoInduced"):
        if res.coverage.get(a, (0, 0))[1] == 0:
            raise common.MachineryFailure("vacuous TLC run: %s never taken" % a)
    # implementation-shaped candidate sets: potential[t] = enabled(t) after set-up and after every incremental update
    d = tempfile.mkdtemp(prefix="eonverif_c03i_")
    try:
        pth = os.path.join(d, "scenarios.json")
        with open(pth, "w") as fh:
            json.dump(scn, fh)
        icfg = tlc.cfg_text({}, spec="ImplSpec", view="IView", invariants=["PotentialExact", "NoBadRemove"],
                            properties=["RefinesSimpleContagion"]).replace("CONSTANTS\n", "")
        ires = tlc.run_tlc("SimpleContagionImpl", icfg, workers=16, env={"EON_SCENARIOS": pth}, timeout=3000)
    finally:
        shutil.rmtree(d, ignore_errors=True)
    chk.add_tlc("SimpleContagionImpl: incremental candidate sets (directed and undirected branches) refine SimpleContagion", ires)
    if ires.violation:
        chk.violation("spec|SimpleContagionImpl|" + ires.violation[:60], "TLC: " + ires.violation, {})
    sg = {}
    for rec in res.printed("E"):
        _, s, st, st2, ev = rec
        sg.setdefault(s - 1, {}).setdefault(tuple(st), []).append(((ev[0], ev[1], ev[2], ev[3]), ev[4], tuple(st2)))
    # several model transitions can produce the same observable event: add their rates
    for s in sg:
        for st in sg[s]:
            agg = {}
            for (k, r, st2) in sg[s][st]:
                a = agg.setdefault(k, [0, st2])
                a[0] += r
            sg[s][st] = [(k, a[0], a[1]) for k, a in agg.items()]
    contagion.SG = sg
    contagion.SCN = scn
    rng = pyrandom.Random(chk.seed + 5)
    tasks = []
    hz = 3 if chk.tier == "quick" else 4
    for i, s in enumerate(scn):
        allst = list(itertools.product(s["statuses"], repeat=s["n"]))
        pick = allst if len(allst) <= 8 else rng.sample(allst, 6 if chk.tier == "quick" else 16)
        for st0 in pick:
            tasks.append({"sc": i, "st0": st0, "horizon": hz, "tuple_statuses": (len(tasks) % 5 == 0),
                          "tmin": 2 if len(tasks) % 7 == 0 else 0,
                          "scale": (1.0, 1.0, 2.0 ** -40, 1.0, 2.0 ** 30)[len(tasks) % 5]})
    done = common.pool_run(contagion.run_scenario, tasks, lambda r: bool(r["problems"]), is_settled=lambda r: bool(r.get("settled")))
    common.report_settled(chk, [r for _, r in done])
    for t, r in done:
        chk.cov["evaluations"] += r["leaves"] + r["arr"]
        chk.cov["traces_validated_against_impl"] += r["leaves"]
        if r["events"] > 0:
            chk.cov["distinct_nontrivial"] += 1
        chk.part("replay", scenarios=1, leaves=r["leaves"], events=r["events"], trie_nodes=r["nodes"], array_mode_reruns=r["arr"])
        for p in r["problems"]:
            chk.violation("%s|%s|%s" % (contagion.ENTRY, p["kind"], p.get("cls", "")),
                          p["detail"] + (" after history %r" % (p["history"],) if "history" in p else ""),
                          {"scenario": scn[t["sc"]], "task": t, "problem": p})
    if len(done) < len(tasks):
        chk.note("stopped after %d of %d scenarios because enough failing scenarios were collected" % (len(done), len(tasks)))
    t, r = done[len(done) // 2]
    chk.sample({"scenario": scn[t["sc"]], "initial_statuses": t["st0"], "horizon_events": t["horizon"], "leaves": r["leaves"]})
    rule = ("scenario = (user model: SIS, SIR, SIRS, SEIR, SIRV, competing, cooperating, same-status inducer, curing neighbours, spontaneous-only, generated 3-status specs) x "
            "(undirected / directed graph on 3 nodes) x (no weights / weight labels incl. 0 / rate functions incl. asymmetric) x initial status vector; TLC emits the rate-labelled "
            "transition system of SimpleContagion for every status vector; the implementation's decision tree to the event horizon is enumerated under the scripted random source and compared "
            "at every history (enabled events, probabilities, clock rate, rows, both return modes, string and tuple statuses); non-trivial = the tree contains an event")
    return chk.finish(rule, exhaustive=False)


if __name__ == "__main__":
    common.run_main(main)

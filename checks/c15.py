"""C15 - Gillespie_complex_contagion always acts on up-to-date rates."""
import itertools
import json
import os
import random as pyrandom
import shutil
import tempfile

from harness import common, tlc, complexc
from harness.common import Check


def run(scn, invariants, emit=True, workers=1):
    d = tempfile.mkdtemp(prefix="eonverif_c15_")
    try:
        p = os.path.join(d, "scenarios.json")
        with open(p, "w") as fh:
            json.dump(scn, fh)
        cfg = tlc.cfg_text({}, view="View", action_constraints=["Emit"] if emit else [], invariants=invariants,
                           properties=["OneNodeChanges"]).replace("CONSTANTS\n", "")
        return tlc.run_tlc("ComplexContagion", cfg, workers=workers, env={"EON_SCENARIOS": p}, coverage=True, timeout=3000)
    finally:
        shutil.rmtree(d, ignore_errors=True)


def main():
    chk = Check("C15", "model_checking")
    common.import_eon()
    scn = complexc.make_scenarios(chk.tier, chk.seed)
    res = run(scn, ["TypeOK", "RatesFresh", "StopsIffZero"])
    chk.add_tlc("ComplexContagion: %d (model, graph) scenarios x every status vector" % len(scn), res)
    if res.violation:
        chk.violation("spec|ComplexContagion|" + res.violation[:60], "TLC: " + res.violation, {})
    if res.coverage.get("Fire", (0, 0))[1] == 0 and res.coverage.get("Next", (0, 0))[1] == 0:
        raise common.MachineryFailure("vacuous TLC run: Fire never taken")
    ctl = run(complexc.control_scenarios(), ["StaleControl"], emit=False, workers=4)
    chk.add_tlc("ComplexContagion control: influence radius too small must yield a stale rate", ctl)
    if not ctl.violation:
        raise common.MachineryFailure("non-vacuity control failed: TLC found no stale rate for an inadequate influence set")
    sg = {}
    for rec in res.printed("E"):
        _, s, st, st2, ev = rec
        sg.setdefault(s - 1, {}).setdefault(tuple(st), []).append(((ev[0], ev[1]), ev[2], tuple(st2)))
    complexc.SG = sg
    complexc.SCN = scn
    rng = pyrandom.Random(chk.seed + 9)
    tasks = []
    for i, s in enumerate(scn):
        allst = list(itertools.product(s["statuses"], repeat=s["n"]))
        pick = allst if len(allst) <= 27 else rng.sample(allst, 20 if chk.tier == "quick" else 60)
        hz = (5 if s["n"] <= 3 else 4) if chk.tier == "quick" else 6
        for st0 in pick:
            tasks.append({"sc": i, "st0": st0, "horizon": hz, "tmin": 3 if len(tasks) % 6 == 0 else 0,
                          "infl_kind": ("set", "list", "iterator", "generator")[len(tasks) % 4],
                          "labels": ("str", "ints", "str", "falsy", "str")[len(tasks) % 5],
                          "ret_subset": (0, 0, 1, 2, 3)[len(tasks) % 5 if len(tasks) % 3 == 0 else 0],
                          "oversized_ic": len(tasks) % 4 == 1})
    done = common.pool_run(complexc.run_scenario, tasks, lambda r: bool(r["problems"]), is_settled=lambda r: bool(r.get("settled")))
    common.report_settled(chk, [r for _, r in done])
    for t, r in done:
        chk.cov["evaluations"] += r["leaves"] + r["arr"]
        chk.cov["traces_validated_against_impl"] += r["leaves"]
        if r["events"] > 0:
            chk.cov["distinct_nontrivial"] += 1
        chk.part("replay", scenarios=1, leaves=r["leaves"], events=r["events"], trie_nodes=r["nodes"], array_mode_reruns=r["arr"])
        for p in r["problems"]:
            chk.violation("Gillespie_complex_contagion|%s|%s" % (p["kind"], p.get("cls", "")),
                          p["detail"] + (" after history %r" % (p["history"],) if "history" in p else ""),
                          {"scenario": scn[t["sc"]], "task": t, "problem": p})
    # rounding: rates that are not exactly representable, unbounded horizon, runs that must terminate
    ftasks = []
    for i, s in enumerate(scn):
        if s["model"] not in complexc.ABSORBING:
            continue
        allst = [st for st in itertools.product(s["statuses"], repeat=s["n"]) if sg.get(i, {}).get(tuple(st))]
        for st0 in rng.sample(allst, min(len(allst), 3 if chk.tier == "quick" else 12)):
            for unit in (0.3, 0.1, 1.0 / 3.0, 0.7):
                ftasks.append({"sc": i, "st0": st0, "unit": unit, "seeds": list(range(chk.seed * 100, chk.seed * 100 + (6 if chk.tier == "quick" else 40)))})
    fruns = 0
    for t, r in zip(ftasks, common.pool_map(complexc.float_probe, ftasks)):
        fruns += r["runs"]
        chk.cov["evaluations"] += r["runs"]
        chk.cov["traces_validated_against_impl"] += r["runs"]
        for p in r["problems"]:
            chk.violation("Gillespie_complex_contagion|%s|%s" % (p["kind"], p["cls"]), p["detail"], {"scenario": scn[t["sc"]], "task": t, "problem": p})
    chk.part("seeded runs with non-dyadic rates and unbounded horizon, validated as terminated paths of the emitted transition system", runs=fruns, tasks=len(ftasks))
    if len(done) < len(tasks):
        chk.note("stopped after %d of %d scenarios because enough failing scenarios were collected" % (len(done), len(tasks)))
    t, r = done[len(done) // 2]
    chk.sample({"scenario": scn[t["sc"]], "initial_statuses": t["st0"], "horizon_events": t["horizon"], "leaves": r["leaves"]})
    rule = ("scenario = (user model table: threshold-2, threshold-1 with recovery, SIR as complex contagion, cyclic 3-status, distance-2 influence, neighbour-dependent chooser) x "
            "(every graph on 3 nodes, sampled/all graphs on 4 nodes) x initial status vector; TLC checks the re-rating invariant of the implementation-shaped bag, emits the rate-labelled "
            "transition system, and must find a stale rate for a deliberately inadequate influence set; the implementation's decision tree to the event horizon (user callbacks generated from "
            "the same table) is compared at every history: next node probabilities, clock rate, chooser's status, stop iff all rates zero, rows; non-trivial = the tree contains an event")
    return chk.finish(rule, exhaustive=False)


if __name__ == "__main__":
    common.run_main(main)

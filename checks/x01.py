"""X01 (extra coverage, not one of the listed properties) - EoN.hierarchy_pos lays a tree out as documented.

specs/HierarchyPos.tla: TLC checks, on every plane tree with at most MaxN nodes and every node asked for as
the root of a directed tree, that the recursion of _hierarchy_pos equals the declarative layout (top-down
interval splitting, bottom-up even spreading of the leaves, midpoints), that siblings appear left to right in
adjacency order, that branches of siblings never overlap, that nodes of one level never coincide, that every x
lies inside [0, width]; it prints tree |-> exact coordinates.

This module replays every printed record into the real EoN.hierarchy_pos: undirected trees (root given; root
chosen by the function itself - the layout is then looked up in TLC's table under the tree's re-rooted plane
numbering), directed trees (true root, root left out, any inner node as root), several label types and two
adjacency orders, a handful of (width, vert_gap, vert_loc, leaf_vs_root_factor) settings, and compares
every coordinate (1e-9).  Not registered in MANIFEST.checks (no listed property); evidence goes to
/verif/evidence_extra/X01.json.
"""
import os
import sys
import time

from harness import common, tlc
from harness.common import Check, MachineryFailure

SETTINGS = [  # width, vert_gap, vert_loc, f numerator (f = fn/2)
    (1.0, 0.2, 0, 1),
    (1.0, 0.2, 0, 0),
    (1.0, 0.2, 0, 2),
    (2.0, 0.5, 1.0, 1),
    (4.0, 0.25, -1.0, 0),
    (0.5, 1.0, 3.0, 2),
]
INVARIANTS = ["TypeOK", "ScaleExact", "ImplEqualsDef", "SiblingOrder", "BranchesDisjoint", "LevelDistinct",
              "InRange", "ParentOverChildren"]


def scale_for(maxn):
    import math
    l = 1
    for k in range(1, maxn + 1):
        l = l * k // math.gcd(l, k)
    return l * 2 ** maxn


def run_spec(maxn, emit, workers):
    cfg = tlc.cfg_text({"MaxN": maxn, "S": scale_for(maxn), "EmitOn": emit}, invariants=INVARIANTS)
    return tlc.run_tlc("HierarchyPos", cfg, workers=workers, coverage=not emit, timeout=1500)


def plane_key(G, root, directed):
    """(n, parent tuple) of the tree hanging from `root` under its preorder numbering in adjacency order, and the numbering"""
    order, parent = [], {}
    stack = [(root, None)]
    while stack:
        v, p = stack.pop()
        order.append(v)
        parent[v] = p
        kids = [c for c in (G.successors(v) if directed else G.neighbors(v)) if c != p]
        for c in reversed(kids):
            stack.append((c, v))
    num = {v: i + 1 for i, v in enumerate(order)}
    return (len(order), tuple(num[parent[v]] for v in order[1:])), num


def as_map(f, first=1):
    """TLC prints a function whose domain is 1..k as a tuple, any other as (a :> x @@ ...)"""
    if isinstance(f, dict):
        return {int(k): v for k, v in f.items()}
    return {i + first: v for i, v in enumerate(f)}


def replay_chunk(job):
    """job = (records, table) ; table: (n, par tuple) -> record with r = 1"""
    import networkx as nx
    import random
    EoN = common.import_eon()
    recs, table = job
    out = {"calls": 0, "nontrivial": 0, "problems": {}, "outside": {}, "samples": []}

    def problem(key, what, replay):
        slot = out["problems"].setdefault(key, [what, replay, 0])
        slot[2] += 1

    def outside(key):
        out["outside"][key] = out["outside"].get(key, 0) + 1

    def compare(tag, pos, rec, labels, width, gap, loc, fn, replay):
        _, n, par, r, sub, vals, xmax, leafcount = rec
        exp_nodes = {labels[v] for v in sub}
        if set(pos) != exp_nodes:
            problem("hierarchy_pos|nodes-laid-out|" + tag, "positions for %r, the tree below the root has %r" % (sorted(map(str, pos)), sorted(map(str, exp_nodes))), replay)
            return
        xm = xmax[fn]
        for v in sub:
            d, lx, rx = vals[v]
            ex = (fn * lx + (2 - fn) * rx) / xm * width
            ey = loc - d * gap
            x, y = pos[labels[v]]
            if abs(x - ex) > 1e-9 * max(1.0, width) or abs(y - ey) > 1e-9:
                problem("hierarchy_pos|coordinates|" + tag,
                        "node %r (number %d of the plane tree) at (%r, %r); the layout puts it at (%r, %r)" % (labels[v], v, x, y, ex, ey), replay)
                return

    for rec in recs:
        _, n, parf, r, sub, vals, xmax, leafcount = rec
        par = as_map(parf)
        vals = as_map(vals)
        rec = (rec[0], n, par, r, sub, vals, xmax, leafcount)
        edges_pf = [(par[v], v) for v in range(2, n + 1)]                  # adjacency: parent first
        depth = {1: 0}
        for v in range(2, n + 1):
            depth[v] = depth[par[v]] + 1
        edges_pl = sorted(edges_pf, key=lambda e: (-depth[e[1]], e[1]))    # adjacency: children first, parent last
        for li, labels in enumerate(({v: v for v in range(1, n + 1)}, {v: "n%d" % (7 - v) for v in range(1, n + 1)},
                                     {v: (v % 2, v) for v in range(1, n + 1)})):
            for si, (width, gap, loc, fn) in enumerate(SETTINGS):
                if (li + si + n + r) % 2 and not (li == 0 and si == 0):
                    continue  # half of the label/setting combinations per record
                kw = dict(width=width, vert_gap=gap, vert_loc=loc, leaf_vs_root_factor=fn / 2.0)
                graphs = []
                if r == 1:
                    for tag, edges in (("undirected,parent-first", edges_pf), ("undirected,parent-last", edges_pl)):
                        G = nx.Graph()
                        G.add_nodes_from(labels[v] for v in range(1, n + 1))
                        G.add_edges_from((labels[a], labels[b]) for a, b in edges)
                        graphs.append((tag, G, labels[1], False))
                    D = nx.DiGraph()
                    D.add_nodes_from(labels[v] for v in range(1, n + 1))
                    D.add_edges_from((labels[a], labels[b]) for a, b in edges_pf)
                    graphs.append(("directed,root-left-out", D, None, True))
                    graphs.append(("directed,root-given", D, labels[1], True))
                else:
                    D = nx.DiGraph()
                    D.add_nodes_from(labels[v] for v in range(1, n + 1))
                    D.add_edges_from((labels[a], labels[b]) for a, b in edges_pf)
                    graphs.append(("directed,inner-root", D, labels[r], True))
                for tag, G, root, directed in graphs:
                    replay = {"n": n, "parent": par, "root_number": r, "labels": {str(k): repr(v) for k, v in labels.items()},
                              "graph": tag, "kwargs": kw}
                    out["calls"] += 1
                    dom = "leafless-root" if leafcount == 0 else ("all-x-zero" if xmax[fn] == 0 else None)
                    try:
                        pos = EoN.hierarchy_pos(G, root, **kw)
                    except Exception as e:
                        if dom:
                            outside("%s: %s" % (dom, type(e).__name__))
                        else:
                            problem("hierarchy_pos|raises|" + tag, "%s: %s" % (type(e).__name__, e), replay)
                        continue
                    if dom:
                        outside("%s: returned" % dom)
                        continue
                    if n > 2:
                        out["nontrivial"] += 1
                    compare(tag, pos, rec, labels, width, gap, loc, fn, replay)
                    if len(out["samples"]) < 2 and n >= 5:
                        out["samples"].append({"call": replay, "returned": {repr(k): list(v) for k, v in pos.items()}})
                # the function chooses the root of an undirected tree itself: any node; the layout must be the
                # one of the tree re-rooted there, looked up in TLC's table by its plane numbering
                if r == 1 and n >= 2 and si == 0:
                    G = graphs[0][1]
                    saved = random.getstate()
                    random.seed(1000 * n + li)
                    try:
                        pos = EoN.hierarchy_pos(G, **kw)
                    except Exception as e:
                        pos = None
                        # a root that is chosen among the leaves of a 2-node tree etc. stays inside the domain (leafcount >= 1)
                        problem("hierarchy_pos|raises|undirected,root-left-out", "%s: %s" % (type(e).__name__, e),
                                {"n": n, "parent": par, "kwargs": kw})
                    finally:
                        random.setstate(saved)
                    out["calls"] += 1
                    if pos is not None:
                        tops = [v for v, (x, y) in pos.items() if abs(y - loc) < 1e-12]
                        if len(tops) != 1:
                            problem("hierarchy_pos|coordinates|undirected,root-left-out", "%d nodes at the root's height" % len(tops),
                                    {"n": n, "parent": par, "kwargs": kw})
                        else:
                            key, num = plane_key(G, tops[0], False)
                            rec2 = table.get(key)
                            if rec2 is None:
                                raise MachineryFailure("re-rooted tree %r is not in TLC's table" % (key,))
                            inv = {i: v for v, i in num.items()}
                            xm2 = rec2[6][fn]
                            if rec2[7] > 0 and xm2 > 0:
                                r2 = (rec2[0], rec2[1], None, 1, rec2[4], as_map(rec2[5]), rec2[6], rec2[7])
                                compare("undirected,root-left-out", pos, r2, inv, width, gap, loc, fn,
                                        {"n": n, "parent": par, "chosen_root": repr(tops[0]), "kwargs": kw})
    return out


def main():
    chk = Check("X01", "model_checking")
    t0 = time.time()
    maxn = 5 if chk.tier == "quick" else 6
    from concurrent.futures import ThreadPoolExecutor
    with ThreadPoolExecutor(max_workers=3) as ex:
        f_design = ex.submit(run_spec, maxn, False, 8)
        f_emit = ex.submit(run_spec, maxn, True, 1)
        try:
            design, emit = f_design.result(), f_emit.result()
        except tlc.TLCError as e:
            raise MachineryFailure("TLC failed on HierarchyPos: %s" % e)
    for name, res in (("design", design), ("emission", emit)):
        if res.violation or not res.ok:
            raise MachineryFailure("HierarchyPos (%s): the specification contradicts itself: %s" % (name, res.violation))
    chk.add_tlc("HierarchyPos: recursion = declarative layout, sibling order, disjoint branches, distinct level mates, range; "
                "every plane tree with <= %d nodes x every root (S = %d)" % (maxn, scale_for(maxn)), design)
    chk.add_tlc("HierarchyPos: emission of tree |-> coordinates", emit)
    if design.coverage.get("Emit", (0, 0))[1] == 0:
        raise MachineryFailure("vacuous HierarchyPos run")
    recs = emit.printed("HP")
    import math
    want = sum(math.factorial(k - 1) * k for k in range(1, maxn + 1))
    if len(recs) != want:
        raise MachineryFailure("TLC printed %d layouts, the domain has %d (tree, root) pairs" % (len(recs), want))
    table = {}
    for rec in recs:
        _, n, parf, r, sub, vals, xmax, leafcount = rec
        if r == 1:
            pm = as_map(parf)
            table[(n, tuple(pm[v] for v in range(2, n + 1)))] = rec
    print("TLC: %d (tree, root) layouts in %.1fs" % (len(recs), time.time() - t0))
    chunks = [(recs[i:i + 40], table) for i in range(0, len(recs), 40)]
    done = common.pool_run(replay_chunk, chunks, lambda r: bool(r["problems"]), stop_after=10)
    calls = nontriv = 0
    outside = {}
    for _, r in done:
        calls += r["calls"]
        nontriv += r["nontrivial"]
        for k, v in r["outside"].items():
            outside[k] = outside.get(k, 0) + v
        for s_ in r["samples"]:
            chk.sample(s_, cap=3)
        for key, (what, replay, cnt) in r["problems"].items():
            chk.violation(key, what, replay)
    # inputs that are no trees must be refused
    import networkx as nx
    EoN = common.import_eon()
    for name, G in (("cycle", nx.cycle_graph(4)), ("forest", nx.Graph([(0, 1), (2, 3)])), ("directed-cycle", nx.DiGraph([(0, 1), (1, 2), (2, 0)]))):
        calls += 1
        try:
            EoN.hierarchy_pos(G, 0)
            chk.violation("hierarchy_pos|accepts-a-graph-that-is-no-tree|" + name, "returned positions for a %s" % name, {"graph": name})
        except TypeError:
            pass
        except Exception as e:
            chk.violation("hierarchy_pos|wrong-exception|" + name, "%s: %s" % (type(e).__name__, e), {"graph": name})
    for k, v in sorted(outside.items()):
        chk.note("outside the layout's domain (%s) in %d calls: a root without any leaf below it (a single node, or a leaf of a directed tree asked "
                 "for as root) makes width/#leaves undefined, and the pure bottom-up layout (leaf_vs_root_factor=1) of a path puts every node at x=0 so the "
                 "final rescaling divides by zero; the docstring does not exclude these inputs" % (k, v))
    chk.note("docstring of hierarchy_pos: '0 gives pure bottom up, while 1 gives pure top down' - the code (and this specification) mix "
             "leaf_vs_root_factor*bottom_up + (1-leaf_vs_root_factor)*top_down, i.e. the other way round")
    chk.cov["evaluations"] = calls
    chk.cov["distinct_nontrivial"] = nontriv
    chk.cov["traces_validated_against_impl"] = calls
    chk.part("hierarchy_pos replay", layouts=len(recs), calls=calls, settings=len(SETTINGS))
    chk.assumptions.append("TLC has no rationals: coordinates are emitted as integers in the scale S (divisions proved exact by the ScaleExact invariant); "
                           "the final division by the largest x is done by the harness")
    return chk.finish("every coordinate returned by EoN.hierarchy_pos equals the TLC-emitted layout (1e-9) on every plane tree in the bound",
                      exhaustive=len(done) == len(chunks))


if __name__ == "__main__":
    common.run_main(main)

"""X02 (extra coverage, not one of the listed properties) - a Simulation_Investigation object BUILT BY HAND from node
histories answers summary(), t(), S(), I(), R(), node_status(), get_statuses() and node_history() as the Investigation
semantics define them.

specs/CheckInvestigation.tla: TLC checks on every set of time-ordered node histories in the bound (also histories no
simulator produces: repeated statuses, several changes at one instant, S -> R) that the delta-accumulation algorithm of
summary() and the count-of-change-times algorithm of node_status() equal the declarative definitions, and prints
histories |-> statuses at every time, counts at every time, change times.  C10 binds these semantics to what the
simulators return; this module binds them to the public constructor on the whole TLC-enumerated domain.
Evidence: /verif/evidence_extra/X02.json.
"""
import time

from harness import common, tlc
from harness.common import Check, MachineryFailure

STS = ["S", "I", "R"]


def seqmap(x, first=0):
    """TLC prints a function over 0..k as (0 :> a @@ 1 :> b ...) and over 1..k as a tuple"""
    if isinstance(x, dict):
        return {int(k): v for k, v in x.items()}
    return {i + 1: v for i, v in enumerate(x)}


def replay_chunk(recs):
    import networkx as nx
    EoN = common.import_eon()
    out = {"calls": 0, "nontrivial": 0, "problems": {}, "samples": []}

    def problem(key, what, replay):
        out["problems"].setdefault(key, [what, replay, 0])[2] += 1

    for rec in recs:
        _, H, stat, cnt, times = rec
        H = seqmap(H)
        stat = seqmap(stat)
        cnt = seqmap(cnt)
        times = sorted(times["__set__"] if isinstance(times, dict) else times)
        nodes = sorted(H)
        hist = {u: ([float(e[0]) for e in H[u]], [e[1] for e in H[u]]) for u in nodes}
        replay = {"node_history": {str(u): hist[u] for u in nodes}}
        for variant in ("statuses-given", "statuses-left-out", "labels"):
            lab = (lambda u: "n%d" % u) if variant == "labels" else (lambda u: u)
            G = nx.path_graph(len(nodes))
            G = nx.relabel_nodes(G, {i: lab(u) for i, u in enumerate(nodes)})
            nh = {lab(u): (list(hist[u][0]), list(hist[u][1])) for u in nodes}
            kw = {} if variant == "statuses-left-out" else {"possible_statuses": list(STS)}
            out["calls"] += 1
            try:
                sim = EoN.Simulation_Investigation(G, nh, **kw)
            except Exception as e:
                problem("Simulation_Investigation|constructor-raises|" + variant, "%s: %s" % (type(e).__name__, e), replay)
                continue
            if len(times) > 1:
                out["nontrivial"] += 1
            try:
                t, D = sim.summary()
                got_t = [float(x) for x in t]
                if got_t != [float(x) for x in times]:
                    problem("summary|times|" + variant, "summary() lists the times %r, the histories change at %r" % (got_t, times), replay)
                else:
                    for k, T in enumerate(times):
                        want = dict(zip(STS, cnt[T]))
                        got = {s: int(D[s][k]) for s in STS if s in D}
                        present = {s for u in nodes for s in hist[u][1]}
                        for s in STS:
                            if s in got and got[s] != want[s]:
                                problem("summary|counts|" + variant, "at time %r summary() counts %r, the histories give %r" % (T, got, want), replay)
                                break
                            if s not in got and (variant != "statuses-left-out" or s in present):
                                problem("summary|status-missing|" + variant, "status %r is not in summary()" % s, replay)
                                break
                    if variant != "statuses-left-out":
                        acc = [list(map(float, sim.t())), list(map(int, sim.S())), list(map(int, sim.I())), list(map(int, sim.R()))]
                        exp = [[float(x) for x in times]] + [[cnt[T][j] for T in times] for j in range(3)]
                        if acc != exp:
                            problem("t,S,I,R|values|" + variant, "t(), S(), I(), R() = %r, the histories give %r" % (acc, exp), replay)
            except Exception as e:
                problem("summary|raises|" + variant, "%s: %s" % (type(e).__name__, e), replay)
            try:
                for T in sorted(stat):
                    for q in (float(T), T + 0.5):
                        want = {lab(u): seqmap(stat[T])[u] for u in nodes}
                        got = sim.get_statuses(time=q)
                        if dict(got) != want:
                            problem("get_statuses|values|" + variant, "get_statuses(time=%r) = %r, the histories give %r" % (q, dict(got), want), replay)
                            raise StopIteration
                        for u in nodes:
                            if sim.node_status(lab(u), q) != want[lab(u)]:
                                problem("node_status|values|" + variant, "node_status(%r, %r) = %r, the histories give %r"
                                        % (lab(u), q, sim.node_status(lab(u), q), want[lab(u)]), replay)
                                raise StopIteration
                for u in nodes:
                    a, b = sim.node_history(lab(u))
                    if (list(map(float, a)), list(b)) != hist[u]:
                        problem("node_history|values|" + variant, "node_history(%r) = %r, given %r" % (lab(u), (a, b), hist[u]), replay)
                        break
            except StopIteration:
                pass
            except Exception as e:
                problem("get_statuses|raises|" + variant, "%s: %s" % (type(e).__name__, e), replay)
        if len(out["samples"]) < 1 and len(times) == 3:
            out["samples"].append(replay)
    return out


def main():
    chk = Check("X02", "model_checking")
    t0 = time.time()
    consts = {"MaxT": 2, "MaxLen": 3, "NNodes": 2, "Ordered": True}
    try:
        res = tlc.run_tlc("CheckInvestigation", tlc.cfg_text(consts, invariants=["SummaryAlgorithmCorrect", "StatusAlgorithmCorrect", "EmitRecord"]),
                          workers=1, timeout=1500)
    except tlc.TLCError as e:
        raise MachineryFailure("TLC failed on CheckInvestigation: %s" % e)
    if res.violation or not res.ok:
        raise MachineryFailure("CheckInvestigation contradicts itself: %s" % res.violation)
    chk.add_tlc("CheckInvestigation: algorithms = definitions and emission, every pair of time-ordered histories %r" % consts, res)
    recs = res.printed("INV")
    if len(recs) != res.distinct or not recs:
        raise MachineryFailure("TLC printed %d records for %d sets of histories" % (len(recs), res.distinct))
    print("TLC: %d sets of histories in %.1fs" % (len(recs), time.time() - t0))
    chunks = [recs[i:i + 100] for i in range(0, len(recs), 100)]
    done = common.pool_run(replay_chunk, chunks, lambda r: bool(r["problems"]), stop_after=10)
    calls = nontriv = 0
    for _, r in done:
        calls += r["calls"]
        nontriv += r["nontrivial"]
        for s_ in r["samples"]:
            chk.sample(s_, cap=2)
        for key, (what, replay, cnt) in r["problems"].items():
            chk.violation(key, what, replay)
    chk.cov["evaluations"] = calls
    chk.cov["distinct_nontrivial"] = nontriv
    chk.cov["traces_validated_against_impl"] = calls
    chk.part("hand-built Simulation_Investigation", objects=calls, histories=len(recs))
    return chk.finish("every answer of a hand-built Simulation_Investigation equals the TLC-emitted Investigation semantics on every set of histories in the bound",
                      exhaustive=len(done) == len(chunks))


if __name__ == "__main__":
    common.run_main(main)

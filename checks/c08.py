"""C08 - ODE models are exact where theory says so: trees, final sizes, limits.

Clause 1  SIR_pair_based (pure IC) = master equation of the NetEpi chain on every tree (NetEpiTrees.tla,
          generator assembled from the TLC-emitted transitions); connected non-trees are the vacuity control.
Clause 2  EBCM_discrete*: R(t+1) = R(t) + I(t): outputs validated by TLC as traces of DiscreteFlow.tla.
Clause 3  tau = 0: NetEpiLimits.tla (no Transmit enabled, chain factorises); every ODE entry point against
          the survival function of the emitted one-node chain.
Clause 4  gamma = 0: NetEpiLimits.tla (SIS and SIR instances take the same steps), emitted graphs equal;
          SIS_X vs SIR_X per model family.
Clause 5  Attack_rate_* vs the long-time limit of EBCM / EBCM_discrete: plain numerics (disclosed).
"""
import json
import os
import re
import sys

from harness import common, netepi, tlc
from harness import c08_oracle as O      # sets the BLAS thread count before numpy is imported

import numpy as np

from harness import c08_cases as K
from harness.common import Check, MachineryFailure, pool_map, RATE_UNIT


def _cset(c):
    return {k: (sorted(v) if isinstance(v, (set, frozenset)) else v) for k, v in c.items()}


def _consts_from_json(c):
    return {k: (set(v) if isinstance(v, list) else v) for k, v in c.items()}


def _instance_coverage(res):
    """coverage lines of instantiated actions (<AsSIS!Next line ...>: d:t) that harness.tlc's pattern skips"""
    out = {}
    for m in re.finditer(r"<([\w!]+) line \d+, col \d+ to line \d+, col \d+ of module \w+>: (\d+):(\d+)", res.stdout):
        a = out.get(m.group(1), (0, 0))
        out[m.group(1)] = (a[0] + int(m.group(2)), a[1] + int(m.group(3)))
    return out


def _need(res, action, what):
    if res.coverage.get(action, (0, 0))[1] == 0:
        raise MachineryFailure("vacuous TLC run (%s): action %s never taken" % (what, action))


def _expect_violation(chk, name, module, cfg, files=()):
    """a control run that must FAIL: shows that the checked formula can be violated at all"""
    res = tlc.run_tlc(module, cfg, workers=1, coverage=True, files=files)
    chk.add_tlc(name + " [control: expected to be violated]", res)
    if not res.violation:
        raise MachineryFailure("control run %s was expected to violate its property and did not" % name)
    return res


# =================================================================================================
# clause 1
# =================================================================================================
def tree_shapes(n):
    """one labelled representative (edge list on 1..n) per unlabelled tree on n nodes; which of
    them are trees is still decided by NetEpiTrees!IsTree (a non-tree yields no initial state)"""
    import networkx as nx
    out = []
    for T in nx.nonisomorphic_trees(n):
        out.append(sorted((min(u, v) + 1, max(u, v) + 1) for u, v in T.edges()))
    return out


def c1_runs(tier):
    ALL5 = ["sorted", "nodelist-sorted", "rotated-insertion", "rotated-nodelist", "direct"]
    ORD3 = ["sorted", "rotated-insertion", "rotated-nodelist"]
    W = {1, 2}
    runs = []

    def add(name, consts, classes, weighted, control=False):
        runs.append({"name": name, "consts": consts, "classes": classes, "weighted": weighted, "control": control})
    s4 = tree_shapes(4)
    if tier == "quick":
        # ~12 000 ODE solves: the budget of the quick tier (about 10 ms each)
        add("trees2-weighted", O.tree_consts(2, W, W, {1, 2}, {1, 2}), ALL5, True)
        add("trees3-weighted", O.tree_consts(3, W, W, {1, 2}, {1}, checkdefs=True), ["sorted", "rotated-nodelist", "attr-weight"], True)
        add("trees4-unit", O.tree_consts(4, {1}, {1}, {1, 2}, {1}, checkdefs=True), ["sorted", "rotated-insertion", "rotated-nodelist", "direct"], False)
        add("shape4.0-weighted", O.tree_consts(4, W, W, {2}, {1}, shape=O.shape_of_edges(4, s4[0])), ["sorted", "primed-object"], True)
        add("shape4.1-edgeweighted", O.tree_consts(4, W, {1}, {2}, {1}, shape=O.shape_of_edges(4, s4[1])), ["sorted"], True)
        for i, edges in enumerate(tree_shapes(5)):
            add("shape5.%d-unit" % i, O.tree_consts(5, {1}, {1}, {2}, {1}, shape=O.shape_of_edges(5, edges)), ["sorted", "rotated-nodelist"], False)
        add("cyclic3-unit", O.tree_consts(3, {1}, {1}, {1, 2}, {1}, cyclic=True), ["sorted"], False, control=True)
        add("cyclic4-unit", O.tree_consts(4, {1}, {1}, {2}, {1}, cyclic=True), ["sorted"], False, control=True)
        return runs
    add("trees2-weighted", O.tree_consts(2, W, W, {1, 2}, {1, 2}), ALL5, True)
    add("trees3-weighted", O.tree_consts(3, W, W, {1, 2}, {1, 2}, checkdefs=True), ORD3 + ["attr-weight"], True)
    add("trees4-unit", O.tree_consts(4, {1}, {1}, {1, 2}, {1, 2}, checkdefs=True), ALL5, False)
    for i, edges in enumerate(s4):
        add("shape4.%d-weighted" % i, O.tree_consts(4, W, W, {1, 2}, {1, 2}, shape=O.shape_of_edges(4, edges)), ["sorted", "primed-object"], True)
    for i, edges in enumerate(tree_shapes(5)):
        add("shape5.%d-unit" % i, O.tree_consts(5, {1}, {1}, {1, 2}, {1, 2}, shape=O.shape_of_edges(5, edges)),
            ["sorted", "rotated-nodelist"], False)
    add("cyclic3-unit", O.tree_consts(3, {1}, {1}, {1, 2}, {1}, cyclic=True), ["sorted"], False, control=True)
    add("cyclic4-unit", O.tree_consts(4, {1}, {1}, {1, 2}, {1}, cyclic=True), ["sorted"], False, control=True)
    if tier != "quick":
        for tau in (1, 2):
            for gam in (1, 2):
                add("trees5-unit-t%dg%d" % (tau, gam), O.tree_consts(5, {1}, {1}, {tau}, {gam}, checkdefs=(tau == gam == 1)), ["sorted"], False)
        for i, edges in enumerate(tree_shapes(5)):
            sh = O.shape_of_edges(5, edges)
            add("shape5.%d-edgeweighted" % i, O.tree_consts(5, W, {1}, {2}, {1}, shape=sh), ["sorted"], True)
            add("shape5.%d-nodeweighted" % i, O.tree_consts(5, {1}, W, {2}, {1}, shape=sh), ["sorted"], True)
        for i, edges in enumerate(tree_shapes(6)):
            sh = O.shape_of_edges(6, edges)
            add("shape6.%d-unit" % i, O.tree_consts(6, {1}, {1}, {1, 2}, {1, 2}, shape=sh), ["sorted", "rotated-nodelist"], False)
            add("shape6.%d-edgeweighted" % i, O.tree_consts(6, W, {1}, {2}, {1}, shape=sh), ["sorted"], True)
    return runs


def clause1(chk):
    runs = c1_runs(chk.tier)
    emitted = O.run_parallel([(O.emit_trees, (r["consts"],)) for r in runs], threads=8)
    tasks = []
    for r, (sg, res) in zip(runs, emitted):
        c = r["consts"]
        n = c["N"]
        chk.add_tlc("NetEpiTrees emission %s %r" % (r["name"], _cset(c)), res)
        nkeys = len(sg.trans)
        if nkeys == 0 or res.distinct != nkeys * 3 ** n:
            raise MachineryFailure("%s: %d keys x 3^%d states differ from TLC's %d distinct states (is the shape a %s?)"
                                   % (r["name"], nkeys, n, res.distinct, "connected non-tree" if r["control"] else "tree"))
        for a in ("Transmit", "Recover"):
            _need(res, a, r["name"])
        supports = {tuple(1 if x else 0 for x in k[0]) for k in sg.trans}
        if c["CheckDefs"]:
            tr = [v for v in O.fast_records(res.stdout, "TREES")]
            if not tr or tr[0][1] != n:
                raise MachineryFailure("%s: the definitional ASSUMEs of NetEpiTrees were not evaluated" % r["name"])
            if not c["Shape"] and not r["control"] and tr[0][2] != len(supports):
                raise MachineryFailure("%s: %d tree supports emitted, the specification counts %d trees" % (r["name"], len(supports), tr[0][2]))
            chk.part("clause1 tree definition checked by TLC on all graphs with N=%d (3 characterisations agree, Cayley count)" % n, trees_counted=tr[0][2])
        K.SG[r["name"]] = sg
        r["supports"] = len(supports)
        for key in sorted(sg.trans):
            tasks.append({"run": r["name"], "key": key, "classes": r["classes"], "weighted": r["weighted"]})
    byname = {r["name"]: r for r in runs}
    results = pool_map(K.c1_task, tasks)
    worst_tree = 0.0
    worst_control = 0.0
    groups = {}
    sample_done = set()
    for t, out in zip(tasks, results):
        r = byname[out["run"]]
        n = r["consts"]["N"]
        for (cls, seeds, rec, dev, err, nontrivial) in out["rows"]:
            chk.cov["evaluations"] += 1
            if r["control"]:
                worst_control = max(worst_control, dev if np.isfinite(dev) else 0.0)
                chk.part("clause1 control (connected non-trees)", scenarios=1)
                continue
            chk.cov["traces_validated_against_impl"] += 1
            if nontrivial and cls == "sorted":
                chk.cov["distinct_nontrivial"] += 1
            wname = "weighted" if r["weighted"] else "unit weights"
            gk = (K.c1_entry(cls), cls, wname)
            g = groups.setdefault(gk, {"n": 0, "worst": 0.0, "bad": 0})
            g["n"] += 1
            if err is None and np.isfinite(dev):
                g["worst"] = max(g["worst"], dev)
            replay = {"clause": 1, "consts": _cset(r["consts"]), "key": out["key"], "seeds": seeds, "rec": rec, "cls": cls,
                      "weighted": r["weighted"], "deviation": dev, "error": err, "tolerance": K.TOL_TREE}
            if err is not None:
                g["bad"] += 1
                chk.violation("%s|raises %s|tree, %s, %s" % (gk[0], err.split(":")[0], wname, K.C1_CLASSES[cls]),
                              "%s raised %s on the %d-node tree w=%r g=%r tau=%g gamma=%g seeds=%r recovered=%r"
                              % (gk[0], err, n, out["key"][0], out["key"][1], out["key"][2] * RATE_UNIT, out["key"][3] * RATE_UNIT, seeds, rec), replay)
            elif dev > K.TOL_TREE:
                g["bad"] += 1
                chk.violation("%s|differs from the master-equation expectation|tree, %s, %s" % (gk[0], wname, K.C1_CLASSES[cls]),
                              "max |S,I,R - E[S,I,R]| = %.3g (tolerance %g) on the %d-node tree w=%r g=%r tau=%g gamma=%g seeds=%r recovered=%r"
                              % (dev, K.TOL_TREE, n, out["key"][0], out["key"][1], out["key"][2] * RATE_UNIT, out["key"][3] * RATE_UNIT, seeds, rec), replay)
            else:
                worst_tree = max(worst_tree, dev)
                if nontrivial and out["run"] not in sample_done and len(sample_done) < 2 and len(seeds) == 2 and rec:
                    sample_done.add(out["run"])
                    chk.sample({"clause": 1, "run": out["run"], "tree_w": out["key"][0], "node_weights": out["key"][1],
                                "tau": out["key"][2] * RATE_UNIT, "gamma": out["key"][3] * RATE_UNIT, "seeds": seeds, "recovered": rec,
                                "class": cls, "chain_states": out["states"], "max_abs_deviation": dev})
    for (entry, cls, wname), g in sorted(groups.items()):
        chk.part("clause1 %s [%s; %s]" % (entry, K.C1_CLASSES[cls], wname), scenarios=g["n"], failing=g["bad"], worst_passing_deviation=g["worst"])
    chk.part("clause1 summary", worst_tree_deviation=worst_tree, worst_control_deviation=worst_control,
             labelled_trees=sum(r["supports"] for r in runs if not r["control"]))
    if worst_control < K.CONTROL_MIN:
        raise MachineryFailure("vacuous: on the connected non-trees the pair-based model deviates by only %.3g from the chain "
                               "(>= %g expected); the comparison cannot tell exact from approximate" % (worst_control, K.CONTROL_MIN))
    chk.note("clause 1: worst deviation on trees among passing classes %.2g, on the non-tree control %.3g (tolerance %g)"
             % (worst_tree, worst_control, K.TOL_TREE))
    K.SG.clear()


# =================================================================================================
# clause 2
# =================================================================================================
def _c2_class(d):
    if "inf" in d:
        ic = "explicit sets" + (" with initially recovered" if d.get("rec") else "")
    elif "rho" in d:
        ic = "rho=None" if d["rho"] is None else "rho"
    else:
        ic = "degree-dependent Sk0" + (", R0>0" if d.get("r0") else "")
    return ic + (", tmin>0" if d.get("tmin") else "")


def clause2(chk):
    cfg = tlc.cfg_text({"PopSet": {1, 5, 8}, "EpsSet": {0, 1}}, invariants=["TypeOK", "Conserved"],
                       properties=["NewFromS", "RMonotone", "ExtinctStaysPut", "Frozen"])
    res = tlc.run_tlc("DiscreteFlow", cfg, workers=8, coverage=True)
    chk.add_tlc("DiscreteFlow exhaustive PopSet={1,5,8} EpsSet={0,1}", res)
    if res.violation:
        raise MachineryFailure("DiscreteFlow violates its own theorems: " + res.violation)
    _need(res, "Step", "DiscreteFlow")

    scen = K.c2_scenarios(chk.tier)
    outs = pool_map(K.c2_task, scen)
    traces, owners = [], []
    for d, o in zip(scen, outs):
        chk.cov["evaluations"] += 1
        if "err" in o:
            if o["err"].startswith("non-finite"):
                chk.violation("%s|returns non-finite values|%s" % (d["entry"], _c2_class(d)), "%s: %s for %r" % (d["entry"], o["err"], d),
                              {"clause": 2, "scenario": d})
            else:
                chk.violation("%s|raises %s|%s" % (d["entry"], o["err"].split(":")[0], _c2_class(d)),
                              "%s raised %s for %r" % (d["entry"], o["err"], d), {"clause": 2, "scenario": d})
            continue
        if o["t0"] != d.get("tmin", 0):
            chk.note("%s: the time column starts at %d although tmin=%d was requested (not part of C08)" % (d["entry"], o["t0"], d.get("tmin", 0)))
        traces.append(o["rows"])
        owners.append((d, o))
    if not traces:
        raise MachineryFailure("clause 2: no trace could be recorded")
    # the canary: a real trace with R updated one step late must be rejected
    src = next((o for d, o in owners if o["nontrivial"] and len(o["rows"]) >= 6), None)
    if src is None:
        raise MachineryFailure("clause 2: no non-trivial trace to build the canary from")
    traces.append(K.corrupt_R_shift(src["rows"]))
    canary = len(traces)
    mod = K.traces_module(traces)
    cfg = tlc.cfg_text({"PopSet": {K.FP_POP}, "EpsSet": {K.FP_EPS}}, spec="TraceSpec", properties=["RefinesFlow"])
    res = tlc.run_tlc("DiscreteFlowTrace", cfg, workers=1, coverage=True, files=[("C08Traces.tla", mod)], timeout=1800)
    chk.add_tlc("DiscreteFlowTrace: %d traces of EBCM_discrete* (+1 corrupted canary)" % (len(traces) - 1), res)
    if res.violation:
        raise MachineryFailure("DiscreteFlowTrace does not refine DiscreteFlow: " + res.violation)
    _need(res, "TStep", "DiscreteFlowTrace")
    _need(res, "TDone", "DiscreteFlowTrace")
    done = {r[1] for r in O.fast_records(res.stdout, "DONE")}
    rejected = sorted(set(range(1, len(traces) + 1)) - done)
    if canary not in rejected:
        raise MachineryFailure("the corrupted canary trace (R updated one step late) was accepted by DiscreteFlowTrace")
    rejected.remove(canary)
    nrows = sum(len(t) for t in traces[:-1])
    chk.cov["traces_validated_against_impl"] += len(traces) - 1
    chk.cov["distinct_nontrivial"] += sum(1 for d, o in owners if o["nontrivial"])
    per = {}
    for d, o in owners:
        per[d["entry"]] = per.get(d["entry"], 0) + 1
    for e, k in sorted(per.items()):
        chk.part("clause2 " + e, traces=k)
    chk.part("clause2 summary", traces=len(traces) - 1, rows=nrows, rejected=len(rejected), canary_rejected=1)
    d0, o0 = next((d, o) for d, o in owners if o["nontrivial"] and d["entry"] == "EBCM_discrete_from_graph" and "inf" in d)
    chk.sample({"clause": 2, "scenario": d0, "fixed_point_rows_t_S_I_R(units of N*1e-8)": o0["rows"][:6]})
    if rejected:
        sub = rejected[:200]
        mod = K.traces_module([traces[i - 1] for i in sub])
        cfg = tlc.cfg_text({"PopSet": {K.FP_POP}, "EpsSet": {K.FP_EPS}}, spec="DiagSpec")
        dres = tlc.run_tlc("DiscreteFlowTrace", cfg, workers=1, coverage=True, files=[("C08Traces.tla", mod)], timeout=1800)
        chk.add_tlc("DiscreteFlowTrace diagnostic walk of %d rejected traces" % len(sub), dres)
        diag = {}
        for _, tid, row, r_ok, s_ok, c_ok, t_ok in O.fast_records(dres.stdout.replace("TRUE", "true").replace("FALSE", "false"), "DIAG"):
            diag.setdefault(tid, []).append((row, r_ok, s_ok, c_ok, t_ok))
        for j, i in enumerate(sub, 1):
            d, o = owners[i - 1]
            fails = diag.get(j, [])
            if not fails:
                raise MachineryFailure("trace %d was rejected but the diagnostic walk found no failing row" % i)
            row, r_ok, s_ok, c_ok, t_ok = fails[0]
            rows = o["rows"][max(0, row - 1): row + 2]
            rp = {"clause": 2, "scenario": d, "first_failing_row": row, "rows_around": rows}
            if not r_ok:
                chk.violation("%s|R(t+1) != R(t)+I(t)|%s" % (d["entry"], _c2_class(d)),
                              "%s: row %d -> %d is not a DiscreteFlow step: R update fails (rows t,S,I,R in N*1e-8: %r) for %r"
                              % (d["entry"], row, row + 1, rows, d), rp)
            if not t_ok:
                chk.violation("%s|time column does not advance by one generation|%s" % (d["entry"], _c2_class(d)),
                              "%s: rows %r for %r" % (d["entry"], rows, d), rp)
            if r_ok and t_ok:
                chk.note("%s: a row fails %s of DiscreteFlow (conservation / monotonicity are C06 matters, not demanded by C08): %r"
                         % (d["entry"], "S non-increasing" if not s_ok else "conservation/bounds", d))


# =================================================================================================
# clauses 3 and 4: shared set-up
# =================================================================================================
def _survival_table(chk, emitted=None):
    """one-node chains I -> R (SIR) and I -> S (SIS), tau = 0, every node weight and recovery numerator"""
    for i, sis in enumerate((False, True)):
        if emitted is None:
            sg, res = O.emit_netepi(netepi.netepi_constants(1, {1}, {1, 2}, {0}, {1, 2}, sis))
        else:
            sg, res = emitted[i]
        chk.add_tlc("NetEpi one-node chain (%s) emission" % ("SIS" if sis else "SIR"), res)
        _need(res, "Recover", "one-node chain")
        for key in sg.trans:
            gen = O.Generator(sg, key)
            exp = gen.expected({("I",): 1.0}, K.DT, K.STEPS)
            K.SURV[(sis, key[1][0], key[3])] = exp[:, 1].copy()
    if len(K.SURV) != 8:
        raise MachineryFailure("one-node survival table incomplete: %r" % sorted(K.SURV))


def _graph_keys(sg, n, tier, unit_only, representatives):
    """keys of the emitted graph whose network has no isolated node; optionally unit weights only and one
    labelled representative per isomorphism class (scenario selection, not an oracle)"""
    import networkx as nx
    out = []
    seen = []
    for key in sorted(sg.trans):
        w, g = key[0], key[1]
        if unit_only and (any(x not in (0, 1) for x in w) or any(x != 1 for x in g)):
            continue
        G = netepi.build_graph(n, w, g)
        if min(dict(G.degree()).values()) == 0:
            continue
        if representatives:
            sig = (key[2], key[3])
            if any(s == sig and nx.is_isomorphic(G, H) for s, H in seen):
                continue
            seen.append((sig, G))
        out.append(key)
    return out


def _quick_subset(keys, step):
    """the unit-weight graphs and every step-th weighted one (deterministic)"""
    unit = [k for k in keys if all(x in (0, 1) for x in k[0]) and all(x == 1 for x in k[1])]
    return unit + [k for k in keys if k not in unit][::step]


def _factorisation(chk, sg, n, sis):
    """dump against dump: the full tau=0 chain's E[I](t), E[S](t) equal the sum of one-node survival functions"""
    worst = 0.0
    cnt = 0
    for key in sorted(sg.trans):
        gen = O.Generator(sg, key)
        for st0 in sg.trans[key]:
            exp = gen.expected({st0: 1.0}, K.DT, K.STEPS)
            eI = sum(K.SURV[(sis, key[1][u], key[3])] for u in range(n) if st0[u] == "I")
            eS = st0.count("S") + ((st0.count("I") - eI) if sis else 0.0)
            worst = max(worst, float(np.abs(exp[:, 1] - eI).max()), float(np.abs(exp[:, 0] - eS).max()))
            cnt += 1
    if worst > 1e-12:
        raise MachineryFailure("the emitted tau=0 chain does not factorise into one-node chains (deviation %.3g)" % worst)
    chk.part("clause3 factorisation of the emitted tau=0 chain (%s)" % ("SIS" if sis else "SIR"), initial_states=cnt, worst=worst)


def clause3(chk):
    tier = chk.tier
    # -- specification level (all TLC runs of the clause are started together) -----------------------
    from functools import partial
    W = {1, 2}
    lim_domains = [netepi.netepi_constants(3, W, W, {0}, {1, 2}, sis) for sis in (False, True)]
    if tier != "quick":
        lim_domains += [netepi.netepi_constants(4, W, {1}, {0}, {1, 2}, sis) for sis in (False, True)]
    lim_cfg = lambda c: tlc.cfg_text(c, view="View", invariants=["TypeOK", "NoTransmitEnabled"],
                                     properties=["OnlyRecover", "SusceptiblesUntouched", "InfectedOnlyLeave"])
    jobs = [(partial(tlc.run_tlc, "NetEpiLimits", lim_cfg(c), workers=4, coverage=True), ()) for c in lim_domains]
    one = [netepi.netepi_constants(1, {1}, {1, 2}, {0}, {1, 2}, sis) for sis in (False, True)]
    em3 = [netepi.netepi_constants(3, W, W, {0}, {1, 2}, sis) for sis in (False, True)]
    em4 = netepi.netepi_constants(4, {1}, {1}, {0}, {1, 2}, False)
    jobs += [(O.emit_netepi, (c,)) for c in one + em3 + [em4]]
    done = O.run_parallel(jobs, threads=8)
    for c, res in zip(lim_domains, done[:len(lim_domains)]):
        chk.add_tlc("NetEpiLimits tau=0 (%s) %r" % ("SIS" if c["SIS"] else "SIR", _cset(c)), res)
        if res.violation:
            chk.violation("spec|NetEpiLimits tau=0|" + res.violation[:60], "TLC: " + res.violation, {"clause": 3, "constants": _cset(c)})
        _need(res, "Recover", "NetEpiLimits tau=0")
        if res.coverage.get("Transmit", (0, 0))[1] != 0:
            raise MachineryFailure("Transmit was taken in a tau=0 configuration")
    c = netepi.netepi_constants(2, {1}, {1}, {1}, {1}, False)
    _expect_violation(chk, "NetEpiLimits NoTransmitEnabled with tau>0", "NetEpiLimits",
                      tlc.cfg_text(c, view="View", invariants=["NoTransmitEnabled"]))
    rest = done[len(lim_domains):]
    _survival_table(chk, rest[:2])
    emitted = {}
    for sis, (sg, res) in zip((False, True), rest[2:4]):
        chk.add_tlc("NetEpi tau=0 emission N=3 weighted (%s)" % ("SIS" if sis else "SIR"), res)
        _factorisation(chk, sg, 3, sis)
        emitted[sis] = sg
    sg4, res = rest[4]
    chk.add_tlc("NetEpi tau=0 emission N=4 unit weights (SIR)", res)
    _factorisation(chk, sg4, 4, False)
    # -- the code ---------------------------------------------------------------------------------
    table = K.ode_table()
    gtable = {nm: ps for nm, ps in table.items() if ps[0] == "G"}
    bases = K.spy_bases(table)
    chk.part("clause3 entry-point table", entry_points=len(table), graph_taking=len(gtable), numeric_ic=len(bases))
    tasks = []
    keys3 = _graph_keys(emitted[False], 3, tier, False, False)
    keys4 = _graph_keys(sg4, 4, tier, True, tier == "quick")
    if tier == "quick":      # the unit-weight graphs, every sixth weighted one; 4-node representatives with gamma = 1 only
        keys3 = _quick_subset(keys3, 6)
        keys4 = [k for k in keys4 if k[3] == 2]
    doms = [(3, emitted[False], keys3), (4, sg4, keys4)]
    for n, sg, keys in doms:
        for key in keys:
            for nm, ps in sorted(gtable.items()):
                sc = K.limit_scenarios(nm, ps, n, tier)
                if sc:
                    tasks.append({"name": nm, "n": n, "key": key, "scenarios": sc})
    outs = pool_map(K.c3_task, tasks)
    stats = {}
    for t, o in zip(tasks, outs):
        nm, n, key = o["name"], o["n"], o["key"]
        tol = (K.TOL_ADAMS if K.is_adams(nm) else K.TOL_LIMIT) * n
        for row in o["rows"]:
            mode, seeds, rec, rho, dS, dI, i0 = (row[k] for k in ("mode", "seeds", "rec", "rho", "dS", "dI", "i0"))
            chk.cov["evaluations"] += 1
            s = stats.setdefault((nm, mode), {"n": 0, "worst": 0.0, "bad": 0, "undefined": 0})
            s["n"] += 1
            rp = {"clause": 3, "name": nm, "n": n, "key": key, "scenario": (mode, seeds, rec, rho), "dS": dS, "dI": dI, "tolerance": tol}
            if row["note"]:
                chk.note("%s [%s]: %s" % (nm, mode, row["note"]))
            if row["err"] is not None:
                s["bad"] += 1
                msg, generic = row["err"]
                chk.violation("%s|raises %s|%s" % (nm, msg.split(":")[0], mode.split("/")[0]),
                              "%s(tau=0, gamma=%g, %s) raised %s on graph w=%r (seeds=%r recovered=%r rho=%r); %s"
                              % (nm, key[3] * RATE_UNIT, mode, msg, key[0], seeds, rec, rho,
                                 "the same call raises with tau=1 as well, i.e. the entry point is unusable in this mode and the tau=0 clause cannot hold for it"
                                 if generic else "the call succeeds with tau=1: the failure is specific to the limit"), rp)
                continue
            if row["nonfinite"] == "generic":
                s["undefined"] += 1     # 0/0 in the closure itself (same with tau=1): not a statement about the limit
                continue
            if row["nonfinite"] == "limit":
                s["bad"] += 1
                chk.violation("%s|tau=0: non-finite output (finite with tau>0)|%s" % (nm, mode),
                              "%s(tau=0, gamma=%g, %s) returns nan/inf on graph w=%r seeds=%r recovered=%r rho=%r but is finite with tau=1"
                              % (nm, key[3] * RATE_UNIT, mode, key[0], seeds, rec, rho), rp)
                continue
            chk.cov["traces_validated_against_impl"] += 1
            if i0 > 1e-9:
                chk.cov["distinct_nontrivial"] += 1
            if max(dS, dI) > tol:
                s["bad"] += 1
                chk.violation("%s|tau=0: S not constant or I(t) != I(0)exp(-gamma t)|%s" % (nm, mode),
                              "%s(tau=0, gamma=%g, %s) on graph w=%r g=%r seeds=%r recovered=%r rho=%r: max|S-S_expected|=%.3g, "
                              "max|I-I_expected|=%.3g (tolerance %.1g)" % (nm, key[3] * RATE_UNIT, mode, key[0], key[1], seeds, rec, rho, dS, dI, tol), rp)
            else:
                s["worst"] = max(s["worst"], dS, dI)
    undefined = sum(s["undefined"] for s in stats.values())
    if undefined:
        chk.note("clause 3: %d scenario(s) give non-finite output with tau=0 AND with tau=1 (0/0 in the closure, e.g. no S-S edge); "
                 "they say nothing about the limit and are not counted (acceptance of such inputs is a C06 matter)" % undefined)
    for (nm, mode), s in sorted(stats.items()):
        chk.part("clause3 %s [%s]" % (nm, mode), scenarios=s["n"], failing=s["bad"], undefined_for_the_closure=s["undefined"],
                 worst_passing_deviation=s["worst"])
    # -- base functions with numeric initial conditions, arguments as passed by their wrappers ----------
    btasks = []
    keys4 = doms[1][2]
    for key in keys4[:: max(1, len(keys4) // 6)]:
        for nm, ps in sorted(gtable.items()):
            if not nm.endswith("_from_graph"):
                continue
            for sc in K.limit_scenarios(nm, ps, 4, tier)[::7]:
                btasks.append({"wrapper": nm, "n": 4, "key": key, "scenario": sc, "bases": bases, "table": table, "aliases": {}})
    bouts = pool_map(K.c3_base_task, btasks)
    reached = {row[0] for o in bouts for row in o["rows"]}
    # a base function no wrapper reaches is called with the arguments recorded for a base function with the same parameter list
    aliases = {}
    for b in bases:
        if b not in reached:
            twins = sorted(x for x in reached if table[x] == table[b])
            if twins:
                aliases.setdefault(twins[0], []).append(b)
    if aliases:
        alias_names = {a for l in aliases.values() for a in l}
        sub = [dict(t, aliases=aliases) for t, o in zip(btasks, bouts) if any(row[0] in aliases for row in o["rows"])]
        for o in pool_map(K.c3_base_task, sub):
            o["rows"] = [row for row in o["rows"] if row[0] in alias_names]
            bouts.append(o)
    bstats = {}
    for o in bouts:
        for (base, wrapper, mode, dS, dI, err, i0) in o["rows"]:
            chk.cov["evaluations"] += 1
            tol = (K.TOL_ADAMS if K.is_adams(base) else K.TOL_LIMIT) * 4
            s = bstats.setdefault(base, {"n": 0, "worst": 0.0, "bad": 0})
            s["n"] += 1
            rp = {"clause": 3, "base": base, "task": o["task"]}
            if err == "nonfinite-generic":
                continue
            if err == "nonfinite-limit":
                s["bad"] += 1
                chk.violation("%s|tau=0: non-finite output (finite with tau>0)|arguments as passed by %s" % (base, wrapper),
                              "%s called directly with the arguments of %s [%s] returns nan/inf with tau=0 only" % (base, wrapper, mode), rp)
            elif err is not None:
                s["bad"] += 1
                chk.violation("%s|raises %s|arguments as passed by %s" % (base, err.split(":")[0], wrapper),
                              "%s called directly with the arguments %s passes (tau=0) raised %s" % (base, wrapper, err), rp)
            elif max(dS, dI) > tol:
                s["bad"] += 1
                chk.violation("%s|tau=0: S not constant or I(t) != I(0)exp(-gamma t)|arguments as passed by %s" % (base, wrapper),
                              "%s called directly with the arguments of %s [%s], tau=0: max|dS|=%.3g max|dI|=%.3g" % (base, wrapper, mode, dS, dI), rp)
            else:
                chk.cov["traces_validated_against_impl"] += 1
                s["worst"] = max(s["worst"], dS, dI)
    for b, s in sorted(bstats.items()):
        chk.part("clause3 %s [direct call, numeric initial conditions]" % b, scenarios=s["n"], failing=s["bad"], worst_passing_deviation=s["worst"])
    uncovered = sorted(set(bases) - set(bstats))
    # entry points without graph and without wrapper
    for nm in list(uncovered):
        try:
            worst = 0.0
            cnt = 0
            for gname, G in sorted(K.graphs().items()):
                for gam in (1, 2):
                    for rho in (0.25, 0.5):
                        res = K.nograph_calls(nm, G, 0.0, gam * RATE_UNIT, rho)
                        S, I = np.asarray(res[1], float), np.asarray(res[2], float)
                        eI = I[0] * K.SURV[(False, 1, gam)]
                        d = max(float(np.abs(S - S[0]).max()), float(np.abs(I - eI).max()))
                        cnt += 1
                        chk.cov["evaluations"] += 1
                        if d > K.TOL_LIMIT * G.order():
                            chk.violation("%s|tau=0: S not constant or I(t) != I(0)exp(-gamma t)|rho" % nm,
                                          "%s on %s, gamma=%g rho=%g: deviation %.3g" % (nm, gname, gam * RATE_UNIT, rho, d),
                                          {"clause": 3, "nograph": nm, "graph": gname, "gam": gam, "rho": rho})
                        else:
                            chk.cov["traces_validated_against_impl"] += 1
                            worst = max(worst, d)
            chk.part("clause3 %s [direct call, library helpers for the arguments]" % nm, scenarios=cnt, worst_passing_deviation=worst)
            uncovered.remove(nm)
        except KeyError:
            pass
    if uncovered:
        chk.note("clause 3: entry points of the table that no call reached: %s" % ", ".join(uncovered))
    t0 = tasks[len(tasks) // 2]
    chk.sample({"clause": 3, "entry": t0["name"], "graph_w": t0["key"][0], "node_weights": t0["key"][1], "gamma": t0["key"][3] * RATE_UNIT,
                "scenarios(mode,seeds,recovered,rho)": t0["scenarios"][:3], "one_node_survival": K.SURV[(False, 1, t0["key"][3])].tolist()})
    return doms


# =================================================================================================
# clause 4
# =================================================================================================
def clause4(chk):
    tier = chk.tier
    from functools import partial
    W = {1, 2}
    both = [netepi.netepi_constants(3, W, W, {1, 2}, {0}, True)]
    if tier != "quick":
        both.append(netepi.netepi_constants(4, W, {1}, {1, 2}, {0}, True))
    bcfg = lambda c: tlc.cfg_text(c, spec="SpecBoth", view="View", invariants=["SameEnabled", "NoRecovered", "NoRecoverEnabled"], properties=["SameSteps"])
    jobs = [(partial(tlc.run_tlc, "NetEpiLimits", bcfg(c), workers=4, coverage=True), ()) for c in both]
    edoms = [(3, W, W), (4, {1}, {1})]
    for n, ew, nw in edoms:
        for sis in (True, False):
            jobs.append((O.emit_netepi, (netepi.netepi_constants(n, ew, nw, {1, 2}, {0}, sis),)))
    done = O.run_parallel(jobs, threads=8)
    for c, res in zip(both, done[:len(both)]):
        res.coverage.update(_instance_coverage(res))
        chk.add_tlc("NetEpiLimits gam=0: SIS and SIR instances take the same steps %r" % _cset(c), res)
        if res.violation:
            chk.violation("spec|NetEpiLimits gam=0|" + res.violation[:60], "TLC: " + res.violation, {"clause": 4, "constants": _cset(c)})
        _need(res, "AsSIS!Next", "NetEpiLimits gam=0")
    c2 = netepi.netepi_constants(2, {1}, {1}, {1}, {1}, True)
    _expect_violation(chk, "NetEpiLimits SameSteps with gam>0", "NetEpiLimits",
                      tlc.cfg_text(c2, spec="SpecBoth", view="View", properties=["SameSteps"]))
    # the emitted graphs of the two instances coincide on the R-free states
    doms = []
    rest = done[len(both):]
    for i, (n, ew, nw) in enumerate(edoms):
        sgs = {}
        for j, sis in enumerate((True, False)):
            sg, res = rest[2 * i + j]
            chk.add_tlc("NetEpi gam=0 emission N=%d (%s)" % (n, "SIS" if sis else "SIR"), res)
            _need(res, "Transmit", "gam=0 emission")
            sgs[sis] = sg
        a = sgs[True].trans
        b = {k: {s: sorted(l) for s, l in d.items() if "R" not in s} for k, d in sgs[False].trans.items()}
        b = {k: d for k, d in b.items() if d}
        a = {k: {s: sorted(l) for s, l in d.items()} for k, d in a.items()}
        if a != b:
            chk.violation("spec|NetEpi gam=0: emitted SIS and SIR graphs differ|N=%d" % n, "emitted transition graphs differ", {"clause": 4, "n": n})
        chk.part("clause4 emitted graphs equal (gam=0)", keys=len(a), transitions=sum(len(l) for d in a.values() for l in d.values()))
        keys = _graph_keys(sgs[True], n, tier, n == 4, n == 4 and tier == "quick")
        if tier == "quick":
            keys = _quick_subset(keys, 6) if n == 3 else [k for k in keys if k[2] == 2]
        doms.append((n, sgs[True], keys))
    table = K.ode_table()
    fams = K.families(table)
    chk.part("clause4 families", families=len(fams))
    tasks = []
    for n, sg, keys in doms:
        for key in keys:
            for x in fams:
                ps1, ps2 = table["SIS_" + x], table["SIR_" + x]
                s1 = K.limit_scenarios("SIS_" + x, ps1, n, tier)
                s2 = set(K.limit_scenarios("SIR_" + x, ps2, n, tier))
                sc = [s for s in s1 if s in s2]
                if sc:
                    tasks.append({"family": x, "n": n, "key": key, "scenarios": sc,})
    outs = pool_map(K.c4_task, tasks)
    stats = {}
    for o in outs:
        x, n, key = o["family"], o["n"], o["key"]
        tol = (K.TOL_PAIR_ADAMS if K.is_adams("SIS_" + x) else K.TOL_PAIR) * n
        for row in o["rows"]:
            mode, seeds, rho, d = row["mode"], row["seeds"], row["rho"], row["dev"]
            chk.cov["evaluations"] += 2
            s = stats.setdefault((x, mode), {"n": 0, "worst": 0.0, "bad": 0, "undefined": 0, "truncated": 0})
            s["n"] += 1
            rp = {"clause": 4, "family": x, "n": n, "key": key, "scenario": (mode, seeds, (), rho), "deviation": d, "tolerance": tol}
            if row["errs"]:
                s["bad"] += 1
                for nm, msg in sorted(row["errs"].items()):
                    chk.violation("%s|raises %s|%s" % (nm, msg.split(":")[0], mode.split("/")[0]),
                                  "%s(tau=%g, gamma=0, %s) raised %s on graph w=%r seeds=%r rho=%r; the SIS/SIR comparison of the family cannot be made"
                                  % (nm, key[2] * RATE_UNIT, mode, msg, key[0], seeds, rho), rp)
                continue
            if row["nonfinite"] == "generic":
                s["undefined"] += 1
                continue
            if row["nonfinite"] == "limit":
                s["bad"] += 1
                chk.violation("SIS_%s vs SIR_%s|gamma=0: non-finite output (finite with gamma>0)|%s" % (x, x, mode),
                              "gamma=0, tau=%g, %s on graph w=%r seeds=%r rho=%r: nan/inf, finite with gamma=1" % (key[2] * RATE_UNIT, mode, key[0], seeds, rho), rp)
                continue
            if row["truncated"]:
                s["truncated"] += 1
            if row["nontrivial"]:
                chk.cov["distinct_nontrivial"] += 1
            if d > tol:
                s["bad"] += 1
                chk.violation("SIS_%s vs SIR_%s|gamma=0: S(t) differs|%s" % (x, x, mode),
                              "gamma=0, tau=%g, %s on graph w=%r g=%r seeds=%r rho=%r: max|S_SIS - S_SIR| = %.3g over the first %d report times (tolerance %.1g)"
                              % (key[2] * RATE_UNIT, mode, key[0], key[1], seeds, rho, d, row["compared"], tol), rp)
            else:
                s["worst"] = max(s["worst"], d)
    trunc = sum(s["truncated"] for s in stats.values())
    if trunc:
        chk.note("clause 4: in %d scenario(s) S(t) reaches %g*N within the horizon (the closures divide by [S]; beyond that singular point the "
                 "integrator output is no solution of either model); S_SIS and S_SIR are compared up to there" % (trunc, K.S_FLOOR))
    for (x, mode), s in sorted(stats.items()):
        chk.part("clause4 SIS_%s vs SIR_%s [%s]" % (x, x, mode), scenarios=s["n"], failing=s["bad"], undefined_for_the_closure=s["undefined"],
                 compared_up_to_singular_point=s["truncated"], worst_passing_deviation=s["worst"])
    if tasks:
        t0 = tasks[len(tasks) // 3]
        chk.sample({"clause": 4, "family": t0["family"], "graph_w": t0["key"][0], "tau": t0["key"][2] * RATE_UNIT, "gamma": 0.0,
                    "scenarios(mode,seeds,recovered,rho)": t0["scenarios"][:3]})


# =================================================================================================
# clause 5
# =================================================================================================
def clause5(chk):
    scen = K.c5_scenarios(chk.tier)
    outs = pool_map(K.c5_task, scen)
    stats = {}
    slow = 0
    reduced = 0
    for d, o in zip(scen, outs):
        chk.cov["evaluations"] += 1
        if "machinery" in o:
            raise MachineryFailure("clause 5 scenario %r: %s" % (d, o["machinery"]))
        e = o["entry"]
        s = stats.setdefault((e, d["kind"]), {"n": 0, "worst": 0.0, "bad": 0, "skipped": 0})
        s["n"] += 1
        rp = {"clause": 5, "scenario": d, "result": o}
        if "ar_err" in o:
            s["bad"] += 1
            chk.violation("%s|raises %s|%s" % (e, o["ar_err"].split(":")[0], d["kind"].split("/")[1]),
                          "%s raised %s for %r (the final-size relation cannot be evaluated)" % (e, o["ar_err"], d), rp)
            continue
        if "ebcm_err" in o:
            s["bad"] += 1
            chk.violation("EBCM counterpart of %s|raises %s|%s" % (e, o["ebcm_err"].split(":")[0], d["kind"].split("/")[1]),
                          "the dynamic model raised %s for %r" % (o["ebcm_err"], d), rp)
            continue
        if o["limit"] is None or not o["converged"]:
            s["skipped"] += 1
            chk.note("clause 5: %s %r not decided (I(T)=%.3g at T=%d, fixed point converged: %s)" % (e, d, o["I_end"], o["horizon"], o.get("converged")))
            continue
        if abs(o["ar_default"] - o["ar"]) > K.TOL_FINAL:
            slow += 1
        if "its_reduced" in o:
            reduced += 1
        dev = abs(o["ar"] - o["limit"])
        if o["limit"] > 1e-3:
            chk.cov["distinct_nontrivial"] += 1
        if dev > K.TOL_FINAL:
            s["bad"] += 1
            chk.violation("%s|differs from the long-time limit of R/N|%s" % (e, d["kind"].split("/")[1]),
                          "%s = %.9f but R(T)/N = %.9f at T=%d (I(T)=%.2g) for %r" % (e, o["ar"], o["limit"], o["horizon"], o["I_end"], d), rp)
        else:
            s["worst"] = max(s["worst"], dev)
    for (e, kind), s in sorted(stats.items()):
        chk.part("clause5 %s [%s]" % (e, kind), scenarios=s["n"], failing=s["bad"], undecided=s["skipped"], worst_passing_deviation=s["worst"])
    if reduced:
        chk.note("clause 5: in %d scenario(s) with a degree-0 class Attack_rate_discrete raised OverflowError at number_its=%d (theta underflows and the "
                 "k=0 term k*Pk[k]*theta**(k-1) of its psihatPrime overflows); the verdict uses the largest number_its/4^j that returns (robustness remark, not a C08 matter)"
                 % (reduced, K.ITS))
    if slow:
        chk.note("clause 5: in %d scenarios the default number_its=100 had not converged to 1e-6 (verdicts use number_its=%d)" % (slow, K.ITS))
    d0, o0 = next(((d, o) for d, o in zip(scen, outs) if o.get("limit") and o["limit"] > 0.1), (scen[0], outs[0]))
    chk.sample({"clause": 5, "scenario": d0, "attack_rate": o0.get("ar"), "long_time_R_over_N": o0.get("limit"), "horizon": o0.get("horizon")})


# =================================================================================================
# replay
# =================================================================================================
def replay(path):
    with open(path) as fh:
        rp = json.load(fh)
    r = rp["replay"]
    print("replaying %s: %s" % (rp["key"], rp["what"]))
    cl = r.get("clause")
    bad = None
    if cl == 1:
        c = _consts_from_json(r["consts"])
        n = c["N"]
        key = (tuple(r["key"][0]), tuple(r["key"][1]), r["key"][2], r["key"][3])
        # re-emit just this weighted tree
        c1 = dict(c, EW=set(x for x in key[0] if x), NW=set(key[1]), TauSet={key[2]}, GamSet={key[3]},
                  Shape={i + 1 for i, x in enumerate(key[0]) if x}, CheckDefs=False)
        sg, res = O.emit_trees(c1)
        out = K.c1_replay(sg, n, key, tuple(r["seeds"]), tuple(r["rec"]), r["cls"], r["weighted"])
        print(json.dumps(out, indent=1, default=common._jd))
        bad = not (out["dev"] <= K.TOL_TREE)
    elif cl == 2:
        d = r["scenario"]
        o = K.c2_task(d)
        print(json.dumps(o, default=common._jd)[:2000])
        if "rows" in o:
            rows = o["rows"]
            bad = any(abs(rows[k + 1][3] - rows[k][3] - rows[k][2]) > K.FP_EPS for k in range(len(rows) - 1))
            print("R(t+1)-R(t)-I(t) per row (N*1e-8):", [rows[k + 1][3] - rows[k][3] - rows[k][2] for k in range(len(rows) - 1)])
        else:
            bad = True
    elif cl == 3 and "name" in r:
        _survival_only()
        t = {"name": r["name"], "n": r["n"], "key": _key(r["key"]), "scenarios": [_scen(r["scenario"])]}
        o = K.c3_task(t)
        print(o)
        tol = (K.TOL_ADAMS if K.is_adams(r["name"]) else K.TOL_LIMIT) * r["n"]
        bad = any(row["err"] is not None or row["nonfinite"] == "limit" or (row["nonfinite"] is None and max(row["dS"], row["dI"]) > tol) for row in o["rows"])
    elif cl == 3 and "base" in r:
        _survival_only()
        table = K.ode_table()
        t = dict(r["task"], key=_key(r["task"]["key"]), scenario=_scen(r["task"]["scenario"]), bases=K.spy_bases(table), table=table)
        o = K.c3_base_task(t)
        print(o["rows"])
        bad = any((row[5] is not None and row[5] != "nonfinite-generic") or (row[5] is None and max(row[3], row[4]) > K.TOL_ADAMS * 4) for row in o["rows"] if row[0] == r["base"])
    elif cl == 3 and "nograph" in r:
        _survival_only()
        G = K.graphs()[r["graph"]]
        res = K.nograph_calls(r["nograph"], G, 0.0, r["gam"] * RATE_UNIT, r["rho"])
        print([np.asarray(x).tolist() for x in res[1:4]])
        S, I = np.asarray(res[1], float), np.asarray(res[2], float)
        bad = max(float(np.abs(S - S[0]).max()), float(np.abs(I - I[0] * K.SURV[(False, 1, r["gam"])]).max())) > K.TOL_LIMIT * G.order()
    elif cl == 4 and "family" in r:
        t = {"family": r["family"], "n": r["n"], "key": _key(r["key"]), "scenarios": [_scen(r["scenario"])]}
        o = K.c4_task(t)
        print(o)
        tol = (K.TOL_PAIR_ADAMS if K.is_adams("SIS_" + r["family"]) else K.TOL_PAIR) * r["n"]
        bad = any(row["errs"] or row["nonfinite"] == "limit" or (row["nonfinite"] is None and row["dev"] > tol) for row in o["rows"])
    elif cl == 5:
        o = K.c5_task(r["scenario"])
        print(o)
        bad = ("ar_err" in o) or ("ebcm_err" in o) or (o.get("limit") is not None and abs(o["ar"] - o["limit"]) > K.TOL_FINAL)
    else:
        print("this replay file records a specification-level finding; rerun ./check C08")
        return 2
    print("REPRODUCED" if bad else "NOT REPRODUCED (the recorded scenario now satisfies the property)")
    return 1 if bad else 0


def _key(k):
    return (tuple(k[0]), tuple(k[1]), k[2], k[3])


def _scen(s):
    return (s[0], tuple(s[1]), tuple(s[2]), s[3])


def _survival_only():
    class _Null(object):
        def add_tlc(self, *a):
            pass
    _survival_table(_Null())


# =================================================================================================
def main(argv=None):
    common.import_eon()
    rp = os.environ.get("EON_VERIF_REPLAY")
    if rp:
        return replay(rp)
    chk = Check("C08", "model_checking")
    only = os.environ.get("C08_ONLY")          # development aid: comma-separated clause numbers
    sel = set(only.split(",")) if only else {"1", "2", "3", "4", "5"}
    import time
    for num, fn in (("1", clause1), ("2", clause2), ("3", clause3), ("4", clause4), ("5", clause5)):
        if num in sel:
            t0 = time.time()
            fn(chk)
            chk.part("clause%s wall time" % num, wall_s=round(time.time() - t0, 1))
            print("clause %s done in %.0fs" % (num, time.time() - t0))
            sys.stdout.flush()
    chk.assumptions += [
        "TLC, scipy.linalg.expm and float arithmetic are trusted; the generator matrix is assembled from TLC's printed transitions with one rate numerator = %g per unit time" % RATE_UNIT,
        "tolerances: clause 1 %g absolute on S,I,R; clause 3 %g*N (%g*N for SIS_pair_based* and SIS_heterogeneous_pairwise*, which integrate with vode/adams at its default rtol=1e-6 instead of odeint); "
        "clause 4 %g*N (%g*N for the same two families) because two independently integrated solutions are compared through an exponentially growing phase "
        "(measured worst 1.1e-6 / 3.1e-6 on 3-4 nodes; a wrong closure shows at 1e-2); clause 5 %g on R/N" % (K.TOL_TREE, K.TOL_LIMIT, K.TOL_ADAMS, K.TOL_PAIR, K.TOL_PAIR_ADAMS, K.TOL_FINAL),
        "clause 4 compares S_SIS and S_SIR on the prefix of the report grid where both exceed %g*N: the pairwise/effective-degree closures divide by [S] and with gamma=0 some inputs drive S to 0 in finite time, beyond which the integrator output solves neither model" % K.S_FLOOR,
        "clause 3 reads 'S constant' for the SIR models; for SIS models the specification's chain returns a recovering node to S, so S(t) = S(0) + I(0) - I(t) is what is compared; unweighted calls are compared with the entry point's own row 0 (row 0 itself is C06)",
        "clause 5 (Attack_rate_* vs long-time EBCM / EBCM_discrete) is a NON-SPEC side check: a plain numeric comparison of a fixed-point iteration (number_its=%d) with R(T)/N at a horizon where I(T) < 1e-9 N; the specifications contribute nothing to it beyond the scenario family" % K.ITS,
        "base functions taking numeric initial conditions are called with the arguments their own *_from_graph wrapper passes (recorded at the public function boundary), not with independently derived initial conditions",
        "graph selection for clauses 3/4 (no isolated node; one representative per isomorphism class in the quick tier) is scenario selection done in Python",
    ]
    rule = ("clause 1: every (weighted tree, rate pair, placement of 1-2 seeds and 0-1 recovered node, call class) of the TLC-emitted NetEpiTrees graph is one scenario, "
            "non-trivial if the chain's E[S] decreases; clause 2: every EBCM_discrete* output is one TLC-validated trace, non-trivial if I>0 after row 0 and S decreases; "
            "clause 3: every (entry point, mode, graph, placement/rho, gamma) with I(0)>0; clause 4: every (family, mode, graph, placement/rho, tau) whose S decreases; "
            "clause 5: every (degree distribution or graph, rates, initial condition) with final size > 1e-3. distinct_nontrivial counts each scenario once "
            "(clause 1: once per placement, not per call class)")
    return chk.finish(rule, exhaustive=False)


if __name__ == "__main__":
    common.run_main(main)

"""X03 (extra coverage, not one of the listed properties) - the legacy wrapper Gillespie_Arbitrary ("calls
Gillespie_simple_contagion") realises the user-specified transitions like the function it wraps: the whole C03 machinery
(SimpleContagion.tla rate-labelled graph, SimpleContagionImpl.tla, the decision-tree walk) with the wrapper as the entry
point the scenarios are replayed into.  Evidence: /verif/evidence_extra/X03.json."""
import os
os.environ["EON_VERIF_CONTAGION_ENTRY"] = "Gillespie_Arbitrary"

from harness import common  # noqa: E402
from checks import c03      # noqa: E402

if __name__ == "__main__":
    common.run_main(c03.main)

"""C13 - event-driven SIS with arbitrary delays follows the plain reference semantics."""
import json
import os
import shutil
import tempfile

from harness import common, tlc, event_scn, event_sis
from harness.common import Check, pool_map

_G = {}


def model_check(scn):
    d = tempfile.mkdtemp(prefix="eonverif_c13_")
    try:
        p = os.path.join(d, "scenarios.json")
        with open(p, "w") as fh:
            json.dump(scn, fh)
        cfg = tlc.cfg_text({}, invariants=["SameHistory", "LogBounded", "LogOrdered", "EmitRef"],
                           properties=["InfectionCaused"]).replace("CONSTANTS\n", "")
        return tlc.run_tlc("EventSIS", cfg, workers=16, env={"EON_SCENARIOS": p}, coverage=True, timeout=3000)
    finally:
        shutil.rmtree(d, ignore_errors=True)


def _run(i):
    return event_sis.run_all(_G["scn"][i], _G["refs"][i], _G["EoN"])


def _law_chunk(arg):
    """fast_nonMarkov_SIS with exponential rules: histogram of the node-state vector at time T"""
    import random
    import numpy as np
    from harness import netepi
    (n, w, g, tau, gam, st0, T, nruns, seed) = arg
    EoN = _G["EoN"]
    G = netepi.build_graph(n, w, g)
    nodes = list(range(1, n + 1))
    I0 = [u for u in nodes if st0[u - 1] == "I"]
    random.seed(seed)
    np.random.seed(seed % (2 ** 32))
    taur, gamr = tau * common.RATE_UNIT, gam * common.RATE_UNIT

    def rec(u):
        return random.expovariate(gamr * G.nodes[u]["g"])

    def trans(u, v, rec_delay):
        out = []
        r = taur * G[u][v]["w"]
        t = random.expovariate(r)
        while t < rec_delay:
            out.append(t)
            t += random.expovariate(r)
        return out
    obs = {}
    for _ in range(nruns):
        sim = EoN.fast_nonMarkov_SIS(G, trans_time_fxn=trans, rec_time_fxn=rec, initial_infecteds=I0, tmax=T + 0.5, return_full_data=True)
        st = sim.get_statuses(nodelist=nodes, time=T)
        k = tuple(st[u] for u in nodes)
        obs[k] = obs.get(k, 0) + 1
    return obs


def law_part(chk):
    """'with exponential rules this coincides in law with fast_SIS': both are compared with the same master equation
    (Q assembled from TLC-emitted NetEpiOne transitions); disclosed statistical layer, rejection threshold 1e-9"""
    from harness import master
    cases = [(3, (2, 1, 1), (2, 1, 1), 2, 3, ("S", "S", "I"), 0.6), (4, (1, 0, 1, 1, 0, 1), (1, 1, 1, 1), 2, 1, ("S", "I", "S", "I"), 1.0)]
    per = 6000 if chk.tier == "quick" else 20000
    for (n, w, g, tau, gam, st0, T) in cases:
        trans, res = master.emit_one(n, w, g, tau, gam, True)
        chk.add_tlc("NetEpiOne (SIS) generator for the law of fast_nonMarkov_SIS with exponential rules, n=%d" % n, res)
        exp = master.distribution_at(trans, n, True, st0, T)
        obs = {}
        for o in pool_map(_law_chunk, [(n, w, g, tau, gam, st0, T, per, chk.seed * 977 + k) for k in range(16)]):
            for k, v in o.items():
                obs[k] = obs.get(k, 0) + v
        N = per * 16
        pval, detail = master.g_test(obs, exp, N)
        chk.cov["evaluations"] += N
        chk.note("fast_nonMarkov_SIS with exponential rules, state-at-T law vs master equation (n=%d): p=%.3g (%s, N=%d)" % (n, pval, detail, N))
        if pval < 1e-9:
            chk.violation("fast_nonMarkov_SIS|state-at-T-law|exponential-rules",
                          "with exponential durations and Poisson attempt times the law of the node-state vector at T=%r differs from the SIS master equation (G-test p=%.3g, %s)" % (T, pval, detail),
                          {"case": [n, w, g, tau, gam, st0, T]})
    chk.assumptions.append("the clause 'with exponential rules it coincides in law with fast_SIS' is checked statistically (G-test against the master equation that C02 uses for fast_SIS, threshold 1e-9)")


def main():
    chk = Check("C13", "model_checking")
    EoN = common.import_eon()
    rp = os.environ.get("EON_VERIF_REPLAY")
    if rp:
        scn = [json.load(open(rp))["replay"]["scenario"]]
    elif chk.tier == "quick":
        scn = event_scn.sis_scenarios(chk.seed, 1500, unsorted_frac=0.1)
    else:
        scn = event_scn.sis_scenarios(chk.seed, 12000, sizes=(2, 3, 4, 5), unsorted_frac=0.1)
    res = model_check(scn)
    chk.add_tlc("EventSIS: pruned/chained queue = reference semantics on %d scenarios" % len(scn), res)
    if res.violation:
        chk.violation("spec|EventSIS|" + res.violation[:60], "TLC: " + res.violation, {"n_scenarios": len(scn)})
    by = {}
    for rec in res.printed("REF"):
        by.setdefault(rec[1] - 1, []).append((rec[2], rec[3]))
    refs = {}
    tied = 0
    for i in range(len(scn)):
        if i not in by:
            raise common.MachineryFailure("TLC emitted no reference log for scenario %d" % i)
        if any(t for t, _ in by[i]):
            tied += 1
            continue
        logs = {json.dumps(l) for _, l in by[i]}
        if len(logs) != 1:
            raise common.MachineryFailure("untied scenario %d has %d reference logs" % (i, len(logs)))
        refs[i] = by[i][0][1]
    chk.part("scenarios", total=len(scn), tied_and_skipped=tied, unsorted_delay_lists=sum(1 for s in scn if not s["sorted"]))
    if not rp and len(refs) < len(scn) // 2:
        raise common.MachineryFailure("too many tied scenarios: %d of %d" % (tied, len(scn)))
    _G.update(EoN=EoN, scn=scn, refs=refs)
    idx = sorted(refs)
    results = pool_map(_run, idx)
    nontriv = 0
    for i, probs in zip(idx, results):
        chk.cov["evaluations"] += 3
        chk.cov["traces_validated_against_impl"] += 1
        if sum(1 for e in refs[i] if e[1] == "I") >= 2:
            nontriv += 1
        for (iface, kind, detail) in probs:
            cls = ("sorted-delay-lists" if scn[i]["sorted"] else "unsorted-delay-lists") + ("+late-delays" if scn[i].get("late") else "") + ("+negative-times" if scn[i].get("shift", 0) > scn[i]["tmin"] else "")
            chk.violation("%s|%s|%s" % (iface, kind, cls), detail + " [scenario %d]" % i,
                          {"scenario": scn[i], "reference_log": refs[i], "interface": iface})
    chk.cov["distinct_nontrivial"] = nontriv
    if not rp:
        law_part(chk)
    j = idx[len(idx) // 2]
    chk.sample({"scenario": scn[j], "reference_log": refs[j]})
    rule = ("scenario = (graph, initially infected set, per-infection duration table, per-infection delay-list tables, tmin, tmax), seeded random on 2-4 (thorough 2-5) nodes "
            "with generic integer times; TLC runs the reference semantics and the code-shaped pruned/chained queue in lock step, checks equal histories whenever event times are "
            "pairwise distinct, and emits the reference log; the real fast_nonMarkov_SIS (separate and joint interfaces, both return modes) is replayed on every untied scenario; "
            "non-trivial = at least two transmissions (so a reinfection or a chained attempt is exercised)")
    return chk.finish(rule, exhaustive=False)


if __name__ == "__main__":
    common.run_main(main)

"""C13 - event-driven SIS with arbitrary delays follows the plain reference semantics."""
import json
import os
import shutil
import tempfile

from harness import common, tlc, event_scn, event_sis
from harness.common import Check, pool_map

_G = {}


def model_check(scn):
    d = tempfile.mkdtemp(prefix="eonverif_c13_")
    try:
        p = os.path.join(d, "scenarios.json")
        with open(p, "w") as fh:
            json.dump(scn, fh)
        cfg = tlc.cfg_text({}, invariants=["SameHistory", "LogBounded", "LogOrdered", "EmitRef"],
                           properties=["InfectionCaused"]).replace("CONSTANTS\n", "")
        return tlc.run_tlc("EventSIS", cfg, workers=16, env={"EON_SCENARIOS": p}, coverage=True, timeout=3000)
    finally:
        shutil.rmtree(d, ignore_errors=True)


def _run(i):
    return event_sis.run_all(_G["scn"][i], _G["refs"][i], _G["EoN"])


def main():
    chk = Check("C13", "model_checking")
    EoN = common.import_eon()
    rp = os.environ.get("EON_VERIF_REPLAY")
    if rp:
        scn = [json.load(open(rp))["replay"]["scenario"]]
    elif chk.tier == "quick":
        scn = event_scn.sis_scenarios(chk.seed, 1500, unsorted_frac=0.1)
    else:
        scn = event_scn.sis_scenarios(chk.seed, 12000, sizes=(2, 3, 4, 5), unsorted_frac=0.1)
    res = model_check(scn)
    chk.add_tlc("EventSIS: pruned/chained queue = reference semantics on %d scenarios" % len(scn), res)
    if res.violation:
        chk.violation("spec|EventSIS|" + res.violation[:60], "TLC: " + res.violation, {"n_scenarios": len(scn)})
    by = {}
    for rec in res.printed("REF"):
        by.setdefault(rec[1] - 1, []).append((rec[2], rec[3]))
    refs = {}
    tied = 0
    for i in range(len(scn)):
        if i not in by:
            raise common.MachineryFailure("TLC emitted no reference log for scenario %d" % i)
        if any(t for t, _ in by[i]):
            tied += 1
            continue
        logs = {json.dumps(l) for _, l in by[i]}
        if len(logs) != 1:
            raise common.MachineryFailure("untied scenario %d has %d reference logs" % (i, len(logs)))
        refs[i] = by[i][0][1]
    chk.part("scenarios", total=len(scn), tied_and_skipped=tied, unsorted_delay_lists=sum(1 for s in scn if not s["sorted"]))
    if not rp and len(refs) < len(scn) // 2:
        raise common.MachineryFailure("too many tied scenarios: %d of %d" % (tied, len(scn)))
    _G.update(EoN=EoN, scn=scn, refs=refs)
    idx = sorted(refs)
    results = pool_map(_run, idx)
    nontriv = 0
    for i, probs in zip(idx, results):
        chk.cov["evaluations"] += 3
        chk.cov["traces_validated_against_impl"] += 1
        if sum(1 for e in refs[i] if e[1] == "I") >= 2:
            nontriv += 1
        for (iface, kind, detail) in probs:
            cls = ("sorted-delay-lists" if scn[i]["sorted"] else "unsorted-delay-lists") + ("+late-delays" if scn[i].get("late") else "") + ("+negative-times" if scn[i].get("shift", 0) > scn[i]["tmin"] else "")
            chk.violation("%s|%s|%s" % (iface, kind, cls), detail + " [scenario %d]" % i,
                          {"scenario": scn[i], "reference_log": refs[i], "interface": iface})
    chk.cov["distinct_nontrivial"] = nontriv
    j = idx[len(idx) // 2]
    chk.sample({"scenario": scn[j], "reference_log": refs[j]})
    rule = ("scenario = (graph, initially infected set, per-infection duration table, per-infection delay-list tables, tmin, tmax), seeded random on 2-4 (thorough 2-5) nodes "
            "with generic integer times; TLC runs the reference semantics and the code-shaped pruned/chained queue in lock step, checks equal histories whenever event times are "
            "pairwise distinct, and emits the reference log; the real fast_nonMarkov_SIS (separate and joint interfaces, both return modes) is replayed on every untied scenario; "
            "non-trivial = at least two transmissions (so a reinfection or a chained attempt is exercised)")
    return chk.finish(rule, exhaustive=False)


if __name__ == "__main__":
    common.run_main(main)

"""C10 - full-data object and plain time series describe the same epidemic
(TraceInvestigation.tla; CheckInvestigation.tla for the summary()/node_status algorithms)."""
import json
import os
import random as pyrandom

from harness import common, simruns, tracecheck, tlc
from harness.common import Check, pool_map

_G = {}
MOVES = {"SIR": [["S", "I"], ["I", "R"]], "SIS": [["S", "I"], ["I", "S"]]}


def scenarios(tier, seed):
    fam = simruns.graph_family(seed, 80 if tier == "quick" else 200, max_n=11 if tier == "quick" else 14)
    out = []
    seeds = [1, 2, 3] if tier == "quick" else [1, 2, 3, 4, 5, 6]
    for gi, (n, edges) in enumerate(fam):
        for sim in simruns.ALL:
            kind = simruns.kind_of(sim)
            disc = simruns.is_discrete(sim)
            for s in seeds:
                tau, gamma = ((1.0, 1.0), (3.0, 0.5), (0.5, 2.0))[s % 3]
                if s == 3 and kind == "SIR" and not disc:
                    gamma = 0.0          # nobody ever recovers: recovery "at infinity" must not show up anywhere
                ik = {"initial_infecteds": [1, n] if (s % 2 == 0 and n > 1) else [1]}
                if n >= 4 and simruns.supports_R0(sim) and s % 2 == 0:
                    ik["initial_recovereds"] = [2]
                tmin = (0 if s % 2 else 2) if gi % 3 else (-3 if disc else -2.5)     # also negative start times (then 0 is an ordinary query time)
                if gi % 3 == 1 and s % 2 == 1:
                    tmin = 0.18          # a start time that is not exactly representable: tmin+1+1+... and tmin+k differ in the last bit
                if disc:
                    tmax = None if kind == "SIR" else tmin + 4
                    if kind == "SIR" and s % 2 == 1 and tmin == int(tmin):
                        tmax = tmin + 2      # a horizon on the step grid that many runs reach with somebody still infectious
                else:
                    tmax = None if kind == "SIR" else tmin + 3.5
                out.append({"sim": sim, "n": n, "edges": edges, "weights": None, "tau": tau, "gamma": gamma,
                            "p": 1.0 if disc else 0.5, "tmin": tmin, "tmax": tmax, "init_kw": ik,
                            "weighted": simruns.supports_weights(sim) and s % 2 == 0, "seed": s * 15485863 + gi})
    # discrete_SIR with a deterministic transmission rule and a deterministic recovery test (nodes stay infectious 1 + u%3 steps)
    for gi, (n, edges) in enumerate(fam):
        if n < 3:
            continue
        for tmin in (0, -2):
            out.append({"sim": "discrete_SIR(recovery test)", "rectest": 1, "n": n, "edges": edges, "tmin": tmin, "seed": gi,
                        "init_kw": {"initial_recovereds": [2]} if gi % 2 else {}})
    # generic simulators: multi-status models, all statuses or only a subset of them reported
    from harness import contagion
    grng = pyrandom.Random(seed + 1010)
    for k in range(300 if tier == "quick" else 1200):
        mname = grng.choice(["SIRS", "SEIR", "SIRV", "compete", "cooperate", "SIR"])
        sts = contagion.MODELS[mname][0]
        n = grng.randint(3, 7)
        adj = [[0] * n for _ in range(n)]
        for u in range(n):
            for v in range(u + 1, n):
                if grng.random() < 0.5:
                    adj[u][v] = adj[v][u] = 1
        drop = grng.choice([None, None, 0, 1, len(sts) - 1])
        if k % 4 == 3 and len(sts) >= 4:
            drop = (1, 2)          # two statuses left out: some transitions then touch no reported status at all
        out.append({"sim": "Gillespie_simple_contagion(%s%s)" % (mname, "" if drop is None else ", return_statuses without %s" % (sts[drop] if isinstance(drop, int) else "+".join(sts[d_] for d_ in drop))),
                    "generic": mname, "n": n, "adj": adj, "ic": [grng.choice(sts) for _ in range(n)], "drop": drop,
                    "tmin": grng.choice([0, 1.5]), "seed": k, "init_kw": {}})
    # table-driven event-driven SIR with ties, zero and infinite values and horizons that coincide with event times
    from harness import event_scn
    for k, es in enumerate(event_scn.sir_scenarios(seed + 10, 1000 if tier == "quick" else 4000, exhaustive2=False)):
        out.append({"sim": "fast_nonMarkov_SIR(table rules)", "ties": es, "n": es["n"], "init_kw": {"initial_recovereds": 1} if "R" in es["init"] else {},
                    "tmin": es["tmin"], "seed": k})
    return out


def _call_ties(EoN, es, full):
    from harness import event_scn, event_sir
    G = event_sir.build(es)
    nodes = list(range(1, es["n"] + 1))
    tt, rt, jt = event_sir.make_fxns(es)
    kw = dict(initial_infecteds=[u for u in nodes if es["init"][u - 1] == "I"], tmin=event_scn.fl(es["tmin"]), tmax=event_scn.fl(es["tmax"]))
    R0 = [u for u in nodes if es["init"][u - 1] == "R"]
    if R0:
        kw["initial_recovereds"] = R0
    return G, EoN.fast_nonMarkov_SIR(G, trans_time_fxn=tt, rec_time_fxn=rt, return_full_data=full, **kw)


def _record(i):
    sc = _G["scn"][i]
    EoN = _G["EoN"]
    sim = sc["sim"]
    kind = "SIR" if ("ties" in sc or "rectest" in sc or "generic" in sc) else simruns.kind_of(sim)
    w = None
    if sc.get("weighted"):
        w = {"g": [1.0 + (u % 3) * 0.5 for u in range(sc["n"])], "w": [0.5 + (k % 4) * 0.5 for k in range(len(sc["edges"]))]}
    sts = ["S", "I", "R"] if kind == "SIR" else ["S", "I"]
    try:
        if "generic" in sc:
            from harness import contagion
            allsts, sp, ind = contagion.MODELS[sc["generic"]]
            n_ = sc["n"]
            cs = {"model": sc["generic"], "n": n_, "statuses": allsts, "adj": sc["adj"], "directed": 0, "wmode": "none",
                  "spont": [{"from": a, "to": b, "rate": r, "nw": [1] * n_} for (a, b, r) in sp],
                  "induced": [{"a": a, "b": b, "c": c, "rate": r, "ew": sc["adj"]} for (a, b, c, r) in ind]}
            G, H, J, calls = contagion.build(cs)
            IC = {u: sc["ic"][u - 1] for u in range(1, n_ + 1)}
            sts = [x for k_, x in enumerate(allsts) if (k_ != sc["drop"] if not isinstance(sc["drop"], (tuple, list)) else k_ not in sc["drop"])]
            moves_all = [[a, b] for (a, b, r) in sp] + [[b, c] for (a, b, c, r) in ind]
            simruns.seed_all(sc["seed"])
            arrs = [list(map(float, a)) for a in EoN.Gillespie_simple_contagion(G, H, J, IC, sts, tmin=sc["tmin"], tmax=sc["tmin"] + 3.0)]
            simruns.seed_all(sc["seed"])
            obj = EoN.Gillespie_simple_contagion(G, H, J, IC, sts, tmin=sc["tmin"], tmax=sc["tmin"] + 3.0, return_full_data=True)
        elif "rectest" in sc:
            G = simruns.make_graph(sc["n"], sc["edges"])

            def run(full):
                cnt = {}

                def keep(u):
                    cnt[u] = cnt.get(u, 0) + 1
                    return cnt[u] >= 1 + u % 3
                kw = dict(initial_infecteds=[1], tmin=sc["tmin"], test_recovery=keep, return_full_data=full)
                if sc["init_kw"]:
                    kw["initial_recovereds"] = [2]
                return EoN.discrete_SIR(G, test_transmission=lambda u, v: (u + v) % 4 != 0, args=(), **kw)
            arrs = [list(map(float, a)) for a in run(False)]
            obj = run(True)
        elif "ties" in sc:
            G, r0 = _call_ties(EoN, sc["ties"], False)
            arrs = [list(map(float, a)) for a in r0]
            G, obj = _call_ties(EoN, sc["ties"], True)
        else:
            G = simruns.make_graph(sc["n"], sc["edges"], w)
            simruns.seed_all(sc["seed"])
            arrs = [list(map(float, a)) for a in simruns.call_sim(EoN, sim, G, sc, False)]
            simruns.seed_all(sc["seed"])
            obj = simruns.call_sim(EoN, sim, G, sc, True)
        nodes = sorted(G.nodes())
        hist = {u: ([float(t) for t in obj.node_history(u)[0]], list(obj.node_history(u)[1])) for u in nodes}
        def read_accessors():
            summ_ = obj.summary()
            acc_t_ = [float(x) for x in obj.t()]
            if "generic" in sc:
                acc_ = {x: summ_[1][x] for x in sts}
                for nm_, f_ in (("S", obj.S), ("I", obj.I), ("R", obj.R)):
                    if nm_ in sts:
                        acc_[nm_] = f_()
            else:
                acc_ = {"S": obj.S(), "I": obj.I()}
                if kind == "SIR":
                    acc_["R"] = obj.R()
            return summ_, acc_t_, acc_
        rng = pyrandom.Random(sc["seed"])
        sub = sorted(rng.sample(nodes, max(1, len(nodes) // 2)))
        # "any node subset": a list, a set, a tuple, a one-shot iterator or a generator
        style = sc["seed"] % 5
        arg = [list(sub), set(sub), tuple(sub), iter(list(sub)), (x for x in list(sub))][style]
        # the whole-population accessors are read before the subset summary in half of the scenarios, after it (and
        # after one more whole summary) in the other half: what they answer must not depend on what was asked before
        if (i // 5) % 2 == 0:
            summ, acc_t, acc = read_accessors()
            ssub = obj.summary(nodelist=arg)
        else:
            obj.summary()
            ssub = obj.summary(nodelist=arg)
            summ, acc_t, acc = read_accessors()
        # query times: every event time, midpoints, tmin, beyond the end
        import math
        if any(math.isinf(t) for u in nodes for t in hist[u][0]) or any(math.isinf(t) for t in arrs[0]):
            return {"error": "an event at infinite time is reported (histories %r, times %r)" % ([hist[u] for u in nodes][:3], arrs[0][-3:]),
                    "etype": "event-at-infinite-time"}
        times = sorted({t for u in nodes for t in hist[u][0]} | {float(sc["tmin"])} | set(arrs[0]))
        enc = {t: 2 * (k + 1) for k, t in enumerate(times)}
        qs = []
        qtimes = [(t, enc[t]) for t in times] + [((a + b) / 2.0, enc[a] + 1) for a, b in zip(times, times[1:])] + [(times[-1] + 1.0, enc[times[-1]] + 1)]
        if times[0] < 0:
            # the query time 0 (int and float), wherever it falls
            below = [t for t in times if t <= 0]
            code0 = enc[below[-1]] + (0 if below[-1] == 0 else 1)
            qtimes = [(0, code0), (0.0, code0)] + qtimes
        qn = nodes if len(nodes) <= 4 else rng.sample(nodes, 4)
        for (t, code) in qtimes[:40]:
            if t < sc["tmin"]:
                continue
            gs = obj.get_statuses(nodelist=qn, time=t)
            for u in qn:
                a = obj.node_status(u, t)
                qs.append([u, code, a])
                if gs[u] != a:
                    qs.append([u, code, "get_statuses:%s" % gs[u]])
        default_gs = obj.get_statuses()
        for u in nodes:
            qs.append([u, enc[float(sc["tmin"])], default_gs[u]])

        def rows(tt, cols):
            return [[enc.get(float(t), 999999)] + [int(c[k]) for c in cols] for k, t in enumerate(tt)]
        tr = {"sim": sim, "n": sc["n"], "tmin": enc[float(sc["tmin"])], "statuses": sts, "moves": (moves_all if "generic" in sc else MOVES[kind]),
              "hist": [[[enc.get(t, 999999), s] for t, s in zip(*hist[u])] for u in nodes],
              "summ": rows(summ[0], [summ[1][s] for s in sts]),
              "acc": rows(acc_t, [acc[s] for s in sts]),
              "sub_nodes": sub, "sub_rows": rows(ssub[0], [ssub[1][s] for s in sts]),
              "has_arr": 1, "arr": rows(arrs[0], arrs[1:1 + len(sts)]),
              "cont": 0 if ("rectest" in sc or (not ("generic" in sc or "ties" in sc) and simruns.is_discrete(sim))) else 1,
              "queries": qs, "scn": i}
        return tr
    except Exception as ex:
        return {"error": repr(ex), "etype": type(ex).__name__}


def main():
    chk = Check("C10", "model_checking")
    EoN = common.import_eon()
    for ordered in (True, False):
        r = tlc.run_tlc("CheckInvestigation", tlc.cfg_text({"MaxT": 2, "MaxLen": 3, "NNodes": 2, "Ordered": ordered},
                        invariants=["SummaryAlgorithmCorrect", "StatusAlgorithmCorrect"]), workers=16, timeout=900)
        chk.add_tlc("CheckInvestigation (time-ordered histories only: %s)" % ordered, r)
        if ordered and r.violation:
            chk.violation("spec|CheckInvestigation|" + r.violation[:60], "TLC: the summary()/node_status algorithms differ from their definition on well-formed histories: " + r.violation, {})
        if not ordered and not r.violation:
            raise common.MachineryFailure("control failed: TLC found no counterexample for histories that are not time-ordered")
    rp = os.environ.get("EON_VERIF_REPLAY")
    scn = [json.load(open(rp))["replay"]["scenario"]] if rp else scenarios(chk.tier, chk.seed)
    _G.update(EoN=EoN, scn=scn)
    recs = pool_map(_record, range(len(scn)))
    traces, idx = [], []
    for i, r in enumerate(recs):
        if "error" in r:
            chk.violation("%s|exception:%s|" % (scn[i]["sim"], r["etype"]), r["error"], {"scenario": scn[i]})
            continue
        traces.append(r)
        idx.append(i)
    acc, res, diags = tracecheck.validate("TraceInvestigation", traces)
    chk.add_tlc("TraceInvestigation: %d paired runs" % len(traces), res)
    if res.violation:
        chk.violation("spec|TraceInvestigation|" + res.violation[:60], "TLC: " + res.violation, {})
    for j, t in enumerate(traces):
        chk.cov["evaluations"] += 2
        if j in acc:
            chk.cov["traces_validated_against_impl"] += 1
            if len(t["summ"]) > 1:
                chk.cov["distinct_nontrivial"] += 1
            continue
        clause, detail = tracecheck.failing_clause(diags.get(j))
        sc = scn[idx[j]]
        cls = "initial-recovereds" if "initial_recovereds" in sc["init_kw"] else "plain"
        chk.violation("%s|%s|%s" % (t["sim"], clause, cls),
                      "paired runs rejected by TraceInvestigation: %s; arrays %r summary %r history of node 1 %r"
                      % (detail, t["arr"][:5], t["summ"][:5], t["hist"][0]),
                      {"scenario": sc, "trace": t})
    if traces:
        chk.sample(traces[len(traces) // 2])
    chk.assumptions.append("the two return modes are run with identically seeded random/numpy.random; discrete-time simulators use a deterministic rule (p=1)")
    rule = ("trace = one scenario x one seed: the arrays of the run without full data plus, from the identically seeded run with full data, all node histories, summary(), t()/S()/I()/R(), "
            "summary(nodelist=random subset) and node_status/get_statuses answers at every event time, every midpoint, tmin and beyond the last event; 13 simulators, graphs incl. isolated nodes, "
            "initially recovered nodes, weights; TLC evaluates the declarative Investigation semantics on every trace; CheckInvestigation model-checks the summary()/node_status algorithms against their "
            "definitions on every small set of time-ordered histories (and must fail without time order); non-trivial = at least one event")
    return chk.finish(rule, exhaustive=False)


if __name__ == "__main__":
    common.run_main(main)

"""C04 - trajectories are well-formed (count-level trace validation, TraceCounts.tla)."""
import json
import math
import os
import random as pyrandom

from harness import common, simruns, tracecheck
from harness.common import Check, pool_map
from harness.simruns import INF

_G = {}
SIR_MOVES = [[1, 2, 2], [2, 3, 0]]
SIS_MOVES = [[1, 2, 2], [2, 1, 0]]


def scenarios(tier, seed):
    fam = simruns.graph_family(seed, 16 if tier == "quick" else 40, max_n=12 if tier == "quick" else 14)
    rates = [(1.0, 1.0), (2.0, 0.5), (0.0, 1.0), (1.0, 0.0), (0.0, 0.0)]
    out = []
    rng = pyrandom.Random(seed + 4)
    seeds = [1] if tier == "quick" else [1, 2, 3]
    for gi, (n, edges) in enumerate(fam):
        for (tau, gamma) in rates:
            for sim in simruns.ALL + [simruns.RULE_SIM]:
                kind = simruns.kind_of(sim)
                disc = simruns.is_discrete(sim)
                if disc:
                    hz = [(0, None), (2, 5), (-1.5, 1.5)] if kind == "SIR" else [(0, 4), (2, 5), (-1.5, 0.5)]
                elif kind == "SIR":
                    hz = [(0, None), (2, 4.5), (-1.5, -1.25)]
                else:
                    hz = [(0, 3), (2, 2.7)]
                for (tmin, tmax) in hz:
                    inits = [{"initial_infecteds": 1}]
                    if n >= 2:
                        inits.append({"initial_infecteds": [1, n]})
                    if n >= 3 and simruns.supports_R0(sim):
                        inits.append({"initial_infecteds": [2], "initial_recovereds": [1]})
                    for ik in inits:
                        for s in seeds:
                            for weighted in ([False, True, "tiny"] if simruns.supports_weights(sim) and tau * gamma > 0 else [False]):
                                w = None
                                if weighted:
                                    # "tiny": all rates of the order 1e-9 (slow processes measured in a small time unit)
                                    unit = 1.0 if weighted is True else 1.0e-9
                                    w = {"g": [unit * (1.0 + (u % 3) * 0.5) for u in range(n)], "w": [unit * (0.5 + (i % 4) * 0.5) for i in range(len(edges))]}
                                    if weighted == "tiny" and (tmax is not None or s != seeds[0]):
                                        continue
                                out.append({"sim": sim, "n": n, "edges": edges, "weights": w, "tau": tau, "gamma": gamma,
                                            "p": {0.0: 0.0, 1.0: 0.5, 2.0: 1.0}[tau], "tmin": tmin, "tmax": tmax,
                                            "init_kw": ik, "weighted": bool(weighted), "tiny": weighted == "tiny", "seed": s * 7919 + gi})
    # long runs: tens of thousands of events on one set of candidate lists / one event queue (bookkeeping that goes wrong
    # only every so many operations, drift of running totals)
    n = 12
    edges = [(u, v) for u in range(1, n + 1) for v in range(u + 1, n + 1) if (u + v) % 3 != 0]
    for sim in ("Gillespie_SIS", "fast_SIS"):
        for weighted in (False, True):
            w = None
            if weighted:
                w = {"g": [0.7 + 0.1 * (u % 4) for u in range(n)], "w": [0.3 + 0.1 * (i % 5) for i in range(len(edges))]}
            out.append({"sim": sim, "n": n, "edges": edges, "weights": w, "tau": 1.0, "gamma": 1.0, "p": 0.5, "tmin": 0,
                        "tmax": 400 if tier == "quick" else 1500, "init_kw": {"initial_infecteds": [1, 2, 3]}, "weighted": weighted,
                        "long": True, "seed": 99 + (1 if weighted else 0)})
    # table-driven fast_nonMarkov_SIS whose durations and delays are small multiples of one step: simultaneous events
    from harness import event_scn
    for k, es in enumerate(event_scn.sis_lattice_scenarios(seed, 1000 if tier == "quick" else 4000)):
        out.append({"sim": "fast_nonMarkov_SIS(table rules, simultaneous events)", "sis_ties": es, "n": es["n"], "edges": [], "weights": None,
                    "tau": 1.0, "gamma": 1.0, "p": 0.5, "tmin": es["tmin"], "tmax": es["tmax"], "init_kw": {}, "weighted": False, "seed": k})
    # generic simulators: any user model, the legal moves are the model's own edges
    from harness import contagion
    mrng = pyrandom.Random(seed + 404)
    for k in range(800 if tier == "quick" else 3000):
        mname = mrng.choice(sorted(contagion.MODELS))
        sts, sp, ind = contagion.MODELS[mname]
        n = mrng.randint(2, 7)
        directed = mrng.random() < 0.4
        adj = [[0] * n for _ in range(n)]
        for u in range(n):
            for v in range(n):
                if u != v and mrng.random() < 0.4:
                    adj[u][v] = 1
                    if not directed:
                        adj[v][u] = 1
        if not directed:
            for u in range(n):
                for v in range(u):
                    adj[u][v] = adj[v][u]
        tmin = mrng.choice([0, 0, 2.5])
        out.append({"sim": "Gillespie_simple_contagion(%s)" % mname, "generic": mname, "n": n, "adj": adj, "directed": directed,
                    "ic": [mrng.choice(sts) for _ in range(n)], "seed": k, "tmin": tmin, "tmax": tmin + mrng.choice([0.5, 2.0, 6.0]),
                    "tau": 1.0, "gamma": 1.0, "init_kw": {}})
    from harness import complexc
    for k in range(500 if tier == "quick" else 2000):
        mname = mrng.choice(sorted(complexc.MODELS))
        n = mrng.randint(2, 6)
        adj = [[0] * n for _ in range(n)]
        for u in range(n):
            for v in range(u + 1, n):
                if mrng.random() < 0.5:
                    adj[u][v] = adj[v][u] = 1
        sts = complexc.MODELS[mname][0]
        tmin = mrng.choice([0, 0, 2.5])
        out.append({"sim": "Gillespie_complex_contagion(%s)" % mname, "complex": mname, "n": n, "adj": adj,
                    "ic": [mrng.choice(sts) for _ in range(n)], "seed": k, "tmin": tmin, "tmax": tmin + mrng.choice([0.5, 2.0, 6.0]),
                    "tau": 1.0, "gamma": 1.0, "init_kw": {}})
    return out


def _record_complex(i):
    import networkx as nx
    from harness import complexc
    sc = _G["scn"][i]
    EoN = _G["EoN"]
    sts, rules, infl = complexc.MODELS[sc["complex"]]
    n = sc["n"]
    cs = {"model": sc["complex"], "n": n, "statuses": sts, "adj": sc["adj"], "rules": rules, "inflby": complexc._by(sts, infl), "small": 0}
    G = nx.Graph()
    G.add_nodes_from(range(1, n + 1))
    for u in range(n):
        for v in range(u + 1, n):
            if sc["adj"][u][v]:
                G.add_edge(u + 1, v + 1)
    rf, tc, gi = complexc.callbacks(cs, [], "list")
    IC = {u: sc["ic"][u - 1] for u in range(1, n + 1)}
    if sc["seed"] % 3 == 0:      # an initial condition prepared for a larger population
        for extra in range(n + 1, n + 4):
            IC[extra] = sts[extra % len(sts)]
    idx = {s: k + 1 for k, s in enumerate(sts)}
    moves = []
    for r in rules:
        moves.append([idx[r["from"]], idx[r["to"]], 0])
        moves.append([idx[r["from"]], idx[r["alt"]], 0])
    out = []
    for full in (False, True):
        simruns.seed_all(sc["seed"])
        try:
            r = EoN.Gillespie_complex_contagion(G, rf, tc, gi, IC, sts, tmin=sc["tmin"], tmax=sc["tmax"], parameters=(), return_full_data=full)
        except Exception as ex:
            out.append({"error": repr(ex), "etype": type(ex).__name__, "full": full})
            continue
        if full:
            summ = r.summary()
            arrs = [[float(x) for x in summ[0]]] + [[int(x) for x in summ[1][s_]] for s_ in sts]
        else:
            arrs = [list(a) for a in r]
        lens = [len(a) for a in arrs]
        ints = all(float(x) == int(x) for a in arrs[1:] for x in a)
        m = min(lens)
        rows = [[float(arrs[0][k])] + [int(arrs[j][k]) for j in range(1, len(sts) + 1)] for k in range(m)]
        rk = simruns.rank_times([x[0] for x in rows], extra=[float(sc["tmin"]), float(sc["tmax"])])
        rows = [[rk[x[0]]] + x[1:] for x in rows]
        out.append({"sim": sc["sim"], "kind": "generic", "disc": 0, "n": n, "tmin": rk[float(sc["tmin"])], "tmax": rk[float(sc["tmax"])],
                    "whole": 0, "must_die_out": 0, "rows": rows, "equal_lengths": 1 if len(set(lens)) == 1 else 0,
                    "integers": 1 if ints else 0, "moves": moves, "full": full, "scn": i})
    return out


def _record_generic(i):
    from harness import contagion
    sc = _G["scn"][i]
    EoN = _G["EoN"]
    sts, sp, ind = contagion.MODELS[sc["generic"]]
    n = sc["n"]
    cs = {"model": sc["generic"], "n": n, "statuses": sts, "adj": sc["adj"], "directed": 1 if sc["directed"] else 0, "wmode": "none",
          "spont": [{"from": a, "to": b, "rate": r, "nw": [1] * n} for (a, b, r) in sp],
          "induced": [{"a": a, "b": b, "c": c, "rate": r, "ew": sc["adj"]} for (a, b, c, r) in ind]}
    G, H, J, calls = contagion.build(cs)
    IC = {u: sc["ic"][u - 1] for u in range(1, n + 1)}
    if sc["seed"] % 3 == 0:      # an initial condition prepared for a larger population
        for extra in range(n + 1, n + 4):
            IC[extra] = sts[extra % len(sts)]
    idx = {s: k + 1 for k, s in enumerate(sts)}
    moves = [[idx[a], idx[b], 0] for (a, b, r) in sp] + [[idx[b], idx[c], idx[a]] for (a, b, c, r) in ind]
    out = []
    for full in (False, True):
        simruns.seed_all(sc["seed"])
        try:
            r = EoN.Gillespie_simple_contagion(G, H, J, IC, sts, tmin=sc["tmin"], tmax=sc["tmax"], return_full_data=full)
        except Exception as ex:
            out.append({"error": repr(ex), "etype": type(ex).__name__, "full": full})
            continue
        if full:
            t = [float(x) for x in r.t()]
            summ = r.summary()[1]
            arrs = [t] + [[int(x) for x in summ[s_]] for s_ in sts]
            # a summary merges simultaneous events; with continuous draws there are none
        else:
            arrs = [list(a) for a in r]
        lens = [len(a) for a in arrs]
        ints = all(float(x) == int(x) for a in arrs[1:] for x in a)
        m = min(lens)
        rows = [[float(arrs[0][k])] + [int(arrs[j][k]) for j in range(1, len(sts) + 1)] for k in range(m)]
        rk = simruns.rank_times([x[0] for x in rows], extra=[float(sc["tmin"]), float(sc["tmax"])])
        rows = [[rk[x[0]]] + x[1:] for x in rows]
        out.append({"sim": sc["sim"], "kind": "generic", "disc": 0, "n": n, "tmin": rk[float(sc["tmin"])], "tmax": rk[float(sc["tmax"])],
                    "whole": 0, "must_die_out": 0, "rows": rows, "equal_lengths": 1 if len(set(lens)) == 1 else 0,
                    "integers": 1 if ints else 0, "moves": moves, "full": full, "scn": i})
    return out


def _record(i):
    if "generic" in _G["scn"][i]:
        return _record_generic(i)
    if "complex" in _G["scn"][i]:
        return _record_complex(i)
    sc = _G["scn"][i]
    EoN = _G["EoN"]
    sim = sc["sim"]
    if "sis_ties" in sc:
        from harness import event_sir, event_sis
        es = sc["sis_ties"]
        G = event_sir.build(es)
        kind, disc = "SIS", False
    else:
        G = simruns.make_graph(sc["n"], sc["edges"], sc["weights"])
        kind = simruns.kind_of(sim)
        disc = simruns.is_discrete(sim)

    def do_call(full):
        if "sis_ties" not in sc:
            return simruns.call_sim(EoN, sim, G, sc, full)
        tt, rt, jt, js = event_sis.make_fxns(es)
        return EoN.fast_nonMarkov_SIS(G, trans_time_fxn=tt, rec_time_fxn=rt, initial_infecteds=[u + 1 for u in range(es["n"]) if es["init"][u] == "I"],
                                      tmin=float(es["tmin"]), tmax=float(es["tmax"]), return_full_data=full)
    tmax = sc["tmax"]
    eff_tmax = tmax if tmax is not None else (float("inf") if kind == "SIR" or disc else 100.0)
    if sim in ("simple_contagion_SIR", "complex_contagion_SIR") and tmax is None:
        eff_tmax = 100.0  # those have a finite default horizon
    out = []
    for full in (False, True):
        simruns.seed_all(sc["seed"])
        try:
            r = do_call(full)
        except Exception as ex:
            out.append({"error": repr(ex), "etype": type(ex).__name__, "full": full})
            continue
        nst = 3 if kind == "SIR" else 2
        if not full:
            arrs = [list(a) for a in r]
            lens = [len(a) for a in arrs]
            ints = all(float(x) == int(x) for a in arrs[1:] for x in a)
            m = min(lens)
            rows = [[float(arrs[0][k])] + [int(arrs[j][k]) for j in range(1, nst + 1)] for k in range(m)]
        else:
            if not hasattr(r, "node_history"):
                out.append({"error": "return_full_data=True returned %s instead of a Simulation_Investigation" % type(r).__name__,
                            "etype": "no-full-data-object", "full": full})
                continue
            obs = simruns.observe_full(r, G)
            order = {"S": 0, "I": 1, "R": 2}
            nodes = sorted(G.nodes())
            st = {u: obs["hist"][u][1][0] for u in nodes}
            t0 = min(obs["hist"][u][0][0] for u in nodes)
            ch = []
            for u in nodes:
                ts, ss = obs["hist"][u]
                for k in range(1, len(ts)):
                    ch.append((ts[k], u, ss[k]))
            ch.sort(key=lambda c: c[0])
            cnt = [sum(1 for u in nodes if st[u] == s) for s in ("S", "I", "R")[:nst]]
            rows = [[t0] + list(cnt)]
            if disc:
                # one row per generation
                times = sorted({c[0] for c in ch})
                for tt in times:
                    for c in ch:
                        if c[0] == tt:
                            st[c[1]] = c[2]
                    rows.append([tt] + [sum(1 for u in nodes if st[u] == s) for s in ("S", "I", "R")[:nst]])
            else:
                for c in ch:
                    st[c[1]] = c[2]
                    rows.append([c[0]] + [sum(1 for u in nodes if st[u] == s) for s in ("S", "I", "R")[:nst]])
            lens = [len(rows)] * (nst + 1)
            ints = True
        tmin = float(sc["tmin"])
        if disc:
            def k_of(t):
                d = t - tmin
                return int(d) if (not math.isinf(d)) and (not math.isnan(d)) and d == int(d) and d >= 0 else 999999
            rows = [[k_of(x[0])] + x[1:] for x in rows]
            whole = 1 if (not math.isinf(eff_tmax) and (eff_tmax - tmin) == int(eff_tmax - tmin)) else 0
            tmx = int(eff_tmax - tmin) if whole else INF
            tmn = 0
        else:
            rk = simruns.rank_times([x[0] for x in rows], extra=[tmin, eff_tmax])
            rows = [[rk[x[0]]] + x[1:] for x in rows]
            tmn = rk[tmin]
            tmx = rk[eff_tmax]
            whole = 0
        rec_pos = sc["gamma"] > 0 if not disc else True
        must = 1 if (kind == "SIR" and math.isinf(eff_tmax) and rec_pos) else 0
        if disc and full:
            # in full-data mode a discrete run reports a generation only when something changes
            pass
        out.append({"sim": sim, "kind": kind, "disc": 1 if disc else 0, "n": sc["n"], "tmin": tmn, "tmax": tmx,
                    "whole": whole, "must_die_out": must, "rows": rows, "equal_lengths": 1 if len(set(lens)) == 1 else 0,
                    # table rules may list attempts later than the source's own recovery: an infection then needs no
                    # currently infectious node
                    "integers": 1 if ints else 0, "moves": ([[1, 2, 0], [2, 1, 0]] if "sis_ties" in sc else (SIR_MOVES if kind == "SIR" else SIS_MOVES)),
                    "full": full, "scn": i})
    return out


def main():
    chk = Check("C04", "model_checking")
    EoN = common.import_eon()
    rp = os.environ.get("EON_VERIF_REPLAY")
    scn = [json.load(open(rp))["replay"]["scenario"]] if rp else scenarios(chk.tier, chk.seed)
    _G.update(EoN=EoN, scn=scn)
    recs = pool_map(_record, range(len(scn)))
    traces = []
    for i, rr in enumerate(recs):
        for r in rr:
            if "error" in r:
                cls = "tmax<=tmin" if (scn[i]["tmax"] is not None and scn[i]["tmax"] <= scn[i]["tmin"]) else _cls(scn[i])
                chk.violation("%s|exception:%s|%s" % (scn[i]["sim"], r["etype"], cls),
                              "%s(return_full_data=%s) raised %s" % (scn[i]["sim"], r["full"], r["error"]),
                              {"scenario": scn[i]})
                continue
            if r["full"] and r["disc"] == 1:
                # generations without any status change leave no trace in the node histories; the
                # per-generation time discipline is checked on the arrays
                r = dict(r)
                r["disc"] = 2
            traces.append(r)
    # full-data traces of discrete-time simulators: validated as generations with gaps allowed
    for r in traces:
        if r["disc"] == 2:
            r["disc"] = 1
            r["gaps"] = 1
        else:
            r["gaps"] = 0
    acc, res, diags = tracecheck.validate("TraceCounts", traces,
                                          invariants=["Conserved", "NonNegative"],
                                          properties=["SIRMonotone", "TimeMonotone"])
    chk.add_tlc("TraceCounts: %d array / history traces" % len(traces), res)
    if res.violation:
        chk.violation("spec|TraceCounts|" + res.violation[:60], "TLC: " + res.violation, {})
    if res.coverage.get("Step", (0, 0))[1] == 0:
        raise common.MachineryFailure("vacuous: no trace row was ever consumed")
    for j, r in enumerate(traces):
        chk.cov["evaluations"] += 1
        if j in acc:
            chk.cov["traces_validated_against_impl"] += 1
            if len(r["rows"]) > 1:
                chk.cov["distinct_nontrivial"] += 1
            continue
        clause, detail = tracecheck.failing_clause(diags.get(j))
        sc = scn[r["scn"]]
        chk.violation("%s|%s|%s" % (r["sim"] + ("(full data)" if r["full"] else "(arrays)"), clause, _cls(sc)),
                      "trace rejected by TraceCounts: %s; rows %r" % (detail, r["rows"][:6]),
                      {"scenario": sc, "trace": r})
    if traces:
        chk.sample(traces[len(traces) // 3])
        chk.sample(traces[2 * len(traces) // 3])
    rule = ("trace = the (t,S,I[,R]) arrays (or the per-change rows derived from the full-data histories) of one seeded run of one simulator on one scenario "
            "(graph incl. isolated nodes and 1-2 node graphs, rates incl. 0, tmin/tmax incl. negative tmin and runs cut by tmax, initial sets incl. initially recovered, weights on/off); "
            "validated by TLC against the count-level model: first row at tmin with counts summing to N, one legal move per row in continuous time / one generation per row in discrete time, "
            "times ordered and before tmax, unbounded SIR runs with positive recovery end with I=0; non-trivial = more than the initial row")
    return chk.finish(rule, exhaustive=False)


def _cls(sc):
    c = []
    if "initial_recovereds" in sc["init_kw"]:
        c.append("initial-recovereds")
    if sc["tau"] == 0 or sc["gamma"] == 0:
        c.append("zero-rate")
    if sc["tmax"] is not None:
        c.append("finite-tmax")
    if sc.get("tiny"):
        c.append("tiny-weights")
    if sc.get("long"):
        c.append("long-run")
    return "+".join(c) or "plain"


if __name__ == "__main__":
    common.run_main(main)

"""C17 - Percolation-based probability/size estimators compute what they document.

specs/Percolation.tla is model-checked by TLC on complete scenario families (every
digraph on <= 4 nodes, every bond-percolation outcome of every graph on <= 4 nodes,
every transmission table / duration-delay assignment on small contact networks) and
emits scenario |-> percolated digraph H, set of admissible answers.  The real
functions are then called on every emitted scenario (harness/c17_support.py)."""
import itertools
import json
import os
import random as pyrandom
import time
from concurrent.futures import ThreadPoolExecutor

from harness import common
from harness import c17_support as S
from harness.common import Check, MachineryFailure

P5 = ((0, 1), (1, 4), (1, 2), (3, 4), (1, 1))
P7 = ((0, 1), (1, 8), (1, 4), (1, 2), (3, 4), (7, 8), (1, 1))
INF3 = 3   # TIMING families enumerate ticks {1, 2, INF}


# ----------------------------------------------------------------------------
# scenario generation for the sampled (thorough) families and for replays
# ----------------------------------------------------------------------------
def pairs(n):
    return [(u, v) for u in range(1, n + 1) for v in range(u + 1, n + 1)]


def rand_graph(rng, n, dens):
    g = [[] for _ in range(n)]
    for u, v in pairs(n):
        if rng.random() < dens:
            g[u - 1].append(v)
            g[v - 1].append(u)
    return [sorted(x) for x in g]


def rand_digraph(rng, n, dens, loops):
    return [sorted(v for v in range(1, n + 1) if (v != u or loops) and rng.random() < dens)
            for u in range(1, n + 1)]


def dedupe(scs):
    seen, out = set(), []
    for sc in scs:
        k = S.scenario_key(sc)
        if k not in seen:
            seen.add(k)
            out.append(sc)
    return out


def bond_group(n, g, p):
    e = sorted(tuple(sorted(x)) for x in S.und_edges(g))
    out = []
    for r in range(len(e) + 1):
        for sub in itertools.combinations(e, r):
            kept = [[] for _ in range(n)]
            for u, v in sub:
                kept[u - 1].append(v)
                kept[v - 1].append(u)
            out.append({"kind": "BOND", "n": n, "src": {"g": g, "kept": [sorted(x) for x in kept], "p": list(p)}})
    return out


def timing_refs(n, g, inf):
    """the four TIMING scenarios on g whose values are ordered like the probe's"""
    out = {}
    for tp in (True, False):
        for gp in (True, False):
            out[(tp, gp)] = {"kind": "TIMING", "n": n, "inf": inf,
                             "src": {"g": g, "dur": [2 if gp else inf] * n,
                                     "delay": sorted([u, v, 1 if tp else inf] for (u, v) in S.dir_edges(g))}}
    return out


def rand_contact_digraph(rng, n, dens):
    return rand_digraph(rng, n, dens, False)


def directed_samples(seed, n, cnt_rule, cnt_typed, cnt_timing, inf=5):
    """seeded DRULE / DTYPED / DTIMING scenarios on a DIRECTED contact network with n nodes"""
    rng = pyrandom.Random(1000003 * seed + 1709 + n)
    dens = (0.25, 0.5, 0.75, 1.0)
    rule, typed, timing = [], [], []
    for i in range(cnt_rule):
        g = rand_contact_digraph(rng, n, rng.choice(dens))
        rule.append({"kind": "DRULE", "n": n, "src": {"g": g, "t": sorted([u, v, rng.random() < 0.6] for (u, v) in S.dir_edges(g))}})
    ty = (1, 2)
    for i in range(cnt_typed):
        g = rand_contact_digraph(rng, n, rng.choice(dens))
        typed.append({"kind": "DTYPED", "n": n, "src": {"g": g, "xi": [rng.choice(ty) for _ in range(n)],
                                                        "zeta": [rng.choice(ty) for _ in range(n)],
                                                        "tab": sorted([a, b, rng.random() < 0.6] for a in ty for b in ty)}})
    vals = (1, 2, 3, inf)
    for i in range(cnt_timing):
        g = rand_contact_digraph(rng, n, rng.choice(dens))
        timing.append({"kind": "DTIMING", "n": n, "inf": inf,
                       "src": {"g": g, "dur": [rng.choice(vals) for _ in range(n)],
                               "delay": sorted([u, v, rng.choice(vals)] for (u, v) in S.dir_edges(g))}})
    jobs = []
    for nm, scs in (("DRULE", rule), ("DTYPED", typed), ("DTIMING", timing)):
        if scs:
            jobs.append(("%s sampled directed contact networks N=%d" % (nm, n), "GIVEN",
                         {"n": n, "inf": inf, "given": dedupe(scs), "workers": 4}))
    return jobs


def sampled_jobs(seed):
    rng = pyrandom.Random(1000003 * seed + 17)
    jobs = directed_samples(seed, 4, 20000, 20000, 20000) + directed_samples(seed, 5, 8000, 0, 8000)
    for n, cnt in ((5, 30000), (6, 8000)):
        scs = []
        for i in range(cnt):
            scs.append({"kind": "DG", "n": n, "src": {"adj": rand_digraph(rng, n, rng.choice((0.1, 0.2, 0.35, 0.5)), i % 5 == 0)}})
        # several equally large components, built on purpose: disjoint directed cycles joined by one-way edges
        for i in range(2000):
            adj = [[] for _ in range(n)]
            k = rng.choice((2, 3)) if n == 6 else 2
            blocks = [list(range(b * k + 1, b * k + k + 1)) for b in range(n // k)]
            for b in blocks:
                for j, u in enumerate(b):
                    adj[u - 1].append(b[(j + 1) % k])
            for _ in range(rng.randrange(0, 4)):
                a, b = rng.sample(range(len(blocks)), 2) if len(blocks) > 1 else (0, 0)
                if a < b:
                    adj[rng.choice(blocks[a]) - 1].append(rng.choice(blocks[b]))
            for u in range(n // k * k + 1, n + 1):
                if rng.random() < 0.5:
                    adj[u - 1].append(rng.randrange(1, n))
            scs.append({"kind": "DG", "n": n, "src": {"adj": [sorted(set(x)) for x in adj]}})
        jobs.append(("DG sampled N=%d" % n, "GIVEN", {"n": n, "given": dedupe(scs), "workers": 8}))
    scs = []
    for i in range(40):
        g = rand_graph(rng, 5, 0.5)
        while len(S.und_edges(g)) > 7:
            g = rand_graph(rng, 5, 0.5)
        for p in ((1, 4), (1, 2)):
            scs += bond_group(5, g, p)
    jobs.append(("BOND sampled N=5", "GIVEN", {"n": 5, "given": dedupe(scs), "workers": 8}))
    scs = []
    for i in range(20000):
        n = 5
        g = rand_graph(rng, n, rng.choice((0.3, 0.6, 0.9)))
        scs.append({"kind": "RULE", "n": n, "src": {"g": g, "t": sorted([u, v, rng.random() < 0.5] for (u, v) in S.dir_edges(g))}})
    jobs.append(("RULE sampled N=5", "GIVEN", {"n": 5, "given": dedupe(scs), "workers": 8}))
    scs = []
    for i in range(20000):
        n = 4
        g = rand_graph(rng, n, rng.choice((0.5, 0.8, 1.0)))
        ty = (1, 2, 3)
        scs.append({"kind": "TYPED", "n": n, "src": {"g": g, "xi": [rng.choice(ty) for _ in range(n)],
                                                     "zeta": [rng.choice(ty) for _ in range(n)],
                                                     "tab": sorted([a, b, rng.random() < 0.5] for a in ty for b in ty)}})
    jobs.append(("TYPED sampled N=4, 3 types", "GIVEN", {"n": 4, "given": dedupe(scs), "workers": 8}))
    for n, cnt in ((4, 30000), (5, 10000)):
        scs = []
        inf = 5
        for i in range(cnt):
            g = rand_graph(rng, n, rng.choice((0.4, 0.7, 1.0)))
            fam = i % 4
            dv = (1, 2, 3, 4) if fam in (0, 1) else ((inf,) if fam == 2 else (1, 2, 3, 4, inf))
            lv = (1, 2, 3, 4) if fam in (0, 2) else ((inf,) if fam == 1 and i % 8 == 1 else (1, 2, 3, 4, inf))
            scs.append({"kind": "TIMING", "n": n, "inf": inf,
                        "src": {"g": g, "dur": [rng.choice(dv) for _ in range(n)],
                                "delay": sorted([u, v, rng.choice(lv)] for (u, v) in S.dir_edges(g))}})
            scs += timing_refs(n, g, inf).values()
        jobs.append(("TIMING sampled N=%d" % n, "GIVEN", {"n": n, "inf": inf, "given": dedupe(scs), "workers": 8}))
    return jobs


def plan(tier, seed):
    jobs = [
        ("DG all digraphs N=1", "DG", {"n": 1, "loops": True, "walk": True, "workers": 1}),
        ("DG all digraphs with self-loops N=2", "DG", {"n": 2, "loops": True, "walk": True, "workers": 1}),
        ("DG all digraphs with self-loops N=3", "DG", {"n": 3, "loops": True, "walk": True, "workers": 2}),
        ("DG all digraphs N=4", "DG", {"n": 4, "workers": 4}),
        ("BOND all graphs x outcomes N=4", "BOND", {"n": 4, "probs": P7 if tier == "thorough" else P5, "workers": 4}),
        ("RULE all graphs x tables N=4", "RULE", {"n": 4, "workers": 4}),
        ("TYPED all graphs x types x tables N=3", "TYPED", {"n": 3, "types": (1, 2), "workers": 4}),
        ("TIMING all graphs x durations x delays N=3", "TIMING", {"n": 3, "vals": (1, 2, INF3), "inf": INF3, "workers": 4}),
    ]
    # DIRECTED contact networks (G.neighbors = successors): every arc set on 3 nodes, a seeded sample on 4
    jobs += [
        ("DRULE all digraphs x tables N=3", "DRULE", {"n": 3, "workers": 2}),
        ("DTIMING all digraphs x durations x delays N=3", "DTIMING", {"n": 3, "vals": (1, 2), "inf": INF3, "workers": 4}),
    ]
    if tier == "quick":
        jobs += [("DTYPED all digraphs x types x tables N=2", "DTYPED", {"n": 2, "types": (1, 2), "walk": True, "workers": 1})]
        jobs += directed_samples(seed, 4, 1500, 0, 0)
    if tier == "thorough":
        jobs += [
            ("DTYPED all digraphs x types x tables N=2, 3 types", "DTYPED", {"n": 2, "types": (1, 2, 3), "walk": True, "workers": 4}),
            ("DTYPED all digraphs x types x tables N=3", "DTYPED", {"n": 3, "types": (1, 2), "workers": 6}),
            ("DTIMING all digraphs x durations x delays N=2", "DTIMING", {"n": 2, "vals": (1, 2, 3, 4), "inf": 4, "walk": True, "workers": 1}),
            ("BOND all graphs x outcomes N=2", "BOND", {"n": 2, "probs": P7, "walk": True, "workers": 1}),
            ("BOND all graphs x outcomes N=3", "BOND", {"n": 3, "probs": P7, "walk": True, "workers": 1}),
            ("RULE all graphs x tables N=2", "RULE", {"n": 2, "walk": True, "workers": 1}),
            ("RULE all graphs x tables N=3", "RULE", {"n": 3, "walk": True, "workers": 1}),
            ("TYPED all graphs x types x tables N=2, 3 types", "TYPED", {"n": 2, "types": (1, 2, 3), "walk": True, "workers": 4}),
            ("TIMING all graphs x durations x delays N=2", "TIMING", {"n": 2, "vals": (1, 2, 3, 4), "inf": 4, "walk": True, "workers": 1}),
        ]
    if tier == "thorough":
        jobs += sampled_jobs(seed)
    return jobs


def run_jobs(jobs, par):
    def one(job):
        name, fam, kw = job
        t0 = time.time()
        recs, res = S.run_family(fam, **kw)
        print("  TLC %-46s %7d scenarios, %7d states, %5.1fs" % (name, len(recs), res.distinct, time.time() - t0), flush=True)
        return recs, res
    # the expensive families first (the cost grows with the number of scenarios), results in plan order
    order = sorted(range(len(jobs)), key=lambda i: -_cost(jobs[i]))
    out = [None] * len(jobs)
    with ThreadPoolExecutor(max_workers=par) as ex:
        for i, r in zip(order, ex.map(one, [jobs[i] for i in order])):
            out[i] = r
    return out


def _cost(job):
    """approximate number of scenarios of a job (the TLC cost grows with it)"""
    name, fam, kw = job
    if fam == "GIVEN":
        return len(kw["given"])
    n = kw["n"]
    up, dp = n * (n - 1) // 2, n * (n - 1)
    v, t = len(kw.get("vals", (1, 2))), len(kw.get("types", (1, 2)))
    return {"DG": 2 ** (dp + (n if kw.get("loops") else 0)), "BOND": 3 ** up * len(kw.get("probs", (1,))),
            "RULE": 5 ** up, "TYPED": 2 ** up * t ** (2 * n) * 2 ** (t * t), "TIMING": v ** n * (1 + v * v) ** up,
            "DRULE": 3 ** dp, "DTYPED": 2 ** dp * t ** (2 * n) * 2 ** (t * t), "DTIMING": v ** n * (1 + v) ** dp}[fam]


# ----------------------------------------------------------------------------
# binding one family to the code
# ----------------------------------------------------------------------------
def absorb(chk, part, result, total):
    out, done = result
    if done < total:
        chk.note("%s: stopped after %d of %d work items because enough failing ones were collected" % (part, done, total))
    chk.cov["evaluations"] += out.evals
    chk.cov["traces_validated_against_impl"] += out.bound
    chk.part(part, items=done, calls=out.evals, compared=out.bound)
    for nt in out.notes:
        chk.note(nt)
    for p in out.problems:
        chk.violation(p["key"], p["what"], p["replay"])


def bind(chk, name, recs, stats):
    kinds = set(r["kind"] for r in recs)
    for r in recs:
        e = sum(len(x) for x in r["adj"])
        stats["scenarios"] += 1
        stats["no_edges"] += e == 0
        stats["ties"] += r["nlargest"] > 1
        stats["several_answers"] += len(r["adm"]) > 1
        if e > 0:
            chk.cov["distinct_nontrivial"] += 1
    if "DG" in kinds:
        items = [r for r in recs if r["kind"] == "DG"]
        absorb(chk, name, S.fork_map(S.check_dg, items), len(items))
    if "BOND" in kinds:
        groups = {}
        for r in recs:
            if r["kind"] == "BOND":
                groups.setdefault(repr((r["src"]["g"], r["src"]["p"])), []).append(r)
        for grp in groups.values():
            m = len(S.und_edges(grp[0]["src"]["g"]))
            if len(grp) != 2 ** m:
                raise MachineryFailure("BOND group with %d outcomes for %d edges" % (len(grp), m))
        items = list(groups.values())
        absorb(chk, name, S.fork_map(S.check_bond, items), len(items))
    if kinds & {"RULE", "TYPED", "DRULE", "DTYPED"}:
        items = [r for r in recs if r["kind"] in ("RULE", "TYPED", "DRULE", "DTYPED")]
        stats["directed_contact"] += sum(1 for r in items if r["kind"] in S.BASE and S.dir_edges(r["src"]["g"]) != set((v, u) for u, v in S.dir_edges(r["src"]["g"])))
        absorb(chk, name, S.fork_map(S.check_rule, items), len(items))
    if "DTIMING" in kinds:
        items = [r for r in recs if r["kind"] == "DTIMING"]
        absorb(chk, name, S.fork_map(S.check_timing, items), len(items))
    if "TIMING" in kinds:
        items = [r for r in recs if r["kind"] == "TIMING"]
        absorb(chk, name, S.fork_map(S.check_timing, items), len(items))
        by = {S.scenario_key(r): r for r in items}
        ditems = []
        for r in items:
            if S.realisable(r):
                refs = {}
                for fl, sc in timing_refs(r["n"], r["src"]["g"], r["inf"]).items():
                    k = S.scenario_key(sc)
                    if k not in by:
                        raise MachineryFailure("reference TIMING scenario missing from TLC's output: %r" % (sc,))
                    refs[fl] = by[k]
                ditems.append((r, refs))
        stats["dperc"] += len(ditems)
        absorb(chk, name + " [Markovian draws]", S.fork_map(S.check_dperc, ditems), len(ditems))
    mid = recs[len(recs) // 2]
    chk.sample({"family": name, "scenario": mid["src"], "spec_H_successors": mid["adj"],
                "spec_admissible_(|In|,|Out|)": mid["adm"], "weight": mid["weight"]}, cap=16)


# ----------------------------------------------------------------------------
def replay(chk, path):
    with open(path) as fh:
        rp = json.load(fh)["replay"]
    sc = rp["scenario"]
    n = sc["n"]
    given = [sc]
    if sc["kind"] == "BOND":
        given = bond_group(n, sc["src"]["g"], sc["src"]["p"])
    if sc["kind"] == "TIMING":
        given = dedupe(given + list(timing_refs(n, sc["src"]["g"], sc["inf"]).values()))
    recs, res = S.run_family("GIVEN", n=n, inf=sc.get("inf", INF3), given=given, workers=1)
    chk.add_tlc("replay " + sc["kind"], res)
    print("replaying %s scenario %r" % (sc["kind"], sc["src"]))
    for r in recs:
        if S.scenario_key(r) == S.scenario_key(sc):
            print("  specification: H = %r, admissible (|In|,|Out|) = %r" % (r["adj"], r["adm"]))
    stats = {"scenarios": 0, "no_edges": 0, "ties": 0, "several_answers": 0, "dperc": 0, "directed_contact": 0}
    if sc["kind"] == "TIMING":
        # only the replayed scenario is bound (the references serve the probe)
        by = {S.scenario_key(r): r for r in recs}
        me = by[S.scenario_key(sc)]
        absorb(chk, "replay", (S.check_timing(me), 1), 1)
        if S.realisable(me):
            refs = {fl: by[S.scenario_key(x)] for fl, x in timing_refs(n, sc["src"]["g"], sc["inf"]).items()}
            absorb(chk, "replay", (S.check_dperc((me, refs)), 1), 1)
        chk.sample({"replayed": sc})
    else:
        bind(chk, "replay", recs, stats)
    return chk.finish("replay of one recorded scenario (%s)" % path, exhaustive=False)


def main(argv=None):
    chk = Check("C17", "model_checking")
    common.import_eon()
    rp = os.environ.get("EON_VERIF_REPLAY")
    if rp:
        # a replay is a diagnosis, not a run of the check: keep the evidence of the last full run
        evp = os.path.join(common.VERIF, "evidence", "C17.json")
        old = open(evp, "rb").read() if os.path.exists(evp) else None
        try:
            return replay(chk, rp)
        finally:
            if old is not None:
                with open(evp, "wb") as fh:
                    fh.write(old)
    jobs = plan(chk.tier, chk.seed)
    results = run_jobs(jobs, par=6 if chk.tier == "quick" else 4)
    stats = {"scenarios": 0, "no_edges": 0, "ties": 0, "several_answers": 0, "dperc": 0, "directed_contact": 0}
    for (name, fam, kw), (recs, res) in zip(jobs, results):
        chk.add_tlc("Percolation %s" % name, res)
        t0 = time.time()
        bind(chk, name, recs, stats)
        print("  bound %-45s %7d scenarios, %5.1fs" % (name, len(recs), time.time() - t0), flush=True)
    chk.part("scenario classes", **stats)
    for k in ("no_edges", "ties", "several_answers", "dperc", "directed_contact"):
        if stats[k] == 0:
            raise MachineryFailure("vacuous run: no scenario of class %s" % k)
    chk.assumptions += [
        "networkx iteration APIs (nodes(), edges(), H.nodes[u], H.edges[u,v]) report the returned graphs faithfully",
        "directed_percolate_network / estimate_directed_SIR_prob_size: the owner of each expovariate draw is learnt from a probe run "
        "(distinct values, read back from the documented attributes 'duration' / 'delay_to_infection'); the draw order is assumed not to "
        "depend on the drawn values, and a differing rate sequence is reported as a NOTE (not judged)",
        "durations / delays are multiples of 0.5 (ticks) or Inf, keep probabilities are dyadic: every float compared is exact",
    ]
    rule = ("every scenario emitted by TLC from specs/Percolation.tla is bound to the real code: all digraphs on <=4 nodes (with self-loops for <=3) "
            "-> estimate_SIR_prob_size_from_dir_perc under 6 label/insertion-order variants; all (graph, bond-percolation outcome, p) on <=4 nodes -> "
            "complete decision trees of percolate_network / estimate_SIR_prob_size under the scripted random source; all (graph, transmission table) "
            "on <=4 nodes and all (graph, xi/zeta types, type table) on 3 nodes -> nonMarkov_directed_percolate_network / estimate_nonMarkov_SIR_prob_size "
            "with recording callbacks, the same on DIRECTED contact networks (nx.DiGraph; every arc set on 3 nodes x tables, and x durations/delays in "
            "{1,2} ticks; seeded sample of 4-node digraphs x tables; types on 2 nodes); all (graph, durations, delays in {1,2,Inf} ticks) on <=3 nodes -> the _with_timing variants, and the Markovian-"
            "realisable ones -> directed_percolate_network / estimate_directed_SIR_prob_size with scripted expovariate values"
            + ("; thorough adds seeded samples (GIVEN scenarios evaluated by TLC) of 5- and 6-node digraphs, 5-node bond/rule and 4/5-node typed/timing scenarios" if chk.tier == "thorough" else "")
            + ". evaluations = calls of the real functions; traces_validated = returned answers/graphs compared with a TLC record; "
            "distinct non-trivial = distinct TLC scenarios whose percolated digraph has at least one edge")
    return chk.finish(rule, exhaustive=True)


if __name__ == "__main__":
    common.run_main(main)

#!/bin/sh
# Offline set-up: nothing to build; verify the tools the checks need are present.
set -e
cd "$(dirname "$0")"
test -f /opt/veriftools/tla/tla2tools.jar
/venv/bin/python -c "import networkx, numpy, scipy; print('python ok')"
java -version 2>&1 | head -1
mkdir -p evidence replays
echo setup ok

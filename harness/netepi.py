"""Loading the rate-labelled state graph of specs/NetEpi.tla out of TLC and
turning a (w, g) valuation of the specification into a networkx graph."""
from . import tlc
from .common import RATE_UNIT


def pair_list(n):
    return [(u, v) for u in range(1, n + 1) for v in range(u + 1, n + 1)]


class SpecGraph(object):
    """key (w, g, tau, gam) -> {st: [(kind, u, v, rate_num, st2), ...]} exactly as
    emitted by TLC.  States without outgoing transitions are the terminal ones."""

    def __init__(self, n):
        self.n = n
        self.trans = {}
        self.ntrans = 0

    def succ(self, key, st):
        return self.trans.get(key, {}).get(st, [])


def netepi_constants(n, ew, nw, taus, gams, sis):
    return {"N": n, "EW": set(ew), "NW": set(nw), "TauSet": set(taus), "GamSet": set(gams), "SIS": bool(sis)}


INVARIANTS = ["TypeOK", "Conserved", "DeadlockIffZeroRate", "ExtinctAtEnd"]
PROPERTIES = ["OneLegalMove", "Monotone", "ParamsFrozen", "Caused"]


def model_check(consts, workers=16, timeout=3600):
    cfg = tlc.cfg_text(consts, invariants=INVARIANTS, properties=PROPERTIES, view="View")
    return tlc.run_tlc("NetEpi", cfg, workers=workers, timeout=timeout, coverage=True)


def emit_graph(consts, timeout=3600):
    """One TLC run (single worker, so printed records do not interleave) that emits
    every transition of the specification for the given constants."""
    cfg = tlc.cfg_text(consts, view="View", action_constraints=["Emit"])
    res = tlc.run_tlc("NetEpi", cfg, workers=1, timeout=timeout)
    sg = SpecGraph(consts["N"])
    for rec in res.printed("E"):
        _, w, g, tau, gam, st, st2, ev = rec
        key = (tuple(w), tuple(g), tau, gam)
        d = sg.trans.setdefault(key, {})
        d.setdefault(tuple(st), []).append((ev[0], ev[1], ev[2], ev[3], tuple(st2)))
        sg.ntrans += 1
    if sg.ntrans != res.generated - _ninit(res):
        # every generated non-initial state is one emitted transition
        raise tlc.TLCError("emitted %d transitions but TLC generated %d successor states"
                           % (sg.ntrans, res.generated - _ninit(res)))
    return sg, res


def _ninit(res):
    import re
    m = re.search(r"Finished computing initial states: (\d+) distinct state", res.stdout)
    return int(m.group(1)) if m else 0


def build_graph(n, w, g, weighted=True, order=None, labels=None):
    """networkx graph realising the spec valuation.  Edge attribute 'w', node
    attribute 'g' (real weights = spec integers)."""
    import networkx as nx
    G = nx.Graph()
    lab = (lambda u: u) if labels is None else (lambda u: labels[u])
    nodes = list(range(1, n + 1)) if order is None else list(order)
    for u in nodes:
        G.add_node(lab(u), g=float(g[u - 1]))
    for (u, v), wt in zip(pair_list(n), w):
        if wt > 0:
            G.add_edge(lab(u), lab(v), w=float(wt))
    return G

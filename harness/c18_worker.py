"""Runs every C18 scenario in THIS interpreter (whose PYTHONHASHSEED the caller chose)
and prints one JSON line {scenario id: {mode: fingerprint}}.  Also used in-process."""
import hashlib
import json
import os
import sys

sys.path.insert(0, os.path.dirname(os.path.dirname(os.path.abspath(__file__))))
from harness import common  # noqa: E402  (sets sys.path for /repo)


def names(n):
    return ["person-%s" % "abcdefghijklmnop"[i] for i in range(n)]


def scenario_list(tier, seed):
    from harness import simruns
    fam = [(n, e) for (n, e) in simruns.graph_family(seed, 6 if tier == "quick" else 30, max_n=9) if n >= 3]
    out = []
    sid = 0
    for gi, (n, edges) in enumerate(fam):
        for sim in simruns.ALL + ["simple_contagion_tuple_statuses", "simple_contagion_many_statuses", "simple_contagion_directed",
                                  "fast_SIR+R0", "Gillespie_SIR+R0", "fast_nonMarkov_SIR+R0", "discrete_SIR+R0",
                                  "fast_SIR+R0default", "fast_nonMarkov_SIR+R0default", "Gillespie_SIR+R0default"]:
            if "+R0" in sim and n < 5:
                continue
            for s in ((11, 12) if tier == "quick" else (11, 12, 13, 14)):
                out.append({"id": sid, "sim": sim, "n": n, "edges": edges, "seed": s * 7 + gi, "weighted": (s % 2 == 0)})
                sid += 1
    # fixed latencies: many events at exactly the same instant (the order among them must not depend on hashing)
    for gi, (n, edges) in enumerate(fam[:4]):
        for s in (41, 42):
            out.append({"id": sid, "sim": "nonMarkov_fixed_delays_SIS" if s % 2 else "nonMarkov_fixed_delays_SIR", "n": n, "edges": edges,
                        "seed": s + gi, "weighted": False})
            sid += 1
    # very uneven weights: the weighted sampler needs thousands of proposals per selection
    for s in (21, 22):
        out.append({"id": sid, "sim": "Gillespie_SIS_skewed_weights", "n": 0, "edges": [], "seed": s, "weighted": True})
        sid += 1
    # the same call after the caller edited a weight of the SAME graph object in place must equal the call on a fresh graph
    for gi, (n, edges) in enumerate(fam[:3]):
        out.append({"id": sid, "sim": "simple_contagion_weight_edited_in_place", "n": n, "edges": edges, "seed": 31 + gi, "weighted": True})
        sid += 1
    return out


def fp(obj):
    return hashlib.sha256(repr(obj).encode()).hexdigest()[:24]


# scenarios whose measured call is also made on the argument objects of an earlier call (graph, model graphs, IC dict, initial lists)
REUSE = ("simple_contagion_tuple_statuses", "simple_contagion_many_statuses", "simple_contagion_directed", "Gillespie_SIR", "Gillespie_SIS",
         "fast_SIR", "fast_SIS", "Gillespie_SIR+R0", "fast_SIR+R0", "fast_nonMarkov_SIR", "basic_discrete_SIR", "discrete_SIR")


def run_one(EoN, sc, full):
    """returns a canonical, hash-order-free projection of the output"""
    import networkx as nx
    import random
    import numpy as np
    from harness import simruns
    n = sc["n"]
    nm = names(n)
    G = nx.Graph()
    for i in range(n):
        G.add_node(nm[i], g=1.0 + (i % 3) * 0.5)
    for k, (u, v) in enumerate(sc["edges"]):
        G.add_edge(nm[u - 1], nm[v - 1], w=0.5 + (k % 4) * 0.5)
    sim = sc["sim"]
    random.seed(sc["seed"])
    np.random.seed(sc["seed"])

    def twice(fn):
        """the measured call; with sc["reuse"] an earlier call (another seed) has already been made on the very same argument objects"""
        if sc.get("reuse"):
            random.seed(sc["seed"] + 1000)
            np.random.seed(sc["seed"] + 1000)
            if sc.get("weighted"):
                # ... and at that time the graph object carried other weights (the caller has edited them in place since)
                common.prime_other_weights(G, lambda g_: fn())
            else:
                fn()
            random.seed(sc["seed"])
            np.random.seed(sc["seed"])
        return fn()
    if sim.startswith("nonMarkov_fixed_delays"):
        if sim.endswith("SIS"):
            r = EoN.fast_nonMarkov_SIS(G, trans_time_fxn=lambda u, v, rd: [0.5, 1.0, 2.0], rec_time_fxn=lambda u: 1.25,
                                       initial_infecteds=[nm[0], nm[-1]], tmax=5, return_full_data=full)
            sts_ = ["S", "I"]
        else:
            r = EoN.fast_nonMarkov_SIR(G, trans_time_fxn=lambda u, v: 0.5, rec_time_fxn=lambda u: 1.0,
                                       initial_infecteds=[nm[0], nm[-1]], return_full_data=full)
            sts_ = ["S", "I", "R"]
        if not full:
            return {"arrays": [tuple(float(x) for x in a) for a in r]}
        hist = tuple((u, tuple(float(t) for t in r.node_history(u)[0]), tuple(r.node_history(u)[1])) for u in nm)
        summ = r.summary()
        tr = tuple((float(t), repr(a), repr(b)) for (t, a, b) in r.transmissions())      # who infected whom, in the order reported
        return {"full": (hist, tr), "arrays": [tuple(float(x) for x in summ[0])] + [tuple(float(x) for x in summ[1][s_]) for s_ in sts_]}
    if sim == "Gillespie_SIS_skewed_weights":
        nm = ["hub"] + ["leaf-%03d" % i for i in range(500)]
        G = nx.Graph()
        G.add_node("hub", g=1.0e6)
        for x in nm[1:]:
            G.add_node(x, g=1.0)
            G.add_edge("hub", x, w=1.0)
        r = EoN.Gillespie_SIS(G, 0.2, 1.0, initial_infecteds=list(nm), recovery_weight="g", transmission_weight="w", tmax=0.3, return_full_data=full)
        if not full:
            return {"arrays": [tuple(float(x) for x in a) for a in r]}
        hist = tuple((u, tuple(float(t) for t in r.node_history(u)[0]), tuple(r.node_history(u)[1])) for u in nm[:40])
        return {"full": (hist, ()), "arrays": [tuple(float(x) for x in r.t()), tuple(float(x) for x in r.I())]}
    if sim == "simple_contagion_weight_edited_in_place":
        def model_and_run(Gx):
            H = nx.DiGraph()
            H.add_edge("Inf", "Rec", rate=1.0, weight_label="g")
            J = nx.DiGraph()
            J.add_edge(("Inf", "Sus"), ("Inf", "Inf"), rate=1.5, weight_label="w")
            IC = {u: "Sus" for u in Gx}
            IC[nm[0]] = "Inf"
            IC[nm[-1]] = "Inf"
            random.seed(sc["seed"])
            return EoN.Gillespie_simple_contagion(Gx, H, J, IC, ["Sus", "Inf", "Rec"], tmax=6, return_full_data=full)
        model_and_run(G)                      # an earlier simulation on this graph object
        for k, (u, v) in enumerate(G.edges()):
            G[u][v]["w"] = 3.0 - G[u][v]["w"] * 0.5        # the caller edits the weights in place
        for i, u in enumerate(G.nodes()):
            G.nodes[u]["g"] = 0.25 + 0.5 * ((i + 1) % 3)
        r = model_and_run(G)
        kind_sts = ["Sus", "Inf", "Rec"]
        if not full:
            return {"arrays": [tuple(float(x) for x in a) for a in r]}
        hist = tuple((u, tuple(float(t) for t in r.node_history(u)[0]), tuple(r.node_history(u)[1])) for u in nm)
        return {"full": (hist, ()), "arrays": [tuple(float(x) for x in r.t())]}
    if sim == "simple_contagion_weight_edited_in_place:fresh":
        G2 = nx.Graph()
        for i, u in enumerate(G.nodes()):
            G2.add_node(u, g=0.25 + 0.5 * ((i + 1) % 3))
        for k, (u, v) in enumerate(G.edges()):
            G2.add_edge(u, v, w=3.0 - G[u][v]["w"] * 0.5)
        H = nx.DiGraph()
        H.add_edge("Inf", "Rec", rate=1.0, weight_label="g")
        J = nx.DiGraph()
        J.add_edge(("Inf", "Sus"), ("Inf", "Inf"), rate=1.5, weight_label="w")
        IC = {u: "Sus" for u in G2}
        IC[nm[0]] = "Inf"
        IC[nm[-1]] = "Inf"
        random.seed(sc["seed"])
        r = EoN.Gillespie_simple_contagion(G2, H, J, IC, ["Sus", "Inf", "Rec"], tmax=6, return_full_data=full)
        if not full:
            return {"arrays": [tuple(float(x) for x in a) for a in r]}
        hist = tuple((u, tuple(float(t) for t in r.node_history(u)[0]), tuple(r.node_history(u)[1])) for u in nm)
        return {"full": (hist, ()), "arrays": [tuple(float(x) for x in r.t())]}
    if sim == "simple_contagion_directed":
        D = nx.DiGraph()
        D.add_nodes_from(nm)
        for k, (u, v) in enumerate(sc["edges"]):
            D.add_edge(nm[u - 1], nm[v - 1])
            if k % 2 == 0:
                D.add_edge(nm[v - 1], nm[u - 1])
            if k % 3 == 0 and nm[(u + 1) % n] != nm[v - 1]:     # no self-loops
                D.add_edge(nm[(u + 1) % n], nm[v - 1])
        H = nx.DiGraph()
        H.add_edge("Infected", "Recovered", rate=1.0)
        H.add_edge("Recovered", "Susceptible", rate=1.0)
        J = nx.DiGraph()
        J.add_edge(("Infected", "Susceptible"), ("Infected", "Infected"), rate=2.0)
        IC = {u: "Susceptible" for u in D}
        IC[nm[0]] = "Infected"
        IC[nm[-1]] = "Infected"
        rs = ["Susceptible", "Infected", "Recovered"]
        G = D
        r = twice(lambda: EoN.Gillespie_simple_contagion(D, H, J, IC, rs, tmax=5, return_full_data=full))
        kind_sts = rs
    elif sim == "simple_contagion_many_statuses":
        H = nx.DiGraph()
        for a, b, rt in (("Exposed", "Infectious", 2.0), ("Infectious", "Recovered", 1.0), ("Recovered", "Susceptible", 0.5),
                         ("Susceptible", "Vaccinated", 0.25), ("Vaccinated", "Susceptible", 0.25), ("Infectious", "Hospital", 0.5),
                         ("Hospital", "Recovered", 1.0)):
            H.add_edge(a, b, rate=rt)
        J = nx.DiGraph()
        J.add_edge(("Infectious", "Susceptible"), ("Infectious", "Exposed"), rate=2.0)
        J.add_edge(("Hospital", "Susceptible"), ("Hospital", "Exposed"), rate=0.5)
        J.add_edge(("Infectious", "Vaccinated"), ("Infectious", "Exposed"), rate=0.25)
        IC = {u: "Susceptible" for u in G}
        IC[nm[0]] = "Infectious"
        IC[nm[-1]] = "Exposed"
        rs = ["Susceptible", "Exposed", "Infectious", "Hospital", "Recovered", "Vaccinated"]
        r = twice(lambda: EoN.Gillespie_simple_contagion(G, H, J, IC, rs, tmax=4, return_full_data=full))
        kind_sts = rs
    elif sim == "simple_contagion_tuple_statuses":
        H = nx.DiGraph()
        H.add_edge(("inf", 1), ("rec", 2), rate=1.0)
        H.add_edge(("rec", 2), ("sus", 0), rate=0.5)
        J = nx.DiGraph()
        J.add_edge((("inf", 1), ("sus", 0)), (("inf", 1), ("inf", 1)), rate=2.0)
        IC = {u: ("sus", 0) for u in G}
        IC[nm[0]] = ("inf", 1)
        IC[nm[-1]] = ("inf", 1)
        rs = [("sus", 0), ("inf", 1), ("rec", 2)]
        r = twice(lambda: EoN.Gillespie_simple_contagion(G, H, J, IC, rs, tmax=4, return_full_data=full))
        kind_sts = rs
    else:
        ikw = {"initial_infecteds": [nm[0], nm[-1]]}
        if sim.endswith("+R0"):
            sim = sim[:-3]
            ikw = {"initial_infecteds": [nm[0], nm[2], nm[-1]], "initial_recovereds": [nm[1], nm[3]]}
        if sim.endswith("+R0default"):
            sim = sim[:-len("+R0default")]
            ikw = {"initial_recovereds": [nm[1], nm[3]]}      # the index case is left to the simulator
        kind = simruns.kind_of(sim)
        call = {"tau": 1.5, "gamma": 1.0, "p": 0.6, "tmin": 0, "tmax": (None if kind == "SIR" else 4),
                "init_kw": ikw, "weighted": sc["weighted"]}
        r = twice(lambda: simruns.call_sim(EoN, sim, G, call, full))
        kind_sts = ["S", "I", "R"] if kind == "SIR" else ["S", "I"]
    if not full:
        arrs = [tuple(float(x) for x in a) for a in r]
        return {"arrays": arrs}
    hist = tuple((u, tuple(float(t) for t in r.node_history(u)[0]), tuple(repr(s) for s in r.node_history(u)[1])) for u in nm)
    try:
        tr = tuple((float(t), repr(a), repr(b)) for (t, a, b) in r.transmissions())
    except Exception as ex:
        tr = ("no-transmissions",)
    summ = r.summary()
    arrs = [tuple(float(x) for x in summ[0])] + [tuple(float(x) for x in summ[1][s]) for s in kind_sts]
    return {"full": (hist, tr), "arrays": arrs}


def abort_one(EoN, sc):
    """an event-driven run that is aborted by an exception half way (a user rule that raises)"""
    import networkx as nx
    import random
    n = sc["n"]
    nm = names(n)
    G = nx.Graph()
    G.add_nodes_from(nm)
    for (u, v) in sc["edges"]:
        G.add_edge(nm[u - 1], nm[v - 1])
    calls = {"n": 0}

    class Stop(Exception):
        pass

    def rec(u, *a):
        calls["n"] += 1
        if calls["n"] >= 2:
            raise Stop()
        return 1.0
    random.seed(5)
    try:
        if sc["sim"] in ("fast_SIS", "fast_nonMarkov_SIS"):
            EoN.fast_nonMarkov_SIS(G, trans_time_fxn=lambda u, v, rd: [0.25], rec_time_fxn=rec, initial_infecteds=[nm[0], nm[-1]], tmax=3)
        else:
            EoN.fast_nonMarkov_SIR(G, trans_time_fxn=lambda u, v: 0.25, rec_time_fxn=rec, initial_infecteds=[nm[0], nm[-1]])
    except Stop:
        pass


def run_all(tier, seed, only=None):
    EoN = common.import_eon()
    import os as _os
    import random as _random
    import numpy as _np
    from harness import simruns
    hidden = []
    orig_urandom = _os.urandom

    def urandom(n):
        hidden.append("os.urandom")
        return orig_urandom(n)
    _os.urandom = urandom
    # generators that seed themselves from the operating system
    orig_rng = _np.random.default_rng

    def default_rng(seed=None, *a, **k):
        if seed is None:
            hidden.append("numpy.random.default_rng() without a seed")
        return orig_rng(seed, *a, **k)
    _np.random.default_rng = default_rng
    orig_sysrandom = _random.SystemRandom

    class _SR(orig_sysrandom):
        def __init__(self, *a, **k):
            hidden.append("random.SystemRandom")
            orig_sysrandom.__init__(self, *a, **k)
    _random.SystemRandom = _SR
    out = {}
    for sc in scenario_list(tier, seed):
        if only is not None and sc["id"] not in only:
            continue
        res = {}
        for mode, full in (("arrays", False), ("full", True)):
            try:
                # any draw from an unseeded generator created during the call would show up as a difference
                # between the two in-process repeats below; direct entropy requests are counted here
                before = len(hidden)
                a = run_one(EoN, sc, full)
                b = run_one(EoN, sc, full)
                res[mode] = fp(a.get("full", a["arrays"]))
                res[mode + ":repeat"] = fp(b.get("full", b["arrays"]))
                if sc["sim"] in ("fast_SIS", "fast_SIR", "fast_nonMarkov_SIR", "fast_nonMarkov_SIS") and mode == "arrays":
                    abort_one(EoN, sc)
                    c = run_one(EoN, sc, full)
                    res[mode + ":after-abort"] = fp(c.get("full", c["arrays"]))
                res[mode + ":arrays"] = fp(a["arrays"])
                if sc["sim"] in REUSE or sc["sim"].split("+")[0] in simruns.ALL:
                    e = run_one(EoN, dict(sc, reuse=True), full)
                    res[mode + ":same-objects"] = fp(e.get("full", e["arrays"]))
                if sc["sim"] == "simple_contagion_weight_edited_in_place":
                    d = run_one(EoN, dict(sc, sim=sc["sim"] + ":fresh"), full)
                    res[mode + ":fresh-graph"] = fp(d.get("full", d["arrays"]))
                if len(hidden) > before:
                    res[mode + ":hidden"] = hidden[before]
            except Exception as ex:
                res[mode] = res[mode + ":repeat"] = res[mode + ":arrays"] = "raised:%s" % type(ex).__name__
        out[sc["id"]] = res
    _os.urandom = orig_urandom
    _np.random.default_rng = orig_rng
    _random.SystemRandom = orig_sysrandom
    return out


if __name__ == "__main__":
    tier, seed = sys.argv[1], int(sys.argv[2])
    print("C18RESULT " + json.dumps(run_all(tier, seed)))

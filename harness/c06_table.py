"""C06 support: the table of ODE entry points of EoN/analytic.py.

For every entry point: the model kind, how it is called for each class of
initial condition, and the RETURN-ORDER STATEMENTS of its own docstring.

A statement is (where, names, evidence): `where` is "R" for the ':Returns:'
block and "A" for the description of the return_full_data argument, `names`
the documented order, `evidence` a piece of the docstring (after removing '*'
and collapsing white space) that must still be present -- verify_docstrings()
checks this against the imported code, so the table cannot silently drift away
from the docstrings it was extracted from.

Policy (DESIGN C06): the documented order is the entry point's own docstring.
The returned tuple must be explained by one of its own statements (same arity,
every series equal at index 0 to the specification's value).  Where no own
statement has the returned arity but a statement of the sibling (the solver a
wrapper delegates to / the wrapper of a solver) does, the code is taken as
right and the discrepancy is a NOTE.  Own statements that contradict each
other are a NOTE.  Anything else is a violation.
"""
import inspect
import re

# series name -> (shape kind, key of the InitCond scenario record)
SERIES = {
    "S": ("scalar", "S"), "I": ("scalar", "I"), "R": ("scalar", "R"),
    "SS": ("scalar", "SS"), "SI": ("scalar", "SI"), "II": ("scalar", "II"),
    "Ss": ("node", "X"), "Is": ("node", "Y"), "Rs": ("node", "Z"),
    "Xs": ("node", "X"), "Ys": ("node", "Y"), "Zs": ("node", "Z"),
    "XY": ("nodepair", "XY"), "XX": ("nodepair", "XX"),
    "Sk": ("deg", "Sk"), "Ik": ("deg", "Ik"), "Rk": ("deg", "Rk"),
    "SkSl": ("degpair", "SkSl"), "SkIl": ("degpair", "SkIl"), "IkIl": ("degpair", "IkIl"),
    "Ssi": ("eff", "Ssi"), "S_si": ("eff", "Ssi"), "Isi": ("eff", "Isi"),
    "Skappa": ("deg", "Skappa"),
    "theta": ("theta", "theta"),
}
MAIN = ("S", "I", "R")          # what the property demands for every initial condition


def _n(s):
    return tuple(x.strip() for x in s.split(","))


T_SI = _n("times, S, I")
T_SIR = _n("times, S, I, R")

# name -> dict(kind, cat, call, full, disc, stmts={False:[...], True:[...]}, sibling)
#   cat  'graph' : takes the contact network (row 0 expected from InitCond for the graph)
#        'base'  : takes initial numbers (fed with InitCond's values; row 0 = the inputs)
#   call         : calling convention (see c06_init.build_call)
#   ics          : classes of initial condition the entry point accepts
E = {}


def _add(name, kind, cat, call, ics, full, plain, fullst=None, sibling=None, disc=False, tmin=True):
    E[name] = {"name": name, "kind": kind, "cat": cat, "call": call, "ics": ics, "full": full,
               "disc": disc, "tmin": tmin, "sibling": sibling,
               "stmts": {False: plain, True: fullst or []}}


SETS = ("explicit",)
SETS_R = ("explicit", "explicit+recovered")
RHO = ("rho",)

# ---- individual based ------------------------------------------------------
_add("SIS_individual_based", "SIS", "graph", "node_rho", RHO, True,
     [("R", T_SI, "returns times, S, I all are numpy arrays")],
     [("R", _n("times, Ss, Is"), "returns times, Ss, Is where times is a numpy array"),
      ("A", _n("times, Ss, Is"), "If True, returns times, Ss, Is")],
     sibling="SIS_individual_based_pure_IC")
_add("SIR_individual_based", "SIR", "graph", "node_rho", RHO, True,
     [("R", T_SIR, "returns times, S, I, R all are numpy arrays")],
     [("R", _n("times, Ss, Is, Rs"), "returns times, Ss, Is, Rs where times is a numpy array"),
      ("A", _n("times, S, I, R, Ss, Is, Rs"), "If True, returns times, S, I, R, Ss, Is, Rs")],
     sibling="SIR_individual_based_pure_IC")
_add("SIS_individual_based_pure_IC", "SIS", "graph", "pure", SETS, True,
     [("R", T_SI, "returns times, S, I")],
     [("R", _n("times, Ss, Is"), "returns times, Ss, Is")],
     sibling="SIS_individual_based")
_add("SIR_individual_based_pure_IC", "SIR", "graph", "pure", SETS_R, True,
     [("R", T_SIR, "returns times, S, I, R")],
     [("R", _n("times, S, I, R, Ss, Is, Rs"), "returns times, S, I, R, Ss, Is, Rs")],
     sibling="SIR_individual_based")
# ---- pair based --------------------------------------------------------------
_PB_SIS = ([("R", T_SI, "if False: returns times, S, I"),
            ("A", T_SIR, "if False: returns times, S, I, R")],
           [("R", _n("times, S, I, Xs, Ys, XY, XX"), "returns times, S, I, Xs, Ys, XY, XX"),
            ("A", _n("times, S, I, R, Xs, Ys, Zs, XY, XX"), "returns times, S, I, R, Xs, Ys, Zs, XY, XX")])
_PB_SIR = ([("R", T_SIR, "returns times, S, I, R")],
           [("R", _n("times, S, I, R, Xs, Ys, Zs, XY, XX"), "returns times, S, I, R, Xs, Ys, Zs, XY, XX")])
_add("SIS_pair_based", "SIS", "graph", "node_rho", RHO, True, *_PB_SIS, sibling="SIS_pair_based_pure_IC")
_add("SIS_pair_based_pure_IC", "SIS", "graph", "pure", SETS, True, *_PB_SIS, sibling="SIS_pair_based")
_add("SIR_pair_based", "SIR", "graph", "node_rho", RHO, True, *_PB_SIR, sibling="SIR_pair_based_pure_IC")
_add("SIR_pair_based_pure_IC", "SIR", "graph", "pure", SETS_R, True, *_PB_SIR, sibling="SIR_pair_based")
# ---- homogeneous mean field -----------------------------------------------------
_add("SIS_homogeneous_meanfield", "SIS", "base", "hom_mf", SETS + RHO, False,
     [("R", T_SI, "times, S, I all numpy arrays")], sibling="SIS_homogeneous_meanfield_from_graph")
_add("SIR_homogeneous_meanfield", "SIR", "base", "hom_mf", SETS_R + RHO, False,
     [("R", T_SIR, "times, S, I, R all numpy arrays")], sibling="SIR_homogeneous_meanfield_from_graph")
_add("SIS_homogeneous_meanfield_from_graph", "SIS", "graph", "fg", SETS + RHO, False,
     [("R", T_SI, "times, S, I all numpy arrays")], sibling="SIS_homogeneous_meanfield")
_add("SIR_homogeneous_meanfield_from_graph", "SIR", "graph", "fg", SETS_R + RHO, False,
     [("R", T_SIR, "times, S, I, R all numpy arrays")], sibling="SIR_homogeneous_meanfield")
# ---- homogeneous pairwise ----------------------------------------------------------
_add("SIS_homogeneous_pairwise", "SIS", "base", "hom_pw", SETS + RHO, True,
     [("R", _n("t, S, I"), "if return_full_data is False: t, S, I"),
      ("A", T_SI, "just return times, S, I or all calculated data")],
     [("R", _n("t, S, I, SI, SS, II"), "if return_full_data is True: t, S, I, SI, SS, II")],
     sibling="SIS_homogeneous_pairwise_from_graph")
_add("SIR_homogeneous_pairwise", "SIR", "base", "hom_pw", SETS_R + RHO, True,
     [("R", T_SIR, "if return_full_data is False: times, S, I, R"),
      ("A", T_SIR, "just return times, S, I, R or all calculated data")],
     [("R", _n("times, S, I, R, SI, SS"), "if return_full_data is True: times, S, I, R, SI, SS"),
      ("A", _n("times, S, I, R, SI, SS"), "if True, then returns times, S, I, R, SI, SS")],
     sibling="SIR_homogeneous_pairwise_from_graph")
_add("SIS_homogeneous_pairwise_from_graph", "SIS", "graph", "fg", SETS + RHO, True,
     [("R", _n("t, S, I"), "if return_full_data is False: t, S, I"),
      ("A", T_SI, "just return times, S, I, or all calculated data")],
     [("R", _n("t, S, I, SI, SS, II"), "if return_full_data is True: t, S, I, SI, SS, II"),
      ("A", _n("times, S, I, SI, SS"), "if True, then returns times, S, I, SI, SS")],
     sibling="SIS_homogeneous_pairwise")
_add("SIR_homogeneous_pairwise_from_graph", "SIR", "graph", "fg", SETS_R + RHO, True,
     [("R", _n("t, S, I"), "if return_full_data is False: t, S, I"),
      ("A", T_SIR, "just return times, S, I, R or all calculated data")],
     [("R", _n("t, S, I, SI, SS, II"), "if return_full_data is True: t, S, I, SI, SS, II"),
      ("A", _n("times, S, I, R, SI, SS"), "if True, then returns times, S, I, R, SI, SS")],
     sibling="SIR_homogeneous_pairwise")
# ---- heterogeneous mean field ---------------------------------------------------------
_add("SIS_heterogeneous_meanfield", "SIS", "base", "het_mf", SETS + RHO, True,
     [("R", T_SI, "if return_full_data is False: times, S, I (all numpy arrays)"),
      ("A", T_SI, "just return times, S, I or all calculated data")],
     [("R", _n("times, S, I, Sk"), "if return_full_data is True: times, S, I, Sk (Sk is numpy 2D arrays)"),
      ("A", _n("t, S, I, Sk, Ik"), "if True, returns t, S, I, Sk, Ik")],
     sibling="SIS_heterogeneous_meanfield_from_graph")
_add("SIR_heterogeneous_meanfield", "SIR", "base", "het_mf", SETS_R + RHO, True,
     [("R", T_SIR, "if return_full_data is False: times, S, I, R (all numpy arrays)"),
      ("A", T_SIR, "just return times, S, I, R or all calculated data")],
     [("R", _n("times, S, I, R, Sk, Ik, Rk"), "if return_full_data is True: times, S, I, R, Sk, Ik, Rk")],
     sibling="SIR_heterogeneous_meanfield_from_graph")
_add("SIS_heterogeneous_meanfield_from_graph", "SIS", "graph", "fg", SETS + RHO, True,
     [("R", T_SI, "if return_full_data is False: times, S, I (all numpy arrays)")],
     [("R", _n("times, S, I, Sk, Ik"), "if return_full_data is True: times, S, I, Sk, Ik")],
     sibling="SIS_heterogeneous_meanfield")
_add("SIR_heterogeneous_meanfield_from_graph", "SIR", "graph", "fg", SETS_R + RHO, True,
     [("R", T_SIR, "if False, times, S, I, R (all numpy arrays)"),
      ("A", T_SIR, "just return times, S, I, R or all calculated data")],
     [("R", _n("times, Sk, Ik, Rk"), "if return_full_data is True times, Sk, Ik, Rk")],
     sibling="SIR_heterogeneous_meanfield")
# ---- heterogeneous pairwise --------------------------------------------------------------
_add("SIS_heterogeneous_pairwise", "SIS", "base", "het_pw", SETS + RHO, True,
     [("R", T_SI, "if return_full_data is False: returns times, S, I"),
      ("A", T_SI, "If False, return times, S, I")],
     [("R", _n("times, S, I, Sk, Ik, SkIl, SkSl, IkIl"), "returns times, S, I, Sk, Ik, SkIl, SkSl, IkIl"),
      ("A", _n("times, Sk, Ik, SkIl, SkSl, IkIl"), "If True, return times, Sk, Ik, SkIl, SkSl, IkIl")],
     sibling="SIS_heterogeneous_pairwise_from_graph")
_add("SIR_heterogeneous_pairwise", "SIR", "base", "het_pw", SETS_R + RHO, True,
     [("R", T_SIR, "if return_full_data is False return times, S, I, R"),
      ("A", T_SIR, "If False, return times, S, I, R")],
     [("R", _n("times, S, I, R, Sk, Ik, Rk, SkIl, SkSl"), "returns times, S, I, R, Sk, Ik, Rk, SkIl, SkSl"),
      ("A", _n("times, Sk, Ik, Rk, SkIl, SkSl"), "If True, return times, Sk, Ik, Rk, SkIl, SkSl")],
     sibling="SIR_heterogeneous_pairwise_from_graph")
_add("SIS_heterogeneous_pairwise_from_graph", "SIS", "graph", "fg", SETS + RHO, True,
     [("R", T_SI, "if return_full_data is False: returns times, S, I"),
      ("A", T_SI, "just return times, S, I, or all calculated data")],
     [("R", _n("times, S, I, Sk, Ik, SkIl, SkSl, IkIl"), "returns times, S, I, Sk, Ik, SkIl, SkSl, IkIl"),
      ("A", _n("times, S, I, SI, SS"), "if True, then returns times, S, I, SI, SS")],
     sibling="SIS_heterogeneous_pairwise")
_add("SIR_heterogeneous_pairwise_from_graph", "SIR", "graph", "fg", SETS_R + RHO, True,
     [("R", T_SIR, "if return_full_data is False return times, S, I, R"),
      ("A", T_SIR, "If False, return times, S, I, R")],
     [("R", _n("times, S, I, R, Sk, Ik, Rk, SkIl, SkSl"), "returns times, S, I, R, Sk, Ik, Rk, SkIl, SkSl"),
      ("A", _n("times, Sk, Ik, Rk, SkIl, SkSl"), "If True, return times, Sk, Ik, Rk, SkIl, SkSl")],
     sibling="SIR_heterogeneous_pairwise")
# ---- compact pairwise ------------------------------------------------------------------------
_CP_SIS = ([("R", T_SI, "else return times, S, I"), ("A", T_SI, "if False, return times, S, I")],
           [("R", _n("times, S, I, Sk, Ik, SI, SS, II"), "return times, S, I, Sk, Ik, SI, SS, II")])
_CP_SIR = ([("R", T_SIR, "else: times, S, I, R"), ("A", T_SIR, "just return times, S, I, R or all calculated data")],
           [("R", _n("times, Sk, I, R, SS, SI"), "if return_full_data: times, Sk, I, R, SS, SI")])
_add("SIS_compact_pairwise", "SIS", "base", "cp", SETS + RHO, True, *_CP_SIS, sibling="SIS_compact_pairwise_from_graph")
_add("SIR_compact_pairwise", "SIR", "base", "cp", SETS_R + RHO, True, *_CP_SIR, sibling="SIR_compact_pairwise_from_graph")
_add("SIS_compact_pairwise_from_graph", "SIS", "graph", "fg", SETS + RHO, True,
     [("R", T_SI, "else: return times, S, I"), ("A", T_SI, "if False, return times, S, I")],
     [("R", _n("times, S, I, Sk, Ik, SI, SS, II"), "if return_full_data: return times, S, I, Sk, Ik, SI, SS, II")],
     sibling="SIS_compact_pairwise")
_add("SIR_compact_pairwise_from_graph", "SIR", "graph", "fg", SETS_R + RHO, True, *_CP_SIR, sibling="SIR_compact_pairwise")
# ---- super compact pairwise ---------------------------------------------------------------------
_add("SIS_super_compact_pairwise", "SIS", "base", "scp", SETS + RHO, True,
     [("R", T_SI, "if return_full_data is False returns times, S, I")],
     [("R", _n("times, S, I, SS, SI, II"), "if return_full_data is True returns times, S, I, SS, SI, II")],
     sibling="SIS_super_compact_pairwise_from_graph")
_add("SIR_super_compact_pairwise", "SIR", "base", "scp", SETS_R + RHO, True,
     [("R", T_SIR, "else: return times, S, I, R")],
     [("R", _n("times, S, I, R, SS, SI"), "if return_full_data: return times, S, I, R, SS, SI")],
     sibling="SIR_super_compact_pairwise_from_graph")
_add("SIS_super_compact_pairwise_from_graph", "SIS", "graph", "fg", SETS + RHO, True, [], [],
     sibling="SIS_super_compact_pairwise")
_add("SIR_super_compact_pairwise_from_graph", "SIR", "graph", "fg", SETS_R + RHO, True,
     [("R", T_SIR, "else: return times, S, I, R")],
     [("R", _n("times, S, I, R, SS, SI"), "if return_full_data: return times, S, I, R, SS, SI")],
     sibling="SIR_super_compact_pairwise")
# ---- effective degree ------------------------------------------------------------------------------
_add("SIS_effective_degree", "SIS", "base", "ed", SETS + RHO, True,
     [("R", T_SI, "else: return times, S, I"), ("A", T_SI, "if False, return times, S, I")],
     [("R", _n("times, S, I, Ssi, Isi"), "if return_full_data: return times, S, I, Ssi, Isi"),
      ("A", _n("times, S, I, Ssi, Isi"), "if True, return times, S, I, Ssi, Isi")],
     sibling="SIS_effective_degree_from_graph")
_ED_SIR = ([("R", T_SIR, "if return_full_data==False times np.array of times S np.array of number susceptible "
                          "I np.array of number infected R np.array of number recovered")],
           [("R", _n("times, S, I, R, S_si"), "else times as before S number susceptible I number infected "
                                              "R number recovered S_si S_{s,i} at each time in times")])
_add("SIR_effective_degree", "SIR", "base", "ed", SETS_R + RHO, True, *_ED_SIR, sibling="SIR_effective_degree_from_graph")
_add("SIS_effective_degree_from_graph", "SIS", "graph", "fg", SETS + RHO, True, [], [], sibling="SIS_effective_degree")
_add("SIR_effective_degree_from_graph", "SIR", "graph", "fg", SETS_R + RHO, True, *_ED_SIR, sibling="SIR_effective_degree")
# ---- compact effective degree --------------------------------------------------------------------------
_add("SIS_compact_effective_degree", "SIS", "base", "cp", SETS + RHO, True, [], [], sibling="SIS_compact_pairwise")
_add("SIS_compact_effective_degree_from_graph", "SIS", "graph", "fg", SETS + RHO, True, [], [],
     sibling="SIS_compact_pairwise_from_graph")
_CED = ([("R", T_SIR, "if return_full_data==False times np.array of times S np.array of number susceptible "
                       "I np.array of number infected R np.array of number recovered")],
        [("R", _n("times, S, I, R, SI"), "else times as before S number susceptible I number infected "
                                         "R number recovered SI S_{s,i} number of SI edges"),
         # the wording proposed to the maintainers (the code returns Skappa before SI); whichever of the
         # two alternatives is in the docstring is the documented order
         ("R", _n("times, S, I, R, Skappa, SI"), "R number recovered Skappa S_kappa at each time in times "
                                                 "SI S_{s,i} number of SI edges")])
_add("SIR_compact_effective_degree", "SIR", "base", "ced", SETS_R + RHO, True, *_CED,
     sibling="SIR_compact_effective_degree_from_graph")
_add("SIR_compact_effective_degree_from_graph", "SIR", "graph", "fg", SETS_R + RHO, True, *_CED,
     sibling="SIR_compact_effective_degree")
# ---- EBCM -----------------------------------------------------------------------------------------------
_EB = ([("R", _n("t, S, I, R"), "if return_full_data == False: returns t, S, I, R, all numpy arrays")],
       [("R", _n("t, S, I, R, theta"), "if ...== True returns t, S, I, R and theta")])
_add("EBCM_discrete", "SIR", "base", "ebcm", SETS_R + RHO, True, *_EB, sibling="EBCM_discrete_from_graph", disc=True)
_add("EBCM_discrete_from_graph", "SIR", "graph", "fg_disc", SETS_R + RHO, True, *_EB, sibling="EBCM_discrete", disc=True)
_add("EBCM_discrete_uniform_introduction", "SIR", "base", "ebcm_ui", RHO, True, *_EB, sibling="EBCM_discrete",
     disc=True, tmin=False)
_add("EBCM", "SIR", "base", "ebcm", SETS_R + RHO, True, *_EB, sibling="EBCM_from_graph")
_add("EBCM_from_graph", "SIR", "graph", "fg", SETS_R + RHO, True, [], [], sibling="EBCM")
_add("EBCM_uniform_introduction", "SIR", "base", "ebcm_ui", RHO, True, *_EB, sibling="EBCM")
_add("EBCM_pref_mix", "SIR", "base", "prefmix", RHO, True, *_EB, sibling="EBCM_pref_mix_from_graph")
_add("EBCM_pref_mix_from_graph", "SIR", "graph", "fg_rho", RHO, True, *_EB, sibling="EBCM_pref_mix")
_add("EBCM_pref_mix_discrete", "SIR", "base", "prefmix", RHO, True, *_EB, sibling="EBCM_pref_mix_discrete_from_graph",
     disc=True)
_add("EBCM_pref_mix_discrete_from_graph", "SIR", "graph", "fg_rho", RHO, True, [], [], sibling="EBCM_pref_mix_discrete",
     disc=True)

ENTRIES = E


def _norm(s):
    s = re.sub(r"\s+", " ", (s or "").replace("*", " ").replace("`", " ")).strip()
    return re.sub(r"\s+([,:])", r"\1", s)


def candidate_functions(EoN):
    """Mechanical list of the ODE entry points: public functions of EoN.analytic
    whose name starts with SIS_/SIR_/EBCM."""
    out = []
    for name, fn in inspect.getmembers(EoN.analytic, inspect.isfunction):
        if fn.__module__ == "EoN.analytic" and name.split("_")[0] in ("SIS", "SIR", "EBCM"):
            out.append(name)
    return sorted(out)


def verify_docstrings(EoN):
    """-> (problems, notes).  problems: table rows whose evidence is no longer in the
    docstring, entry points missing from the table, signature drift (machinery
    failures: the table must be re-extracted).  notes: docstrings whose own
    return-order statements contradict each other."""
    problems, notes = [], []
    names = candidate_functions(EoN)
    for nm in names:
        if nm not in ENTRIES:
            problems.append("entry point %s is not in the C06 table" % nm)
    for nm, e in sorted(ENTRIES.items()):
        fn = getattr(EoN, nm, None)
        if fn is None:
            problems.append("table entry %s does not exist in EoN" % nm)
            continue
        doc = _norm(fn.__doc__)
        sig = inspect.signature(fn).parameters
        if ("return_full_data" in sig) != e["full"]:
            problems.append("%s: return_full_data parameter presence differs from the table" % nm)
        if e["disc"] == ("tcount" in sig):
            problems.append("%s: tcount parameter presence differs from the table" % nm)
        if e["tmin"] != ("tmin" in sig):
            problems.append("%s: tmin parameter presence differs from the table" % nm)
        for full in (False, True):
            listed = e["stmts"][full]
            # alternatives whose evidence is absent are dropped; a docstring that matches none of the
            # listed ':Returns:' statements has changed and the table must be re-extracted
            st = [x for x in listed if _norm(x[2]) in doc]
            if any(x[0] == "R" for x in listed) and not any(x[0] == "R" for x in st):
                problems.append("%s: docstring no longer contains %r" % (nm, [x[2] for x in listed if x[0] == "R"]))
            for x in listed:
                if x not in st and x[0] == "A":
                    problems.append("%s: docstring no longer contains %r" % (nm, x[2]))
            e["stmts"][full] = st
            orders = set(tuple(_canon(x) for x in n_) for _, n_, _ in st)
            if len(orders) > 1:
                notes.append("%s docstring states contradictory return orders for return_full_data=%s: %s"
                             % (nm, full, " / ".join(", ".join(n_) for _, n_, _ in st)))
            if not st and (not full or e["full"]):
                notes.append("%s docstring states no return order for return_full_data=%s; the order of %s is used"
                             % (nm, full, e["sibling"]))
    return problems, notes


def _canon(x):
    return "times" if x in ("t", "times") else x


def statements(name, full, _seen=None):
    """own statements, and the sibling's (followed transitively while a docstring is silent)"""
    e = ENTRIES[name]
    own = [tuple(_canon(x) for x in n_) for _, n_, _ in e["stmts"][full]]
    sib = []
    seen = _seen or {name}
    s = e["sibling"]
    if s and s not in seen:
        seen.add(s)
        o2, s2 = statements(s, full, seen)
        sib = o2 + s2
    return _uniq(own), _uniq(sib)


def _uniq(xs):
    out = []
    for x in xs:
        if x not in out:
            out.append(x)
    return out

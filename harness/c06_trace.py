"""C06 support: batched validation of recorded (t,S,I,R) traces against
specs/TraceCompartmentFlow.tla (the monitor for specs/CompartmentFlow.tla).

One TLC start validates a whole file of traces (one initial state per trace
id).  The monitor is total: a trace either reaches Done or is Rejected with
the failing row and the failed clauses printed by TLC in the same run.  The
file is split into a few chunks validated by concurrent TLC processes.
"""
import json
import threading

from . import tlc

SLACK = 2          # fixed-point units of rounding slack on top of eps = 1e-6 * N
ACTIONS = ("Step", "Reject", "Done")


def final_coverage(res):
    """per-action (distinct, total) counts of the LAST coverage report in TLC's output.
    (`-coverage 1` also prints interim reports when a run exceeds a minute; TLCResult.coverage
    sums all of them, which is fine for 'was this action ever taken' but not for counting.)"""
    import re
    out = res.stdout
    k = out.rfind("The coverage statistics at")
    blk = out[k:] if k >= 0 else out
    cov = {}
    for m in re.finditer(r"<(\w+) line \d+, col \d+ to line \d+, col \d+ of module \w+>: (\d+):(\d+)", blk):
        a = cov.get(m.group(1), (0, 0))
        cov[m.group(1)] = (a[0] + int(m.group(2)), a[1] + int(m.group(3)))
    return cov


def exhaustive_reference(max_pop, max_rows, workers=8):
    cfg = tlc.cfg_text({"MaxPop": max_pop, "MaxRows": max_rows},
                       invariants=["TypeOK", "Conserved", "InBounds", "RowsOK"],
                       properties=["Monotone", "TauZeroFreezesS", "GammaZeroFreezesR", "ParamsFrozen",
                                   "StepsSatisfyClauses"])
    return tlc.run_tlc("CompartmentFlow", cfg, workers=workers, coverage=True)


def _run_chunk(traces, workers, out, idx):
    mc = '---- MODULE MC_Trace ----\nEXTENDS TraceCompartmentFlow\nMCFile == "traces.json"\n====\n'
    cfg = ("CONSTANTS\n  TraceFile <- MCFile\n  Slack = %d\nSPECIFICATION TraceSpec\nINVARIANT BoundRowsOK\n"
           "PROPERTY Frozen\nCHECK_DEADLOCK FALSE\n" % SLACK)
    clean = [{k: v for k, v in t.items() if not k.startswith("_")} for t in traces]
    try:
        out[idx] = tlc.run_tlc("MC_Trace", cfg, workers=workers, coverage=True,
                               files=[("MC_Trace.tla", mc), ("traces.json", json.dumps(clean))], timeout=1800)
    except Exception as ex:          # re-raised by the caller
        out[idx] = ex


def validate(traces, chunks=4, workers=4):
    """-> (rejects: {trace index: (row, sorted clause names)}, list of TLCResult)
    Raises tlc.TLCError when the verdict is not total."""
    n = len(traces)
    if n == 0:
        return {}, []
    chunks = max(1, min(chunks, (n + 199) // 200))
    size = (n + chunks - 1) // chunks
    parts = [(i, traces[i:i + size]) for i in range(0, n, size)]
    out = [None] * len(parts)
    th = [threading.Thread(target=_run_chunk, args=(p[1], workers, out, j)) for j, p in enumerate(parts)]
    for t in th:
        t.start()
    for t in th:
        t.join()
    rejects = {}
    results = []
    for (base, part), res in zip(parts, out):
        if isinstance(res, Exception):
            raise res
        if res.violation:
            raise tlc.TLCError("TraceCompartmentFlow itself violated: %s" % res.violation)
        results.append(res)
        for rec in res.printed("REJ"):
            _, tid, row, cl = rec
            rejects[base + tid - 1] = (row, sorted(cl["__set__"]))
        cov = final_coverage(res)
        res.coverage = cov
        done = cov.get("Done", (0, 0))[0]
        rej = cov.get("Reject", (0, 0))[0] + cov.get("RejectEmpty", (0, 0))[0]
        nrej = sum(1 for k in rejects if base <= k < base + len(part))
        if done + rej != len(part) or rej != nrej:
            raise tlc.TLCError("trace verdict not total: %d traces, %d accepted, %d rejected (%d diagnosed)"
                               % (len(part), done, rej, nrej))
    return rejects, results

"""Support for check C19 (calls do not modify their arguments and can be repeated).

Three things live here:

1. `snapshot(obj)` - a canonical, JSON-able tree describing everything that is
   observable about an argument (or result) object through its public interface:
   networkx graphs with node ORDER, adjacency order and every node / edge / graph
   attribute; dict-likes with key order and the default of a defaultdict; lists,
   tuples, sets, ranges; numpy arrays with shape, dtype and bytes; floats by their
   exact hex value; callables by name (the recorder passes the same object twice,
   so identity is given).  `fingerprint(tree)` is its SHA-256; `diff(a, b)` lists
   what changed with a stable `kind` per change.  These feed the abstract `env`
   of specs/ApiFrame.tla; the verdict itself is TLC's (specs/TraceApiFrame.tla).

2. The entry-point table: every public function of EoN.simulation, EoN.analytic
   and EoN.auxiliary (collected with `inspect`) with scenario builders.  Entry
   points whose required parameters are only (G, tau, gamma | p) get the generic
   family (graphs x ways of passing the initial condition x full-data flag); the
   direct (non-from_graph) solvers, the contagion simulators, the non-Markovian
   ones and the helpers have explicit builders.

3. The recorder: snapshot -> call -> snapshot -> call again with THE SAME objects
   -> snapshot, seeding `random` and `numpy.random` identically before each call.
"""
import collections
import contextlib
import hashlib
import inspect
import io
import json
import random

import networkx as nx
import numpy as np

from . import common

RAISED = 0  # result value of a call that ended in an exception (ApiFrame!Raised)


# =============================================================================
# 1. canonical snapshots
# =============================================================================
def _atom(t, v):
    return {"k": "atom", "t": t, "v": v}


def _default_of(o):
    f = getattr(o, "default_factory", None)
    if f is None:
        return None
    try:
        return snapshot(f())
    except Exception as ex:  # a factory that cannot be called without context
        return _atom("factory-error", type(ex).__name__)


def _map(o, tname=None):
    return {"k": "map", "t": tname or type(o).__name__,
            "items": [[snapshot(k), snapshot(v)] for k, v in o.items()],
            "default": _default_of(o)}


def snapshot(o, _depth=0):
    if _depth > 12:
        return _atom("deep", type(o).__name__)
    d = _depth + 1
    if o is None or isinstance(o, (bool, str)):
        return _atom(type(o).__name__, repr(o))
    if isinstance(o, int):
        return _atom("int", repr(o))
    if isinstance(o, float):
        return _atom("float", o.hex())
    if isinstance(o, complex):
        return _atom("complex", repr(o))
    if isinstance(o, bytes):
        return _atom("bytes", o.hex())
    if isinstance(o, np.generic):
        return _atom("np." + o.dtype.name, np.asarray(o).tobytes().hex())
    if isinstance(o, np.ndarray):
        if o.dtype == object:
            return {"k": "array", "shape": list(o.shape), "dtype": "object",
                    "items": [snapshot(x, d) for x in o.ravel().tolist()]}
        return {"k": "array", "shape": list(o.shape), "dtype": o.dtype.str,
                "writeable": bool(o.flags.writeable), "data": o.tobytes().hex()}
    if isinstance(o, range):
        return _atom("range", repr(o))
    if isinstance(o, (nx.Graph,)):
        return _graph(o)
    if isinstance(o, (list, tuple)):
        return {"k": "seq", "t": type(o).__name__, "items": [snapshot(x, d) for x in o]}
    if isinstance(o, (set, frozenset)):
        items = [snapshot(x, d) for x in o]
        items.sort(key=_dumps)
        return {"k": "set", "t": type(o).__name__, "items": items}
    if isinstance(o, collections.abc.Mapping):
        return _map(o)
    if isinstance(o, (collections.abc.KeysView, collections.abc.ValuesView, collections.abc.ItemsView)) \
            or type(o).__name__ in ("NodeView", "EdgeView", "NodeDataView", "EdgeDataView", "DegreeView"):
        return {"k": "seq", "t": type(o).__name__, "items": [snapshot(x, d) for x in o]}
    if type(o).__name__ == "Simulation_Investigation":
        return _siminv(o)
    if callable(o):
        attrs = {}
        try:
            attrs = dict(vars(o))
        except TypeError:
            pass
        return {"k": "callable", "name": getattr(o, "__qualname__", type(o).__name__),
                "attrs": _map(attrs, "dict") if attrs else None}
    return _atom("object:" + type(o).__name__, "")


def _graph(G):
    out = {"k": "graph", "t": type(G).__name__, "directed": bool(G.is_directed()),
           "multi": bool(G.is_multigraph()), "attrs": _map(G.graph, "dict"),
           "nodes": [[snapshot(n), _map(a, "dict")] for n, a in G.nodes(data=True)]}
    adj = []
    for u in G.nodes():
        row = []
        for v, a in G.adj[u].items():
            if G.is_multigraph():
                row.append([snapshot(v), {"k": "map", "t": "dict", "default": None,
                                          "items": [[snapshot(key), _map(ea, "dict")] for key, ea in a.items()]}])
            else:
                row.append([snapshot(v), _map(a, "dict")])
        adj.append([snapshot(u), row])
    out["adj"] = adj
    if G.is_directed():
        out["pred"] = [[snapshot(u), [snapshot(v) for v in G.pred[u]]] for u in G.nodes()]
    return out


def _siminv(si):
    """API-observable projection of a Simulation_Investigation (stochastic results;
    only used to count same-seed reproducibility, never for a verdict)."""
    out = {"k": "siminv"}
    try:
        t, D = si.summary()
        out["t"] = snapshot(np.asarray(t))
        out["D"] = {"k": "map", "t": "dict", "default": None,
                    "items": [[snapshot(k), snapshot(np.asarray(v))] for k, v in sorted(D.items(), key=lambda kv: repr(kv[0]))]}
    except Exception as ex:
        out["summary_error"] = type(ex).__name__
    try:
        out["transmissions"] = snapshot(list(si.transmissions()))
    except Exception as ex:
        out["transmissions_error"] = type(ex).__name__
    return out


def _dumps(tree):
    return json.dumps(tree, sort_keys=True, separators=(",", ":"))


def fingerprint(tree):
    return hashlib.sha256(_dumps(tree).encode()).hexdigest()


# -----------------------------------------------------------------------------
# human-readable rendering and structural diff
# -----------------------------------------------------------------------------
def render(tree, limit=160):
    s = _render(tree)
    return s if len(s) <= limit else s[:limit - 3] + "..."


def _render(t):
    k = t.get("k")
    if k == "atom":
        if t["t"] == "float":
            return repr(float.fromhex(t["v"]))
        if t["t"].startswith("np."):
            try:
                return repr(np.frombuffer(bytes.fromhex(t["v"]), dtype=t["t"][3:])[0].item())
            except Exception:
                return t["t"]
        return t["v"] if t["v"] else t["t"]
    if k == "array":
        if "data" in t:
            a = np.frombuffer(bytes.fromhex(t["data"]), dtype=np.dtype(t["dtype"])).reshape(t["shape"])
            return "array(shape=%s, dtype=%s, %s)" % (tuple(t["shape"]), np.dtype(t["dtype"]).name, a.tolist())
        return "array(shape=%s, dtype=object)" % (tuple(t["shape"]),)
    if k == "seq":
        b = "[%s]" if t["t"] != "tuple" else "(%s)"
        return b % ", ".join(_render(x) for x in t["items"])
    if k == "set":
        return "{%s}" % ", ".join(_render(x) for x in t["items"])
    if k == "map":
        return "%s{%s}" % ("" if t["t"] == "dict" else t["t"], ", ".join("%s: %s" % (_render(a), _render(b)) for a, b in t["items"]))
    if k == "graph":
        return "%s(nodes=[%s], adjacency entries=%d)" % (t["t"], ", ".join(_render(n) for n, _ in t["nodes"]),
                                                         sum(len(r) for _, r in t["adj"]))
    if k == "callable":
        return "<callable %s>" % t["name"]
    return k or "?"


def diff(a, b, path=""):
    """List of (kind, path, detail) describing how tree b differs from tree a."""
    out = []
    _diff(a, b, path, out)
    return out


def _diff(a, b, path, out):
    if a == b:
        return
    if a.get("k") != b.get("k") or (a.get("k") in ("seq", "set", "map", "graph", "atom") and a.get("t") != b.get("t")):
        out.append(("type", path, "%s -> %s" % (render(a, 80), render(b, 80))))
        return
    k = a["k"]
    if k == "atom":
        out.append(("value", path, "%s -> %s" % (render(a, 60), render(b, 60))))
    elif k == "array":
        if a["shape"] != b["shape"]:
            out.append(("shape", path, "shape %s -> %s" % (tuple(a["shape"]), tuple(b["shape"]))))
        if a["dtype"] != b["dtype"]:
            out.append(("dtype", path, "dtype %s -> %s" % (a["dtype"], b["dtype"])))
        if a.get("data") != b.get("data") or a.get("items") != b.get("items"):
            kind = "values"
            detail = "%s -> %s" % (render(a, 100), render(b, 100))
            if a["dtype"] == b["dtype"] and "data" in a and "data" in b:
                x = np.frombuffer(bytes.fromhex(a["data"]), dtype=np.dtype(a["dtype"]))
                y = np.frombuffer(bytes.fromhex(b["data"]), dtype=np.dtype(b["dtype"]))
                if x.size == y.size and sorted(x.tolist(), key=repr) == sorted(y.tolist(), key=repr):
                    kind = "order"
                elif x.size == y.size and x.size > 3:
                    # long arrays: show where they differ instead of two truncated dumps
                    xb = x.view(np.uint8).reshape(x.size, -1)
                    yb = y.view(np.uint8).reshape(y.size, -1)
                    idx = np.nonzero((xb != yb).any(axis=1))[0]
                    detail = "%d of %d entries differ: %s" % (
                        len(idx), x.size, ", ".join("flat[%d] %r -> %r" % (i, x[i].item(), y[i].item()) for i in idx[:3]))
            out.append((kind, path, detail))
        if a.get("writeable") != b.get("writeable"):
            out.append(("flags", path, "writeable %s -> %s" % (a.get("writeable"), b.get("writeable"))))
    elif k == "seq":
        x, y = a["items"], b["items"]
        if len(x) != len(y):
            kind = "item-removed" if len(y) < len(x) else "item-added"
            out.append((kind, path, "length %d -> %d: %s -> %s" % (len(x), len(y), render(a, 80), render(b, 80))))
        elif sorted(map(_dumps, x)) == sorted(map(_dumps, y)):
            out.append(("order", path, "%s -> %s" % (render(a, 80), render(b, 80))))
        else:
            for i, (p, q) in enumerate(zip(x, y)):
                _diff(p, q, "%s[%d]" % (path, i), out)
    elif k == "set":
        x = {_dumps(i): i for i in a["items"]}
        y = {_dumps(i): i for i in b["items"]}
        for key in x:
            if key not in y:
                out.append(("item-removed", path, "element %s removed" % render(x[key], 60)))
        for key in y:
            if key not in x:
                out.append(("item-added", path, "element %s added" % render(y[key], 60)))
    elif k == "map":
        _diff_map(a, b, path, out, "item")
    elif k == "graph":
        _diff_graph(a, b, path, out)
    elif k == "callable":
        if a["name"] != b["name"]:
            out.append(("value", path, "callable %s -> %s" % (a["name"], b["name"])))
        elif a.get("attrs") != b.get("attrs"):
            _diff_map(a.get("attrs") or {"items": [], "default": None}, b.get("attrs") or {"items": [], "default": None},
                      path + ".__dict__", out, "attribute")
    else:
        out.append(("value", path, "%s -> %s" % (render(a, 60), render(b, 60))))


def _diff_map(a, b, path, out, word):
    x = collections.OrderedDict((_dumps(k), (k, v)) for k, v in a["items"])
    y = collections.OrderedDict((_dumps(k), (k, v)) for k, v in b["items"])
    added = [key for key in y if key not in x]
    removed = [key for key in x if key not in y]
    if added and not removed and b.get("default") is not None \
            and all(y[key][1] == b["default"] for key in added) \
            and all(x[key][1] == y[key][1] for key in x):
        out.append(("default-keys-materialised", path,
                    "%d key(s) inserted with the default value by reading them: %s"
                    % (len(added), ", ".join(render(y[key][0], 30) for key in added[:8]))))
        return
    for key in removed:
        out.append((word + "-removed", path, "key %s removed" % render(x[key][0], 60)))
    for key in added:
        out.append((word + "-added", path, "key %s added (= %s)" % (render(y[key][0], 60), render(y[key][1], 60))))
    for key in x:
        if key in y and x[key][1] != y[key][1]:
            sub = []
            _diff(x[key][1], y[key][1], "%s[%s]" % (path, render(x[key][0], 30)), sub)
            if word == "attribute":
                sub = [("attribute-changed", p, d) for _, p, d in sub]
            out.extend(sub)
    if not added and not removed and [k for k in x] != [k for k in y]:
        out.append(("order", path, "key order changed"))
    if a.get("default") != b.get("default"):
        out.append(("value", path + ".default_factory", "default changed"))


def _diff_graph(a, b, path, out):
    if a["directed"] != b["directed"] or a["multi"] != b["multi"]:
        out.append(("type", path, "graph class changed"))
    sub = []
    _diff_map(a["attrs"], b["attrs"], path + ".graph", sub, "attribute")
    out.extend([("graph-" + kd if kd.startswith("attribute") else "graph-attribute-changed", p, d) for kd, p, d in sub])
    na = collections.OrderedDict((_dumps(n), (n, at)) for n, at in a["nodes"])
    nb = collections.OrderedDict((_dumps(n), (n, at)) for n, at in b["nodes"])
    for key in na:
        if key not in nb:
            out.append(("node-removed", path, "node %s removed" % render(na[key][0], 40)))
    for key in nb:
        if key not in na:
            out.append(("node-added", path, "node %s added" % render(nb[key][0], 40)))
    for key in na:
        if key in nb and na[key][1] != nb[key][1]:
            sub = []
            _diff_map(na[key][1], nb[key][1], "%s.nodes[%s]" % (path, render(na[key][0], 30)), sub, "attribute")
            out.extend([("node-" + kd if kd.startswith("attribute") else "node-attribute-changed", p, d) for kd, p, d in sub])
    common_nodes = [k for k in na if k in nb]
    if common_nodes == list(na) and list(na) != list(nb) and set(na) == set(nb):
        out.append(("node-order", path, "node order %s -> %s" % ([render(v[0], 20) for v in na.values()],
                                                                [render(v[0], 20) for v in nb.values()])))
    ea = collections.OrderedDict()
    for u, row in a["adj"]:
        for v, at in row:
            ea[(_dumps(u), _dumps(v))] = (u, v, at)
    eb = collections.OrderedDict()
    for u, row in b["adj"]:
        for v, at in row:
            eb[(_dumps(u), _dumps(v))] = (u, v, at)
    seen = set()
    for key, (u, v, at) in ea.items():
        und = key if a["directed"] else tuple(sorted(key))
        if key not in eb:
            if und not in seen:
                out.append(("edge-removed", path, "edge (%s, %s) removed" % (render(u, 30), render(v, 30))))
            seen.add(und)
        elif eb[key][2] != at:
            if und not in seen:
                sub = []
                _diff_map(at, eb[key][2], "%s.edges[%s,%s]" % (path, render(u, 20), render(v, 20)), sub, "attribute")
                out.extend([("edge-" + kd if kd.startswith("attribute") else "edge-attribute-changed", p, d) for kd, p, d in sub])
            seen.add(und)
    for key, (u, v, at) in eb.items():
        und = key if b["directed"] else tuple(sorted(key))
        if key not in ea and und not in seen:
            out.append(("edge-added", path, "edge (%s, %s) added" % (render(u, 30), render(v, 30))))
            seen.add(und)
    if not out and a != b:
        out.append(("adjacency-order", path, "iteration order of neighbours / predecessors changed"))


# priority of the kinds when one argument changed in several ways (key = first)
_KIND_ORDER = ["type", "node-removed", "node-added", "edge-removed", "edge-added",
               "node-attribute-added", "node-attribute-removed", "node-attribute-changed",
               "edge-attribute-added", "edge-attribute-removed", "edge-attribute-changed",
               "graph-attribute-added", "graph-attribute-removed", "graph-attribute-changed",
               "node-order", "adjacency-order", "shape", "dtype", "item-removed", "item-added",
               "attribute-added", "attribute-removed", "attribute-changed",
               "values", "value", "order", "flags", "default-keys-materialised"]


def classify(diffs):
    """Stable kind for a list of diff entries of ONE argument (highest priority kind present)."""
    kinds = {d[0] for d in diffs}
    for k in _KIND_ORDER:
        if k in kinds:
            return k
    return sorted(kinds)[0] if kinds else "unknown"


# =============================================================================
# 2. scenario material
# =============================================================================
def graph(name):
    """Small contact networks with weights.  Node insertion order is deliberately
    not sorted, every graph carries node, edge and graph attributes."""
    if name == "P5":      # path with one chord, integer labels, 5 nodes
        G = nx.Graph(name="P5", created_by="c19")
        for u, g in [(3, 1.0), (0, 0.5), (4, 2.0), (1, 1.0), (2, 0.5)]:
            G.add_node(u, g=g, label="n%d" % u)
        for u, v, w in [(0, 1, 1.0), (1, 2, 0.5), (2, 3, 2.0), (3, 4, 1.0), (1, 3, 0.5)]:
            G.add_edge(u, v, w=w, kind="contact")
        return G
    if name == "P5i":     # P5 plus an isolated node: a degree-0 class
        G = graph("P5")
        G.add_node(97, g=1.0, label="n97")
        return G
    if name == "K4":      # regular graph, 4 nodes
        G = nx.Graph(name="K4")
        for u in [2, 0, 3, 1]:
            G.add_node(u, g=1.0 + 0.5 * (u % 2))
        for u in range(4):
            for v in range(u + 1, 4):
                G.add_edge(u, v, w=0.5 * (1 + (u + v) % 3))
        return G
    if name == "S6":      # string labels, 6 nodes: cycle + chord + pendant
        G = nx.Graph(name="S6")
        for u, g in [("c", 1.0), ("a", 2.0), ("f", 0.5), ("b", 1.0), ("e", 1.0), ("d", 0.5)]:
            G.add_node(u, g=g)
        for u, v, w in [("a", "b", 1.0), ("b", "c", 2.0), ("c", "d", 0.5), ("d", "e", 1.0), ("e", "a", 1.0),
                        ("b", "e", 0.5), ("c", "f", 1.0)]:
            G.add_edge(u, v, w=w)
        return G
    if name == "D5":      # directed, 5 nodes
        G = nx.DiGraph(name="D5")
        for u in [1, 0, 2, 4, 3]:
            G.add_node(u, g=1.0)
        for u, v, w in [(0, 1, 1.0), (1, 2, 1.0), (2, 0, 0.5), (2, 3, 2.0), (3, 4, 1.0), (4, 2, 1.0), (1, 0, 0.5)]:
            G.add_edge(u, v, w=w)
        return G
    if name.startswith("R"):   # R<seed>: random connected graph on 6 nodes
        seed = int(name[1:])
        rng = random.Random(seed)
        while True:
            H = nx.gnp_random_graph(6, 0.5, seed=rng.randrange(10 ** 6))
            if nx.is_connected(H):
                break
        order = list(H.nodes())
        rng.shuffle(order)
        G = nx.Graph(name=name)
        for u in order:
            G.add_node(u, g=rng.choice([0.5, 1.0, 2.0]))
        for u, v in H.edges():
            G.add_edge(u, v, w=rng.choice([0.5, 1.0, 2.0]))
        return G
    raise KeyError(name)


def _first_nodes(G, k):
    """k nodes in sorted label order (deterministic, independent of insertion order)."""
    return sorted(G.nodes(), key=repr)[:k]


CONTAINERS = ["list", "set", "tuple", "ndarray", "dictkeys", "range"]


def container(kind, nodes):
    nodes = list(nodes)
    if kind == "list":
        return list(nodes)
    if kind == "set":
        return set(nodes)
    if kind == "tuple":
        return tuple(nodes)
    if kind == "ndarray":
        return np.array(nodes)
    if kind == "dictkeys":
        return {u: True for u in nodes}
    if kind == "range":
        return range(0, len(nodes))
    raise KeyError(kind)


def degree_data(G, inf, rec=()):
    """Initial conditions of the degree-based models for graph G with the node sets
    inf / rec infected / recovered, in the conventions documented by each solver."""
    inf, rec = set(inf), set(rec)
    st = {u: ("I" if u in inf else "R" if u in rec else "S") for u in G}
    deg = dict(G.degree())
    K = max(deg.values()) + 1
    N = G.order()
    d = {"N": N, "K": K}
    Sk0, Ik0, Rk0 = np.zeros(K), np.zeros(K), np.zeros(K)
    for u in G:
        {"S": Sk0, "I": Ik0, "R": Rk0}[st[u]][deg[u]] += 1
    d.update(Sk0=Sk0, Ik0=Ik0, Rk0=Rk0, S0=float(Sk0.sum()), I0=float(Ik0.sum()), R0=float(Rk0.sum()))
    SkSl0, SkIl0, IkIl0 = np.zeros((K, K)), np.zeros((K, K)), np.zeros((K, K))
    SS0 = SI0 = II0 = 0.0
    for u, v in G.edges():
        for a, b in ((u, v), (v, u)):
            if st[a] == "S" and st[b] == "S":
                SkSl0[deg[a], deg[b]] += 1
                SS0 += 1
            elif st[a] == "S" and st[b] == "I":
                SkIl0[deg[a], deg[b]] += 1
                SI0 += 1
            elif st[a] == "I" and st[b] == "I":
                IkIl0[deg[a], deg[b]] += 1
                II0 += 1
    d.update(SkSl0=SkSl0, SkIl0=SkIl0, IkIl0=IkIl0, SS0=SS0, SI0=SI0, II0=II0)
    Ssi0, Isi0 = np.zeros((K, K)), np.zeros((K, K))
    Skappa0 = np.zeros(K)
    for u in G:
        s = sum(1 for v in G.neighbors(u) if st[v] == "S")
        i = sum(1 for v in G.neighbors(u) if st[v] == "I")
        if st[u] == "S":
            Ssi0[s, i] += 1
            Skappa0[s + i] += 1
        elif st[u] == "I":
            Isi0[s, deg[u] - s] += 1
    d.update(Ssi0=Ssi0, Isi0=Isi0, S_si0=Ssi0.copy(), Skappa0=Skappa0)
    cnt = collections.Counter(deg.values())
    Pk = {k: cnt[k] / float(N) for k in sorted(cnt)}
    Pnk = {k1: {} for k1 in sorted(cnt)}
    for u in G:
        for v in G.neighbors(u):
            Pnk[deg[u]][deg[v]] = Pnk[deg[u]].get(deg[v], 0.0) + 1.0 / (deg[u] * cnt[deg[u]])
    d.update(Pk=Pk, Pnk=Pnk)
    d["k_ave"] = sum(k * p for k, p in Pk.items())
    d["ksquare_ave"] = sum(k * k * p for k, p in Pk.items())
    d["kcube_ave"] = sum(k ** 3 * p for k, p in Pk.items())
    d["n"] = d["k_ave"]
    return d


class PGF(object):
    """Callable polynomial sum_k c_k x^(k-shift) * k-falling-factor; plain Python object so
    that the harness can see whether an entry point touched its coefficient table."""

    def __init__(self, Pk, order=0, scale=1.0):
        self.coeff = dict(Pk)
        self.order = order
        self.scale = scale

    def __call__(self, x):
        tot = 0.0
        for k, p in self.coeff.items():
            f = 1.0
            for j in range(self.order):
                f *= (k - j)
            if f != 0:
                tot = tot + self.scale * p * f * x ** (k - self.order)
        return tot


# user callbacks (module level so that they have stable names) -----------------
def trans_time_const(u, v, rate):
    return random.expovariate(rate)


def rec_time_const(u, rate):
    return random.expovariate(rate)


def trans_time_table(u, v, rates):
    return random.expovariate(rates[u])


def rec_time_table(u, rates):
    return random.expovariate(rates[u])


def _delay_list(rate, duration):
    t, lst = 0.0, []
    while True:
        t += random.expovariate(rate)
        if t > duration:
            return lst
        lst.append(t)


def sis_trans_times_const(u, v, rec_delay, rate):
    return _delay_list(rate, rec_delay)


def sis_trans_times_table(u, v, rec_delay, rates):
    return _delay_list(rates[u], rec_delay)


def trans_and_rec_sir(node, sus_neighbors, tau, gamma):
    duration = random.expovariate(gamma)
    delays = {}
    for v in sus_neighbors:
        delays[v] = random.expovariate(tau)
    return delays, duration


def trans_and_rec_sis(node, neighbors, tau, gamma):
    duration = random.expovariate(gamma)
    delays = {}
    for v in neighbors:
        delays[v] = _delay_list(tau, duration)
    return delays, duration


def transmission_threshold(xi_u, zeta_v):
    return xi_u * zeta_v > 0.3


def test_transmission_p(u, v, p):
    return random.random() < p


def test_recovery_half(u):
    return random.random() < 0.5


def cc_rate(G, node, status, parameters):
    r, tau = parameters[0], parameters[1]
    if status[node] == "I":
        return 0.0
    k = sum(1 for v in G.neighbors(node) if status[v] == "I")
    return tau if k >= r else 0.0


def cc_choice(G, node, status, parameters):
    return "I"


def cc_influence(G, node, status, parameters):
    return {v for v in G.neighbors(node) if status[v] == "S"}


def sc_node_rate(G, node, scale=1.0):
    return scale * G.nodes[node].get("g", 1.0)


def sc_edge_rate(G, source, target, scale=1.0):
    return scale * G.adj[source][target].get("w", 1.0)


def model_graphs(kind):
    """(spontaneous, induced, statuses) model-specification DiGraphs of Gillespie_simple_contagion."""
    H, J = nx.DiGraph(model=kind), nx.DiGraph(model=kind)
    if kind == "SIR":
        H.add_edge("I", "R", rate=0.5)
        J.add_edge(("I", "S"), ("I", "I"), rate=1.0)
        return H, J, ("S", "I", "R")
    if kind == "SIRw":      # weight labels on both graphs
        H.add_edge("I", "R", rate=0.5, weight_label="g")
        J.add_edge(("I", "S"), ("I", "I"), rate=1.0, weight_label="w")
        return H, J, ("S", "I", "R")
    if kind == "SEIRf":     # rate functions + isolated status node + extra attributes
        H.add_node("S", note="no spontaneous move")
        H.add_edge("E", "I", rate=2.0, rate_function=sc_node_rate)
        H.add_edge("I", "R", rate=0.5)
        J.add_edge(("I", "S"), ("I", "E"), rate=1.0, rate_function=sc_edge_rate)
        return H, J, ["S", "E", "I", "R"]
    if kind == "SIRS0":     # a transition switched off with rate exactly 0 (first point of a parameter sweep)
        H.add_edge("I", "R", rate=0.5)
        H.add_edge("R", "S", rate=0)
        J.add_edge(("I", "S"), ("I", "I"), rate=1.0)
        J.add_edge(("R", "S"), ("R", "I"), rate=0.0)
        return H, J, ("S", "I", "R")
    if kind == "SIS":
        H.add_edge("I", "S", rate=1.0)
        J.add_edge(("I", "S"), ("I", "I"), rate=1.0)
        return H, J, ["S", "I"]
    raise KeyError(kind)


# =============================================================================
# scenarios
# =============================================================================
class Scenario(object):
    """sid: stable identifier; build(): fresh (function, kwargs) - built inside the
    worker so that every trace owns its objects."""

    def __init__(self, entry, sid, builder, det, module):
        self.entry = entry
        self.sid = sid
        self.builder = builder
        self.det = det
        self.module = module

    def build(self):
        EoN = common.import_eon()
        fn = getattr(EoN, self.entry, None)
        if fn is None:
            import importlib
            fn = getattr(importlib.import_module(self.module), self.entry)
        return fn, self.builder()


def public_entry_points():
    """{name: (module name, function)} of every public function defined in the three modules."""
    import importlib
    common.import_eon()
    out = collections.OrderedDict()
    for mname in ("EoN.simulation", "EoN.analytic", "EoN.auxiliary"):
        mod = importlib.import_module(mname)
        for n, f in sorted(inspect.getmembers(mod, inspect.isfunction)):
            if f.__module__ == mname and not n.startswith("_"):
                out[n] = (mname, f)
    return out


GENERIC_REQUIRED = {"G", "tau", "gamma", "p", "initial_infecteds"}
TMAX = 3
TCOUNT = 7


def _generic_kwargs(params, gname, ic, full, weighted, extra):
    """kwargs for an entry point whose required parameters are within GENERIC_REQUIRED."""
    def build():
        G = graph(gname)
        kw = collections.OrderedDict()
        kw["G"] = G
        if "tau" in params:
            kw["tau"] = 1.0
        if "gamma" in params:
            kw["gamma"] = 0.5
        if "p" in params:
            kw["p"] = 0.5
        inf = _first_nodes(G, 2)
        rec = _first_nodes(G, 3)[2:]
        if ic == "rho":
            if "rho" in params:
                kw["rho"] = 0.25
        elif ic == "default":
            pass
        elif ic == "overlap-list":
            # a node named in both lists (whatever the simulator makes of it, it must leave both lists alone)
            kw["initial_infecteds"] = list(inf)
            kw["initial_recovereds"] = [list(inf)[0]] + list(rec)
        elif ic.startswith("rec-"):
            ckind = ic[4:]
            kw["initial_infecteds"] = container(ckind, inf)
            if "initial_recovereds" in params:
                kw["initial_recovereds"] = container(ckind if ckind != "range" else "list", rec)
        else:
            kw["initial_infecteds"] = container(ic, inf)
        if "initial_infecteds" in params and params["initial_infecteds"].default is inspect.Parameter.empty \
                and "initial_infecteds" not in kw:
            kw["initial_infecteds"] = container("list", inf)
        if "tmax" in params:
            kw["tmax"] = TMAX
        if "tcount" in params:
            kw["tcount"] = TCOUNT
        if "number_its" in params:
            kw["number_its"] = 10
        if "return_full_data" in params:
            kw["return_full_data"] = full
        if weighted:
            if "transmission_weight" in params:
                kw["transmission_weight"] = "w"
            if "recovery_weight" in params:
                kw["recovery_weight"] = "g"
        if full and "sim_kwargs" in params:
            kw["sim_kwargs"] = {"tex": False, "color_dict": {"S": "g", "I": "r", "R": "k"}}
        if extra == "nodelist" and "nodelist" in params:
            kw["nodelist"] = list(G.nodes())
        if extra == "Y0" and "Y0" in params:
            nodes = list(G.nodes())
            kw["nodelist"] = nodes
            kw.pop("rho", None)
            kw.pop("initial_infecteds", None)
            Y0 = np.array([0.5 if u in inf else 0.0 for u in nodes])
            kw["Y0"] = Y0
            if "X0" in params:
                kw["X0"] = np.array([0.25 if u in inf else (0.5 if u in rec else 1.0) for u in nodes])
            if "XY0" in params:
                X0 = kw.get("X0", 1 - Y0)
                kw["XY0"] = np.ascontiguousarray(X0[:, None] * Y0[None, :])
                kw["XX0"] = np.ascontiguousarray(X0[:, None] * X0[None, :])
        if extra == "weights-false" and "weights" in params:
            kw["weights"] = False
        if "transmissibility" in params and extra == "T":
            kw.pop("tau", None)
            kw.pop("gamma", None)
            kw["transmissibility"] = 0.5
        if "args" in params and "test_transmission" in params:   # discrete_SIR
            kw["args"] = (0.5,)
            if extra == "callbacks":
                kw["test_transmission"] = test_transmission_p
                kw["args"] = [0.5]
                kw["test_recovery"] = test_recovery_half
        return kw
    return build


def _generic_scenarios(name, f, tier):
    params = inspect.signature(f).parameters
    has_ic = "initial_infecteds" in params
    graphs = ["P5", "K4"] if tier == "quick" else ["P5", "K4", "S6", "R1", "R2", "R3", "R4", "R5"]
    if name in SIMULATORS_ACCEPTING_DIGRAPH:
        graphs = graphs + ["D5"]
    if tier == "quick" and name in SIMULATORS_STRING_LABELS:
        graphs = graphs + ["S6"]
    ics = ["default"]
    if "rho" in params:
        ics.append("rho")
    if has_ic:
        ics += CONTAINERS
        if "initial_recovereds" in params:
            ics += ["rec-list", "rec-set", "rec-ndarray"] + (["rec-tuple", "rec-dictkeys"] if tier == "thorough" else [])
            if name in ("fast_SIR", "fast_nonMarkov_SIR", "Gillespie_SIR", "discrete_SIR", "basic_discrete_SIR", "percolation_based_discrete_SIR"):
                ics.append("overlap-list")
    if has_ic and params["initial_infecteds"].default is inspect.Parameter.empty:
        ics = [i for i in ics if i not in ("default", "rho")]
    if name in ("SIS_individual_based", "SIR_individual_based"):
        ics = ["rho", "default"]     # "default" is only used together with Y0 below (one of the two is mandatory)
    fulls = [False, True] if "return_full_data" in params else [False]
    weighteds = [False, True] if "transmission_weight" in params else [False]
    extras = [None]
    if "nodelist" in params:
        extras.append("nodelist")
    if "Y0" in params:
        extras.append("Y0")
    if "weights" in params:
        extras.append("weights-false")
    if "transmissibility" in params:
        extras.append("T")
    if "test_recovery" in params:
        extras.append("callbacks")
    out = []
    for g in graphs:
        for ic in ics:
            if ic in ("range", "rec-range") and g == "S6":
                continue   # range(...) yields integers, S6 has string labels
            for full in fulls:
                for w in weighteds:
                    for ex in extras:
                        if ex == "Y0" and ic != "default":
                            continue
                        if name in ("SIS_individual_based", "SIR_individual_based") and ic == "default" and ex != "Y0":
                            continue
                        sid = "%s/%s/ic=%s/full=%d/w=%d/%s" % (name, g, ic, full, w, ex or "-")
                        out.append((sid, _generic_kwargs(params, g, ic, full, w, ex)))
    return out


# only Gillespie_simple_contagion documents directed contact networks (explicit builder below)
SIMULATORS_ACCEPTING_DIGRAPH = set()
SIMULATORS_STRING_LABELS = {"fast_SIR", "fast_SIS", "Gillespie_SIR", "Gillespie_SIS", "discrete_SIR",
                            "basic_discrete_SIR", "basic_discrete_SIS", "percolate_network",
                            "percolation_based_discrete_SIR", "estimate_SIR_prob_size",
                            "directed_percolate_network", "get_infected_nodes",
                            "estimate_directed_SIR_prob_size", "get_Pk", "get_Pnk", "estimate_R0"}


# ---- explicit builders ---------------------------------------------------------
def _arr(a, variant):
    """Array argument variants: float64 C-order (default), int64, Fortran order, python list."""
    a = np.array(a, dtype=float)
    if variant == "int":
        return a.astype(np.int64)
    if variant == "fortran" and a.ndim == 2:
        return np.asfortranarray(a)
    if variant == "list" and a.ndim == 1:
        return a.tolist()
    return a


def _special_builders(tier):
    """{entry: [(sid suffix, builder)]} for the entry points with non-generic signatures."""
    S = collections.OrderedDict()
    graphs = ["P5", "K4"] if tier == "quick" else ["P5", "K4", "S6", "R1", "R2", "R3", "R4"]
    variants = ["float", "int"] if tier == "quick" else ["float", "int", "fortran", "list"]
    fulls = [False, True]

    def add(entry, sid, fn):
        S.setdefault(entry, []).append((sid, fn))

    def base(gname, with_rec):
        G = graph(gname)
        inf = _first_nodes(G, 1)
        rec = _first_nodes(G, 3)[2:] if with_rec else []
        return degree_data(G, inf, rec)

    def times(kw, count=True):
        kw["tmax"] = TMAX
        if count:
            kw["tcount"] = TCOUNT
        return kw

    # every direct solver: list of (parameter, key in degree_data) ------------------
    direct = {
        "SIS_homogeneous_meanfield": (["S0", "I0", "n"], False),
        "SIR_homogeneous_meanfield": (["S0", "I0", "R0", "n"], True),
        "SIS_homogeneous_pairwise": (["S0", "I0", "SI0", "SS0", "n"], False),
        "SIR_homogeneous_pairwise": (["S0", "I0", "R0", "SI0", "SS0", "n"], True),
        "SIS_heterogeneous_meanfield": (["Sk0", "Ik0"], False),
        "SIR_heterogeneous_meanfield": (["Sk0", "Ik0", "Rk0"], True),
        "SIS_heterogeneous_pairwise": (["Sk0", "Ik0", "SkSl0", "SkIl0", "IkIl0"], False),
        "SIR_heterogeneous_pairwise": (["Sk0", "Ik0", "Rk0", "SkSl0", "SkIl0"], True),
        "SIS_compact_pairwise": (["Sk0", "Ik0", "SI0", "SS0", "II0"], False),
        "SIR_compact_pairwise": (["Sk0", "I0", "R0", "SS0", "SI0"], True),
        "SIS_super_compact_pairwise": (["S0", "I0", "SS0", "SI0", "II0", "k_ave", "ksquare_ave", "kcube_ave"], False),
        "SIS_effective_degree": (["Ssi0", "Isi0"], False),
        "SIR_effective_degree": (["S_si0", "I0", "R0"], True),
        "SIS_compact_effective_degree": (["Sk0", "Ik0", "SI0", "SS0", "II0"], False),
        "SIR_compact_effective_degree": (["Skappa0", "I0", "R0", "SI0"], True),
    }
    for entry, (names, with_rec) in direct.items():
        for g in graphs:
            for var in variants:
                for full in fulls:
                    def fn(entry=entry, names=names, with_rec=with_rec, g=g, var=var, full=full):
                        d = base(g, with_rec)
                        kw = collections.OrderedDict()
                        for n in names:
                            v = d[n]
                            kw[n] = _arr(v, var) if isinstance(v, np.ndarray) else v
                        kw["tau"], kw["gamma"] = 1.0, 0.5
                        times(kw)
                        if entry not in ("SIS_homogeneous_meanfield", "SIR_homogeneous_meanfield"):
                            kw["return_full_data"] = full
                        return kw
                    if entry in ("SIS_homogeneous_meanfield", "SIR_homogeneous_meanfield") and (full or var != "float"):
                        continue
                    if not any(n in ("Sk0", "Ik0", "Rk0", "SkSl0", "SkIl0", "IkIl0", "Ssi0", "Isi0", "S_si0", "Skappa0")
                               for n in names) and var != "float":
                        continue
                    if var == "list" and entry not in ("SIS_heterogeneous_meanfield", "SIR_heterogeneous_meanfield"):
                        continue   # only these two convert their input with np.array(); the others document arrays
                    if var == "fortran" and not any(n in ("SkSl0", "SkIl0", "IkIl0", "Ssi0", "Isi0", "S_si0") for n in names):
                        continue
                    add(entry, "%s/%s/full=%d" % (g, var, full), fn)
    # Ks given explicitly (observed degrees only), as the from_graph wrappers do
    for entry, with_rec in (("SIS_heterogeneous_pairwise", False), ("SIR_heterogeneous_pairwise", True)):
        for g in graphs + ["P5i"]:
            for full in fulls:
                def fn(entry=entry, with_rec=with_rec, g=g, full=full):
                    d = base(g, with_rec)
                    Ks = np.array(sorted(d["Pk"]))
                    ix = np.ix_(Ks, Ks)
                    kw = collections.OrderedDict()
                    kw["Sk0"], kw["Ik0"] = d["Sk0"][Ks], d["Ik0"][Ks]
                    if with_rec:
                        kw["Rk0"] = d["Rk0"][Ks]
                    kw["SkSl0"] = np.ascontiguousarray(d["SkSl0"][ix])
                    kw["SkIl0"] = np.ascontiguousarray(d["SkIl0"][ix])
                    if not with_rec:
                        kw["IkIl0"] = np.ascontiguousarray(d["IkIl0"][ix])
                    kw["tau"], kw["gamma"] = 1.0, 0.5
                    times(kw)
                    kw["return_full_data"] = full
                    kw["Ks"] = Ks
                    return kw
                add(entry, "%s/Ks/full=%d" % (g, full), fn)

                def fn2(fn=fn):
                    # the degrees as a FLOAT array (np.asarray would alias it) - graphs with an isolated node put degree 0 in it
                    kw = fn()
                    kw["Ks"] = np.array(kw["Ks"], dtype=float)
                    return kw
                add(entry, "%s/Ks-float/full=%d" % (g, full), fn2)

    # SIR_super_compact_pairwise, EBCM family: PGF callables -------------------------
    for g in graphs:
        for full in fulls:
            def fn(g=g, full=full):
                d = base(g, True)
                sk = {k: d["Sk0"][k] / d["N"] for k in d["Pk"]}
                kw = collections.OrderedDict(R0=d["R0"], SS0=d["SS0"], SI0=d["SI0"], N=d["N"], tau=1.0, gamma=0.5,
                                             psihat=PGF(sk), psihatPrime=PGF(sk, 1), psihatDPrime=PGF(sk, 2))
                times(kw)
                kw["return_full_data"] = full
                return kw
            add("SIR_super_compact_pairwise", "%s/full=%d" % (g, full), fn)

            def fn(g=g, full=full):
                d = base(g, False)
                sk = {k: d["Sk0"][k] / d["N"] for k in d["Pk"]}
                kw = collections.OrderedDict(N=d["N"], psihat=PGF(sk), psihatPrime=PGF(sk, 1), tau=1.0, gamma=0.5,
                                             phiS0=0.75, phiR0=0.0, R0=0)
                times(kw)
                kw["return_full_data"] = full
                return kw
            add("EBCM", "%s/full=%d" % (g, full), fn)

            def fn(g=g, full=full):
                d = base(g, False)
                sk = {k: d["Sk0"][k] / d["N"] for k in d["Pk"]}
                kw = collections.OrderedDict(N=d["N"], psihat=PGF(sk), psihatPrime=PGF(sk, 1), p=0.5,
                                             phiS0=0.75, phiR0=0.0, R0=0)
                times(kw, count=False)
                kw["return_full_data"] = full
                return kw
            add("EBCM_discrete", "%s/full=%d" % (g, full), fn)

            def fn(g=g, full=full):
                d = base(g, False)
                kw = collections.OrderedDict(N=d["N"], psi=PGF(d["Pk"]), psiPrime=PGF(d["Pk"], 1), tau=1.0, gamma=0.5, rho=0.25)
                times(kw)
                kw["return_full_data"] = full
                return kw
            add("EBCM_uniform_introduction", "%s/full=%d" % (g, full), fn)

            def fn(g=g, full=full):
                d = base(g, False)
                kw = collections.OrderedDict(N=d["N"], psi=PGF(d["Pk"]), psiPrime=PGF(d["Pk"], 1), p=0.5, rho=0.25)
                times(kw, count=False)
                kw["return_full_data"] = full
                return kw
            add("EBCM_discrete_uniform_introduction", "%s/full=%d" % (g, full), fn)

            for pnk in ("dict", "defaultdict"):
                def mk(d, pnk=pnk):
                    if pnk == "dict":
                        return {k1: dict(r) for k1, r in d["Pnk"].items()}
                    out = {}
                    for k1, r in d["Pnk"].items():
                        out[k1] = collections.defaultdict(int)
                        out[k1].update(r)
                    return out

                def fn(g=g, full=full, mk=mk):
                    d = base(g, False)
                    kw = collections.OrderedDict(N=d["N"], Pk=dict(d["Pk"]), Pnk=mk(d), tau=1.0, gamma=0.5, rho=0.25)
                    times(kw)
                    kw["return_full_data"] = full
                    return kw
                add("EBCM_pref_mix", "%s/Pnk=%s/full=%d" % (g, pnk, full), fn)

                def fn(g=g, full=full, mk=mk):
                    d = base(g, False)
                    kw = collections.OrderedDict(N=d["N"], Pk=dict(d["Pk"]), Pnk=mk(d), p=0.5, rho=0.25)
                    times(kw, count=False)
                    kw["return_full_data"] = full
                    return kw
                add("EBCM_pref_mix_discrete", "%s/Pnk=%s/full=%d" % (g, pnk, full), fn)

    # helpers taking Pk -----------------------------------------------------------------
    for g in graphs:
        for kind in ("dict", "Counter-like-ordered", "defaultdict"):
            def pk(g=g, kind=kind):
                d = base(g, False)["Pk"]
                if kind == "dict":
                    return dict(d)
                if kind == "defaultdict":
                    out = collections.defaultdict(float)
                    out.update(d)
                    return out
                return collections.OrderedDict(sorted(d.items(), reverse=True))
            for entry in ("get_PGF", "get_PGFPrime", "get_PGFDPrime"):
                add(entry, "%s/Pk=%s" % (g, kind), lambda pk=pk: collections.OrderedDict(Pk=pk()))
            add("Epi_Prob_discrete", "%s/Pk=%s" % (g, kind), lambda pk=pk: collections.OrderedDict(Pk=pk(), p=0.5, number_its=10))
            add("Epi_Prob_cts_time", "%s/Pk=%s" % (g, kind),
                lambda pk=pk: collections.OrderedDict(Pk=pk(), tau=1.0, gamma=0.5, umax=4, ucount=9, number_its=5))
            add("Attack_rate_discrete", "%s/Pk=%s/rho" % (g, kind),
                lambda pk=pk: collections.OrderedDict(Pk=pk(), p=0.5, rho=0.25, number_its=10))
            add("Attack_rate_discrete", "%s/Pk=%s/Sk0" % (g, kind),
                lambda pk=pk: collections.OrderedDict(Pk=pk(), p=0.5, Sk0={k: 0.75 for k in pk()}, phiS0=0.75, phiR0=0.0, number_its=10))
            add("Attack_rate_discrete", "%s/Pk=%s/plain" % (g, kind),
                lambda pk=pk: collections.OrderedDict(Pk=pk(), p=0.5, number_its=10))
            add("Attack_rate_cts_time", "%s/Pk=%s/rho" % (g, kind),
                lambda pk=pk: collections.OrderedDict(Pk=pk(), tau=1.0, gamma=0.5, rho=0.25, number_its=10))
            add("Attack_rate_cts_time", "%s/Pk=%s/Sk0" % (g, kind),
                lambda pk=pk: collections.OrderedDict(Pk=pk(), tau=1.0, gamma=0.5, Sk0={k: 0.75 for k in pk()}, phiS0=0.75, number_its=10))
            add("Epi_Prob_non_Markovian", "%s/Pk=%s" % (g, kind),
                lambda pk=pk: collections.OrderedDict(Pk=pk(), Pxidxi={0.25: 0.5, 0.75: 0.5}, po=PGF({1: 1.0}), number_its=5))
            add("Attack_rate_non_Markovian", "%s/Pk=%s" % (g, kind),
                lambda pk=pk: collections.OrderedDict(Pk=pk(), Pzetadzeta={0.25: 0.5, 0.75: 0.5}, pi=PGF({1: 1.0}), number_its=5))

    # subsample / get_time_shift / hierarchy_pos ------------------------------------------
    for kind in ("ndarray", "list", "int-ndarray"):
        def ts(kind=kind):
            t = [0.0, 0.5, 1.25, 2.0, 3.5]
            rep = [0.0, 1.0, 2.0, 3.0, 4.0]
            s1, s2, s3 = [5, 4, 3, 3, 2], [1, 2, 2, 1, 1], [0, 0, 1, 2, 3]
            if kind == "list":
                return rep, t, s1, s2, s3
            if kind == "int-ndarray":
                return np.array(rep), np.array(t), np.array(s1), np.array(s2), np.array(s3)
            return np.array(rep), np.array(t), np.array(s1, float), np.array(s2, float), np.array(s3, float)
        for nser in (1, 2, 3):
            def fn(ts=ts, nser=nser):
                rep, t, s1, s2, s3 = ts()
                kw = collections.OrderedDict(report_times=rep, times=t, status1=s1)
                if nser >= 2:
                    kw["status2"] = s2
                if nser >= 3:
                    kw["status3"] = s3
                return kw
            add("subsample", "%s/series=%d" % (kind, nser), fn)

        def fn(ts=ts):
            rep, t, s1, s2, s3 = ts()
            return collections.OrderedDict(times=t, L=s3, threshold=1)
        add("get_time_shift", kind, fn)
    for root in (None, 0, 2):
        def fn(root=root):
            T = nx.Graph(name="tree")
            for u in [2, 0, 1, 4, 3, 5]:
                T.add_node(u, tag="t%d" % u)
            T.add_edges_from([(0, 1), (0, 2), (1, 3), (1, 4), (2, 5)], w=1.0)
            kw = collections.OrderedDict(G=T)
            if root is not None:
                kw["root"] = root
            return kw
        add("hierarchy_pos", "root=%r" % (root,), fn)

    # non-Markovian simulators and percolation -----------------------------------------
    sgraphs = graphs + ["D5"]
    for g in graphs:
        for mode in ("sep-const", "sep-table", "joint"):
            for ic in ["default", "rho", "list", "set", "ndarray", "rec-list"]:
                for full in fulls:
                    for entry in ("fast_nonMarkov_SIR", "fast_nonMarkov_SIS"):
                        if entry.endswith("SIS") and ic == "rec-list":
                            continue

                        def fn(g=g, mode=mode, ic=ic, full=full, entry=entry):
                            G = graph(g)
                            kw = collections.OrderedDict(G=G)
                            sis = entry.endswith("SIS")
                            if mode == "sep-const":
                                kw.update(trans_time_fxn=sis_trans_times_const if sis else trans_time_const,
                                          rec_time_fxn=rec_time_const,
                                          trans_time_args=(1.0,), rec_time_args=(0.5,))
                            elif mode == "sep-table":
                                kw.update(trans_time_fxn=sis_trans_times_table if sis else trans_time_table,
                                          rec_time_fxn=rec_time_table,
                                          trans_time_args=[{u: 1.0 for u in G}], rec_time_args=[{u: 0.5 for u in G}])
                            else:
                                kw.update(trans_and_rec_time_fxn=trans_and_rec_sir if entry.endswith("SIR") else trans_and_rec_sis,
                                          trans_and_rec_time_args=(1.0, 0.5))
                            inf = _first_nodes(G, 2)
                            if ic == "rho":
                                kw["rho"] = 0.25
                            elif ic == "rec-list":
                                kw["initial_infecteds"] = list(inf)
                                kw["initial_recovereds"] = _first_nodes(G, 3)[2:]
                            elif ic != "default":
                                kw["initial_infecteds"] = container(ic, inf)
                            kw["tmax"] = TMAX
                            kw["return_full_data"] = full
                            if full:
                                kw["sim_kwargs"] = {"tex": False}
                            return kw
                        add(entry, "%s/%s/ic=%s/full=%d" % (g, mode, ic, full), fn)
        for mode in ("sep-const", "sep-table"):
            for entry in ("estimate_nonMarkov_SIR_prob_size_with_timing", "nonMarkov_directed_percolate_network_with_timing"):
                for wts in ((True, False) if entry.startswith("nonMarkov") else (None,)):
                    def fn(g=g, mode=mode, wts=wts):
                        G = graph(g)
                        kw = collections.OrderedDict(G=G)
                        if mode == "sep-const":
                            kw.update(trans_time_fxn=trans_time_const, rec_time_fxn=rec_time_const,
                                      trans_time_args=(1.0,), rec_time_args=(0.5,))
                        else:
                            kw.update(trans_time_fxn=trans_time_table, rec_time_fxn=rec_time_table,
                                      trans_time_args=[{u: 1.0 for u in G}], rec_time_args=[{u: 0.5 for u in G}])
                        if wts is not None:
                            kw["weights"] = wts
                        return kw
                    add(entry, "%s/%s/weights=%s" % (g, mode, wts), fn)
        for kind in ("dict", "defaultdict"):
            for entry in ("estimate_nonMarkov_SIR_prob_size", "nonMarkov_directed_percolate_network"):
                def fn(g=g, kind=kind):
                    G = graph(g)
                    vals = [0.25, 0.5, 0.75, 1.0]
                    xi = {u: vals[i % 4] for i, u in enumerate(sorted(G, key=repr))}
                    zeta = {u: vals[(i + 1) % 4] for i, u in enumerate(sorted(G, key=repr))}
                    if kind == "defaultdict":
                        a, b = collections.defaultdict(lambda: 0.5), collections.defaultdict(lambda: 0.5)
                        a.update(list(xi.items())[:2])
                        b.update(list(zeta.items())[:2])
                        xi, zeta = a, b
                    return collections.OrderedDict(G=G, xi=xi, zeta=zeta, transmission=transmission_threshold)
                add(entry, "%s/%s" % (g, kind), fn)

        def fn(g=g):
            G = graph(g)
            H = nx.DiGraph(name="percolated")
            for u in G:
                H.add_node(u, duration=1.0)
            for i, (u, v) in enumerate(G.edges()):
                H.add_edge(u, v, delay_to_infection=0.5)
                if i % 2 == 0:
                    H.add_edge(v, u, delay_to_infection=0.25)
            return collections.OrderedDict(H=H)
        add("estimate_SIR_prob_size_from_dir_perc", g, fn)

    # contagion simulators -----------------------------------------------------------------
    for g in sgraphs:
        for model in ("SIR", "SIRw", "SEIRf", "SIS", "SIRS0"):
            for ickind in ("dict", "defaultdict"):
                for full in fulls:
                    for entry in ("Gillespie_simple_contagion", "Gillespie_Arbitrary"):
                        if entry == "Gillespie_Arbitrary" and (model not in ("SIR", "SIRw") or ickind != "dict"):
                            continue

                        def fn(g=g, model=model, ickind=ickind, full=full, entry=entry):
                            G = graph(g)
                            H, J, statuses = model_graphs(model)
                            inf = set(_first_nodes(G, 2))
                            if ickind == "dict":
                                IC = {u: ("I" if u in inf else "S") for u in G}
                            else:
                                IC = collections.defaultdict(lambda: "S")
                                for u in inf:
                                    IC[u] = "I"
                                if model in ("SIS", "SIRS0"):
                                    # an initial condition prepared for a larger population: more keys than G has nodes,
                                    # yet some nodes of G are left to the default
                                    for extra in range(G.order() + 3):
                                        IC[("elsewhere", extra)] = "S"
                            kw = collections.OrderedDict(G=G, spontaneous_transition_graph=H, nbr_induced_transition_graph=J,
                                                         IC=IC, return_statuses=statuses, tmax=TMAX)
                            if model == "SEIRf":
                                kw["spont_kwargs"] = {"scale": 1.0}
                                kw["nbr_kwargs"] = {"scale": 0.5}
                            kw["return_full_data"] = full
                            if entry == "Gillespie_Arbitrary":
                                kw["sim_kwargs"] = {}
                            elif full:
                                kw["sim_kwargs"] = {"tex": False}
                            return kw
                        add(entry, "%s/%s/IC=%s/full=%d" % (g, model, ickind, full), fn)
        if g != "D5":
            for ickind in ("dict", "defaultdict"):
                for par in ("tuple", "list"):
                    for full in fulls:
                        def fn(g=g, ickind=ickind, par=par, full=full):
                            G = graph(g)
                            inf = set(_first_nodes(G, 2))
                            if ickind == "dict":
                                IC = {u: ("I" if u in inf else "S") for u in G}
                            else:
                                IC = collections.defaultdict(lambda: "S")
                                for u in inf:
                                    IC[u] = "I"
                            kw = collections.OrderedDict(G=G, rate_function=cc_rate, transition_choice=cc_choice,
                                                         get_influence_set=cc_influence, IC=IC,
                                                         return_statuses=["S", "I"], tmax=TMAX,
                                                         parameters=(1, 1.0) if par == "tuple" else [1, 1.0],
                                                         return_full_data=full)
                            if full:
                                kw["sim_kwargs"] = {"tex": False}
                            return kw
                        add("Gillespie_complex_contagion", "%s/IC=%s/par=%s/full=%d" % (g, ickind, par, full), fn)
    return S


def scenario_table(tier):
    """(scenarios, uncovered): every public entry point with its scenarios; uncovered lists
    the public functions for which no builder exists (reported, never silently dropped)."""
    eps = public_entry_points()
    special = _special_builders(tier)
    out, uncovered = [], []
    for name, (mname, f) in eps.items():
        det = mname in ("EoN.analytic", "EoN.auxiliary")
        params = inspect.signature(f).parameters
        required = {p for p, v in params.items() if v.default is inspect.Parameter.empty}
        rows = []
        if name in special:
            rows = [("%s/%s" % (name, sid), b) for sid, b in special[name]]
        elif "G" in required and required <= GENERIC_REQUIRED:
            rows = _generic_scenarios(name, f, tier)
        if not rows:
            uncovered.append(name)
        for sid, b in rows:
            out.append(Scenario(name, sid, b, det, mname))
    missing = [n for n in special if n not in eps]
    return out, uncovered, missing


# =============================================================================
# 3. the recorder
# =============================================================================
def project_result(entry, res):
    """API-observable projection of a returned value.  Callables returned by the PGF
    helpers are observed by evaluating them on dyadic points."""
    if callable(res) and not isinstance(res, (nx.Graph,)):
        pts = [0.25, 0.5, 0.75, 1.0]
        vals = []
        for x in pts:
            try:
                vals.append(snapshot(res(x)))
            except Exception as ex:
                vals.append(_atom("raises", type(ex).__name__))
        return {"k": "seq", "t": "evaluated-callable", "items": vals}
    return snapshot(res)


def _seed(s):
    random.seed(s)
    np.random.seed(s)


class CallTimeout(BaseException):
    """a call did not finish within CALL_TIMEOUT seconds (BaseException: must not be swallowed by
    an `except Exception` of the code under test); the check turns it into exit 2"""


CALL_TIMEOUT = 60


def _alarm(signum, frame):
    raise CallTimeout()


def _scribble(r, keep, depth=0):
    """overwrite the mutable containers of a returned value in place (dicts, lists, arrays, networkx graphs)"""
    if id(r) in keep or depth > 3:
        return
    try:
        import networkx as nx
        if isinstance(r, np.ndarray):
            if r.flags.writeable and r.size:
                r[...] = (-777 if r.dtype.kind in "iuf" else r.flat[0])
        elif isinstance(r, dict):
            for v in list(r.values()):
                _scribble(v, keep, depth + 1)
            r.clear()
            r["<overwritten by the caller>"] = 1
        elif isinstance(r, list):
            for v in r:
                _scribble(v, keep, depth + 1)
            del r[:]
        elif isinstance(r, tuple):
            for v in r:
                _scribble(v, keep, depth + 1)
        elif isinstance(r, (nx.Graph, nx.DiGraph)):
            r.clear()
    except Exception:
        pass


def record(scn, seed=12345):
    """Runs one scenario and returns the trace material:
      fp[0..2]   {arg: fingerprint} before, after call 1, after call 2
      res[0..1]  fingerprint of the projected result or RAISED
      exc[0..1]  None or "Type: message"
      diffs[r]   {arg: [(kind, path, detail)]} for the args whose fingerprint changed in call r
      resdiff    description of how the two results differ (or None)
    """
    import time
    t0 = time.time()
    out = {"entry": scn.entry, "sid": scn.sid, "det": scn.det}
    try:
        fn, kw = scn.build()
    except Exception as ex:
        out["build_error"] = "%s: %s" % (type(ex).__name__, ex)
        return out
    names = list(kw)
    out["args"] = names
    out["arg_render"] = {n: render(snapshot(kw[n]), 120) for n in names}
    snaps = [{n: snapshot(kw[n]) for n in names}]
    fps = [{n: fingerprint(snaps[0][n]) for n in names}]
    res, exc, rtrees = [], [], []
    import signal
    for call in (0, 1):
        _seed(seed)
        old_handler = signal.signal(signal.SIGALRM, _alarm)
        signal.alarm(CALL_TIMEOUT)
        try:
            with contextlib.redirect_stdout(io.StringIO()):   # deprecation chatter of Gillespie_Arbitrary etc.
                r = fn(**kw)
            tree = project_result(scn.entry, r)
            rtrees.append(tree)
            res.append(fingerprint(tree))
            exc.append(None)
            if call == 0:
                # the caller owns what it is handed: it may overwrite the containers of the result; the repeated call
                # must not be served from them (objects that ARE arguments of the call are left alone)
                _scribble(r, {id(v) for v in kw.values()} | {id(x) for v in kw.values() if isinstance(v, (list, tuple, dict)) for x in (v.values() if isinstance(v, dict) else v)})
        except CallTimeout:
            out["timeout"] = "call #%d did not finish within %d s" % (call + 1, CALL_TIMEOUT)
            return out
        except Exception as ex:
            rtrees.append(None)
            res.append(RAISED)
            exc.append("%s: %s" % (type(ex).__name__, str(ex)[:200]))
        finally:
            signal.alarm(0)
            signal.signal(signal.SIGALRM, old_handler)
        s = {n: snapshot(kw[n]) for n in names}
        snaps.append(s)
        fps.append({n: fingerprint(s[n]) for n in names})
        if call == 0 and res[0] == RAISED:
            break
    out["fp"], out["res"], out["exc"] = fps, res, exc
    out["diffs"] = []
    for r in range(1, len(snaps)):
        out["diffs"].append({n: diff(snaps[r - 1][n], snaps[r][n], n) for n in names if fps[r - 1][n] != fps[r][n]})
    out["resdiff"] = None
    if len(res) == 2 and res[0] != RAISED and res[1] != RAISED and res[0] != res[1]:
        dd = diff(rtrees[0], rtrees[1], "result")
        out["resdiff"] = [list(x) for x in dd[:4]]
    out["result_render"] = render(rtrees[0], 200) if rtrees and rtrees[0] is not None else None
    out["wall"] = round(time.time() - t0, 3)
    return out


# scenarios hold closures (not picklable): fork-based workers look them up by index
_TABLE = []


def set_table(scns):
    global _TABLE
    _TABLE = list(scns)


def record_at(i):
    return record(_TABLE[i])

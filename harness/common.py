"""Shared plumbing of the checks: tier/seed, verdict bookkeeping against the
committed known-findings file, replay files, evidence writer, process pool."""
import hashlib
import json
import os
import sys
import time
import traceback
import warnings

warnings.filterwarnings("ignore")

VERIF = os.path.dirname(os.path.dirname(os.path.abspath(__file__)))
REPO = os.environ.get("EON_VERIF_REPO", "/repo")
if REPO not in sys.path:
    sys.path.insert(0, REPO)
if VERIF not in sys.path:
    sys.path.insert(0, VERIF)

RATE_UNIT = 0.5  # one rate numerator of the specifications = 0.5 per unit time


def import_eon():
    import EoN
    here = os.path.realpath(EoN.__file__)
    if not here.startswith(os.path.realpath(REPO) + os.sep):
        print("MACHINERY: EoN imported from %s, not from %s" % (here, REPO))
        sys.exit(2)
    return EoN


class MachineryFailure(Exception):
    pass


def load_known():
    p = os.path.join(VERIF, "known_findings.json")
    if not os.path.exists(p):
        return []
    with open(p) as fh:
        return json.load(fh).get("findings", [])


class Check(object):
    def __init__(self, pid, level, tier=None, seed=None):
        self.pid = pid
        self.level = level
        self.tier = tier or os.environ.get("VERIF_TIER") or "quick"
        if self.tier not in ("quick", "thorough"):
            self.tier = "quick"
        s = seed if seed is not None else os.environ.get("VERIF_SEED", "0")
        try:
            self.seed = int(s)
        except ValueError:
            self.seed = 0
        self.t0 = time.time()
        self.known = [k for k in load_known() if k.get("property") == pid and k.get("status") == "open"]
        self.known_hit = {}
        self.violations = []
        self.notes = []
        self.cov = {"states": 0, "transitions": 0, "traces_validated_against_impl": 0,
                    "evaluations": 0, "distinct_nontrivial": 0, "samples": [],
                    "tlc_runs": [], "parts": {}}
        self.assumptions = []
        self._seen_keys = set()

    # -- verdicts ---------------------------------------------------------------
    def violation(self, key, what, replay):
        """key: stable classification of the failure (entry point | failure class |
        input class).  A key listed in known_findings.json is printed as a
        KNOWN-FINDING and does not fail the check."""
        for k in self.known:
            if k["key"] == key:
                self.known_hit.setdefault(key, [k, 0])[1] += 1
                return False
        if key in self._seen_keys:
            # same class already reported in this run: count, do not flood
            for v in self.violations:
                if v["key"] == key:
                    v["count"] += 1
            return True
        self._seen_keys.add(key)
        rp = self.write_replay(key, what, replay)
        self.violations.append({"key": key, "what": what, "replay": rp, "count": 1})
        print("VIOLATION property=%s replay=%s" % (self.pid, rp))
        print("  key: %s" % key)
        print("  what: %s" % what)
        sys.stdout.flush()
        return True

    def write_replay(self, key, what, replay):
        d = os.environ.get("EON_VERIF_REPLAY_DIR") or os.path.join(VERIF, "replays")
        os.makedirs(d, exist_ok=True)
        h = hashlib.sha1((self.pid + key).encode()).hexdigest()[:12]
        p = os.path.join(d, "%s_%s.json" % (self.pid, h))
        with open(p, "w") as fh:
            json.dump({"property": self.pid, "key": key, "what": what, "replay": replay},
                      fh, indent=1, default=_jd)
        return p

    def note(self, msg):
        if msg not in self.notes:
            self.notes.append(msg)
            print("NOTE: %s" % msg)

    def add_tlc(self, name, res):
        self.cov["states"] += res.distinct
        self.cov["transitions"] += res.generated
        self.cov["tlc_runs"].append({"spec": name, "distinct_states": res.distinct,
                                     "states_generated": res.generated, "wall_s": round(res.wall, 1),
                                     "coverage": {k: list(v) for k, v in res.coverage.items()}})

    def sample(self, obj, cap=6):
        if len(self.cov["samples"]) < cap:
            self.cov["samples"].append(obj)

    def part(self, name, **kw):
        d = self.cov["parts"].setdefault(name, {})
        for k, v in kw.items():
            if isinstance(v, (int, float)) and not isinstance(v, bool):
                d[k] = d.get(k, 0) + v
            else:
                d[k] = v

    # -- finishing -------------------------------------------------------------
    def finish(self, rule, exhaustive=False, explanation=None):
        for key, (k, n) in sorted(self.known_hit.items()):
            print("KNOWN-FINDING: property=%s %s [%s; %d occurrence(s) in this run]"
                  % (self.pid, k["what"], key, n))
        cov = self.cov
        cov["rule"] = rule
        cov["exhaustive"] = bool(exhaustive)
        if explanation:
            cov["explanation"] = explanation
        cov["known_findings_seen"] = sorted(self.known_hit)
        cov["notes"] = self.notes[:50]
        if not cov["samples"]:
            cov["samples"] = ["(no sample recorded)"]
        ev = {"property_id": self.pid, "tier": self.tier, "seed": self.seed, "level": self.level,
              "coverage": cov, "assumptions": self.assumptions,
              "wall_s": round(time.time() - self.t0, 2), "violations": len(self.violations)}
        # runs against a scratch copy of the repository (mutation campaigns) must not overwrite the evidence of /repo
        # extra-coverage checks (ids X..) are not listed properties: their evidence is kept apart
        d = os.environ.get("EON_VERIF_EVIDENCE_DIR") or os.path.join(VERIF, "evidence_extra" if self.pid.startswith("X") else "evidence")
        os.makedirs(d, exist_ok=True)
        with open(os.path.join(d, "%s.json" % self.pid), "w") as fh:
            json.dump(ev, fh, indent=1, default=_jd)
        print("%s tier=%s: %d evaluations, %d distinct non-trivial, %d TLC states, %d traces/paths bound to the code, "
              "%d violation class(es), %d known finding(s), %.1fs"
              % (self.pid, self.tier, cov["evaluations"], cov["distinct_nontrivial"], cov["states"],
                 cov["traces_validated_against_impl"], len(self.violations), len(self.known_hit),
                 time.time() - self.t0))
        sys.stdout.flush()
        return 1 if self.violations else 0


def _jd(o):
    import numpy as np
    if isinstance(o, (np.integer,)):
        return int(o)
    if isinstance(o, (np.floating,)):
        return float(o)
    if isinstance(o, np.ndarray):
        return o.tolist()
    if isinstance(o, (set, frozenset)):
        return sorted(o, key=repr)
    if isinstance(o, tuple):
        return list(o)
    if isinstance(o, BaseException):
        return repr(o)
    return repr(o)


def _limit_worker_memory():
    """A code change can make a simulator run for ever and grow without bound (e.g. a node that never recovers under an
    unbounded horizon): a worker is limited to WORKER_MEM_GB of address space, so that it fails with MemoryError - which
    the caller reports - instead of taking the machine down."""
    try:
        import resource
        lim = int(float(os.environ.get("EON_VERIF_WORKER_MEM_GB", "6")) * 2 ** 30)
        resource.setrlimit(resource.RLIMIT_AS, (lim, lim))
    except Exception:
        pass


def pool_map(fn, items, procs=None, chunksize=None):
    """Ordered parallel map with fork (workers inherit loaded spec graphs)."""
    import multiprocessing as mp
    items = list(items)
    if not items:
        return []
    procs = procs or min(16, os.cpu_count() or 1)
    if procs <= 1 or len(items) < 4:
        return [fn(x) for x in items]
    ctx = mp.get_context("fork")
    if chunksize is None:
        chunksize = max(1, len(items) // (procs * 8))
    with ctx.Pool(procs, initializer=_limit_worker_memory) as pool:
        return pool.map(fn, items, chunksize=chunksize)


_POOL_FN = None
_POOL_STOP = None


def _pool_guarded(pair):
    if _POOL_STOP is not None and _POOL_STOP.is_set():
        return pair[0], None
    return pair[0], _POOL_FN(pair[1])


def pool_run(fn, items, is_bad, stop_after=25, procs=None, is_settled=None, settled_after=240):
    """Unordered fork-based parallel map that stops evaluating once `stop_after`
    results are bad (a broken tree can make every scenario slow; one report per
    class is enough).  The stop is cooperative (a fork-inherited Event turns the
    remaining tasks into no-ops and the iterator is drained): terminating a pool
    whose workers are mid-send can deadlock.  Returns [(item, result)] of the
    items actually evaluated."""
    import multiprocessing as mp
    global _POOL_FN, _POOL_STOP
    items = list(items)
    procs = procs or min(16, os.cpu_count() or 1)
    out = []
    bad = 0
    nset = 0        # scenarios that had to be decided with the real random source (slow): a sample of them is enough
    if procs <= 1 or len(items) < 4:
        for it in items:
            r = fn(it)
            out.append((it, r))
            bad += 1 if is_bad(r) else 0
            nset += 1 if (is_settled is not None and is_settled(r)) else 0
            if bad >= stop_after or nset >= settled_after:
                break
        return out
    ctx = mp.get_context("fork")
    _POOL_FN = fn
    _POOL_STOP = ctx.Event()
    chunksize = max(1, min(64, len(items) // (procs * 16)))
    pool = ctx.Pool(procs, initializer=_limit_worker_memory)
    try:
        for i, r in pool.imap_unordered(_pool_guarded, list(enumerate(items)), chunksize=chunksize):
            if r is None:
                continue
            out.append((items[i], r))
            if is_bad(r):
                bad += 1
                if bad >= stop_after:
                    _POOL_STOP.set()
            if is_settled is not None and is_settled(r):
                nset += 1
                if nset >= settled_after:
                    _POOL_STOP.set()
        pool.close()
        pool.join()
    except BaseException:
        pool.terminate()
        raise
    return out


def run_main(main):
    try:
        rc = main()
    except SystemExit:
        raise
    except Exception:
        traceback.print_exc()
        print("MACHINERY FAILURE (exit 2): the check itself failed; no verdict")
        sys.exit(2)
    sys.exit(rc)


def report_settled(chk, results):
    """notes for scenarios whose exact-stage verdict had to be settled with the real random source (harness/confirm.py)"""
    st = [r["settled"] for r in results if r.get("settled")]
    if not st:
        return
    unm = [x for x in st if x["unmodelled"]]
    dis = [x for x in st if x["exact_stage"] and not x["confirmed"]]
    con = [x for x in st if x["confirmed"]]
    runs = sum(x["runs"] for x in st)
    chk.cov["evaluations"] += runs
    chk.part("scenarios settled with the real random source", scenarios=len(st), seeded_runs=runs, statistical_tests=sum(x["tests"] for x in st))
    if unm:
        chk.note("the scripted random source cannot follow the implementation in %d scenario(s) (%s): the exact decision-tree comparison is not applicable there; "
                 "those scenarios were decided by %d seeded runs each with the real random source, arranged by event history and compared with the chain "
                 "(structure exactly, next-event frequencies and clock rate statistically at 1e-9); %d of them showed a violation"
                 % (len(unm), unm[0]["unmodelled"], unm[0]["runs"], len([x for x in unm if x["confirmed"]])))
    if dis:
        chk.note("in %d scenario(s) the exact stage reported %s (e.g. %s) but %d seeded runs each with the real random source agree with the chain at every observed history: "
                 "the exact stage's model of how random numbers are consumed does not fit this implementation; nothing is reported for them"
                 % (len(dis), ", ".join(sorted({k for x in dis for k in x["exact_stage"]})), (dis[0]["example"] or "")[:200], dis[0]["runs"]))
    if con:
        chk.note("%d scenario(s): exact-stage findings confirmed with the real random source" % len(con))


def prime_same_object(G, fn):
    """`fn(G)` is called once while the SAME networkx graph object temporarily has another structure with the same
    numbers of nodes and edges (one edge moved); the structure is then restored in place.  Anything an implementation
    remembers per graph object (a cache validated by object identity or by node/edge counts) is stale afterwards.
    Returns True if the priming call was made.  The adjacency ORDER of the moved edge's endpoints may change."""
    try:
        nodes = list(G.nodes())
        edges = list(G.edges(data=True))
        if len(nodes) < 3 or not edges:
            return False
        present = set()
        for (a, b, d) in edges:
            present.add((a, b))
            if not G.is_directed():
                present.add((b, a))
        free = [(c, d) for c in nodes for d in nodes if c != d and (c, d) not in present]
        if not free:
            return False
        a, b, data = edges[0]
        c, d = free[len(free) // 2]
        G.remove_edge(a, b)
        G.add_edge(c, d, **dict(data))
        try:
            fn(G)
        except Exception:
            pass
        G.remove_edge(c, d)
        G.add_edge(a, b, **dict(data))
        return True
    except Exception:
        return False


def prime_other_weights(G, fn, edge_attr="w", node_attr="g"):
    """`fn(G)` is called once while the SAME graph object temporarily carries other weights (every edge / node weight
    x -> 2x+1, edited in place); the weights are then restored in place.  Anything an implementation remembers about the
    weights of a graph object (a cache keyed by the object, its nodes and the attribute name) is stale afterwards.
    The module-level random state is left as it was."""
    import random
    st = random.getstate()
    try:
        old_e = {}
        for a, b, d in G.edges(data=True):
            if edge_attr in d:
                old_e[(a, b)] = d[edge_attr]
                d[edge_attr] = 2 * d[edge_attr] + 1
        old_n = {}
        for u, d in G.nodes(data=True):
            if node_attr in d:
                old_n[u] = d[node_attr]
                d[node_attr] = 2 * d[node_attr] + 1
        try:
            fn(G)
        except Exception:
            pass
        for (a, b), x in old_e.items():
            G.edges[a, b][edge_attr] = x
        for u, x in old_n.items():
            G.nodes[u][node_attr] = x
        return True
    finally:
        random.setstate(st)

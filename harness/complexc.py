"""Scenarios and replay for Gillespie_complex_contagion (C15)."""
import itertools
import random as pyrandom

from .common import RATE_UNIT
from . import observe, walk
from .scripted import run_scripted

SG = {}
SCN = []


def rule(frm, cnt, to, dist=1, thr=0, base=0, coef=0, alt=None, altif="-"):
    return {"from": frm, "cnt": cnt, "dist": dist, "thr": thr, "base": base, "coef": coef, "to": to,
            "alt": alt if alt is not None else to, "altif": altif}


def _by(sts, infl):
    return infl if isinstance(infl, list) else [infl] * len(sts)


MODELS = {
    "threshold2": (["S", "I"], [rule("S", "I", "I", thr=2, base=2)], 1),
    "threshold1-recover": (["S", "I"], [rule("S", "I", "I", thr=1, base=1), rule("I", "I", "S", base=1)], 1),
    "SIR": (["S", "I", "R"], [rule("S", "I", "I", thr=1, coef=2), rule("I", "I", "R", base=1)], 1),
    "cyclic": (["A", "B", "C"], [rule("A", "B", "B", base=1, coef=1), rule("B", "C", "C", base=0, coef=2), rule("C", "A", "A", base=1)], 1),
    "distance2": (["S", "I"], [rule("S", "I", "I", dist=2, thr=1, coef=1), rule("I", "S", "S", dist=2, base=1, coef=1)], 2),
    # the chooser may answer the current status (a failed attempt): still an event with its own waiting time
    "null-moves": (["S", "I", "V"], [rule("S", "I", "I", thr=1, base=1, coef=1, alt="S", altif="V"), rule("I", "I", "S", base=1),
                                     rule("V", "I", "S", thr=1, coef=1)], 1),
    # SIRS whose influence set depends on the status the node has just taken: a node that became S influences nobody
    "sirs-status-influence": (["S", "I", "R"], [rule("S", "I", "I", thr=1, coef=2), rule("I", "I", "R", base=1), rule("R", "I", "S", base=1)], [0, 1, 1]),
    # population-wide (mean-field) influence: the rate counts the I's in the whole status dict the function is handed (dist 9 = everyone)
    "global-pressure": (["S", "I"], [rule("S", "I", "I", dist=9, thr=1, coef=1), rule("I", "S", "S", dist=9, base=1)], 9),
    "global-threshold-sirs": (["S", "I", "R"], [rule("S", "I", "I", dist=9, thr=2, base=1, coef=1), rule("I", "I", "R", base=1),
                                                rule("R", "S", "S", dist=9, thr=1, coef=1)], 9),
    "chooser": (["S", "I", "V"], [rule("S", "I", "I", thr=1, coef=1, base=1, alt="V", altif="V"), rule("I", "I", "S", base=1), rule("V", "I", "S", thr=1, coef=1)], 1),
}


def graphs(n):
    pairs = [(u, v) for u in range(n) for v in range(u + 1, n)]
    out = []
    for bits in itertools.product((0, 1), repeat=len(pairs)):
        adj = [[0] * n for _ in range(n)]
        for (u, v), b in zip(pairs, bits):
            if b:
                adj[u][v] = adj[v][u] = 1
        out.append(adj)
    return out


def make_scenarios(tier, seed):
    rng = pyrandom.Random(seed + 77)
    scn = []
    g3 = graphs(3)
    g4 = graphs(4)
    for name, (sts, rules, infl) in MODELS.items():
        gs = g3 + (rng.sample(g4, 6) if tier == "quick" else g4)
        for adj in gs:
            scn.append({"model": name, "n": len(adj), "statuses": sts, "adj": adj, "rules": rules, "inflby": _by(sts, infl), "small": 0})
    return scn


def control_scenarios():
    """distance-2 model with an influence set of radius 1: rates go stale"""
    sts, rules, infl = MODELS["distance2"]
    path = [[0, 1, 0], [1, 0, 1], [0, 1, 0]]
    return [{"model": "distance2-small-influence", "n": 3, "statuses": sts, "adj": path, "rules": rules, "inflby": _by(sts, 1), "small": 1}]


def within(scn, u, d):
    n = scn["n"]
    a = scn["adj"]
    if d == 9:
        return set(range(1, n + 1)) - {u}
    one = {v for v in range(1, n + 1) if a[u - 1][v - 1]}
    if d == 1:
        return one
    two = set(one)
    for x in one:
        two |= {v for v in range(1, n + 1) if a[x - 1][v - 1]}
    two.discard(u)
    return two


def callbacks(scn, log, infl_kind="set", unit=RATE_UNIT):
    rules = {r["from"]: r for r in scn["rules"]}

    def rate_function(G, node, status, parameters):
        log.append(("rate", node))
        r = rules.get(status[node])
        if r is None:
            return 0
        if r["dist"] == 9:
            # a long-range model reads the population off the status dict itself
            k = sum(1 for v in status if v != node and status[v] == r["cnt"])
        else:
            k = sum(1 for v in within(scn, node, r["dist"]) if status[v] == r["cnt"])
        return (r["base"] + r["coef"] * k) * unit if k >= r["thr"] else 0

    def transition_choice(G, node, status, parameters):
        log.append(("choice", node))
        r = rules[status[node]]
        if any(status[v] == r["altif"] for v in within(scn, node, r["dist"])):
            return r["alt"]
        return r["to"]

    def get_influence_set(G, node, status, parameters):
        log.append(("influence", node))
        r = scn["inflby"][scn["statuses"].index(status[node])]      # radius for the status the node has just taken
        w = within(scn, node, r) if r > 0 else set()
        if infl_kind == "list":
            return sorted(w)
        if infl_kind == "iterator":      # e.g. `return G.neighbors(node)`: a one-shot iterator
            return iter(sorted(w))
        if infl_kind == "generator":
            return (x for x in sorted(w))
        return w
    return rate_function, transition_choice, get_influence_set


def run_scenario(task):
    import EoN
    import networkx as nx
    i, st0, horizon = task["sc"], tuple(task["st0"]), task["horizon"]
    scn = SCN[i]
    graph = SG.get(i, {})
    n = scn["n"]
    nodes = list(range(1, n + 1))
    G = nx.Graph()
    G.add_nodes_from(nodes)
    for u in nodes:
        for v in nodes:
            if u < v and scn["adj"][u - 1][v - 1]:
                G.add_edge(u, v)
    # the user's status labels: the specification's strings, or ints 0,1,2 (0 is falsy), or False/True/... objects
    kind = task.get("labels", "str")
    if kind == "ints":
        fwd = {x: k for k, x in enumerate(scn["statuses"])}
    elif kind == "falsy":
        fwd = {x: [False, True, "", "x", 0.0][k] for k, x in enumerate(scn["statuses"])} if len(scn["statuses"]) <= 2 else {x: k for k, x in enumerate(scn["statuses"])}
    else:
        fwd = {x: x for x in scn["statuses"]}
    back = {v: k for k, v in fwd.items()}
    IC = {u: fwd[st0[u - 1]] for u in nodes}
    if task.get("oversized_ic"):
        # an initial condition prepared for a larger population than the contact network handed over
        for extra in range(n + 1, n + 4):
            IC[extra] = fwd[scn["statuses"][extra % len(scn["statuses"])]]
    rs_all = [fwd[x] for x in scn["statuses"]]
    # return_statuses may be any subset of the statuses
    rs = rs_all if not task.get("ret_subset") else [x for k, x in enumerate(rs_all) if k != (task["ret_subset"] - 1) % len(rs_all)]
    tmin = task.get("tmin", 0)
    tmax = tmin + horizon + 0.5
    log = []
    rf0, tc0, gi0 = callbacks(scn, log, task.get("infl_kind", "set"))

    class _View(dict):
        """the simulator's status dict seen through the label map"""
        def __init__(self, st):
            self.st = st

        def __getitem__(self, u):
            return back[self.st[u]]

        def __iter__(self):
            return iter(self.st)

        def __len__(self):
            return len(self.st)

        def keys(self):
            return self.st.keys()

        def items(self):
            return [(u, back[x]) for u, x in self.st.items()]

        def values(self):
            return [back[x] for x in self.st.values()]

    def rf(G_, node, status, parameters):
        return rf0(G_, node, _View(status), parameters)

    def tc(G_, node, status, parameters):
        return fwd[tc0(G_, node, _View(status), parameters)]

    def gi(G_, node, status, parameters):
        return gi0(G_, node, _View(status), parameters)

    def fn_full():
        del log[:]
        # the histories are read with every status listed; the subset of return_statuses is exercised in array mode
        sim = EoN.Gillespie_complex_contagion(G, rf, tc, gi, dict(IC), rs_all, tmin=tmin, tmax=tmax, parameters=(), return_full_data=True)
        return {"hist": {u: (list(sim.node_history(u)[0]), list(sim.node_history(u)[1])) for u in nodes}, "trans": None, "trans_err": None}

    def fn_arr():
        del log[:]
        return [list(map(float, a)) for a in EoN.Gillespie_complex_contagion(G, rf, tc, gi, dict(IC), rs, tmin=tmin, tmax=tmax, parameters=())]

    def succ(st):
        return graph.get(st, [])

    def parse(l):
        return parse_obs(l.result, False)

    def real(seed):
        """one run with the real random source: [(time, event key)] up to a horizon of a few expected events"""
        import random
        r0 = sum(x[1] for x in succ(st0)) * RATE_UNIT
        T = tmin + (4.0 / r0 if r0 > 0 else 1.0)
        random.seed(seed)
        del log[:]
        try:
            sim = EoN.Gillespie_complex_contagion(G, rf, tc, gi, dict(IC), rs_all, tmin=tmin, tmax=T, parameters=(), return_full_data=True)
            obs = {"hist": {u: (list(sim.node_history(u)[0]), list(sim.node_history(u)[1])) for u in nodes}, "trans": None, "trans_err": None}
        except Exception as ex:
            return {"error": ex}
        ev, pr = parse_obs(obs, True)
        if pr:
            return {"error": RuntimeError("%s: %s" % (pr[0]["kind"], pr[0]["detail"]))}
        return {"events": ev, "tmin": tmin, "tmax": T, "error": None}

    def parse_obs(obs, with_times):
        try:
            ini = tuple(back[obs["hist"][u][1][0]] for u in nodes)
        except KeyError as ex:
            return [], [{"kind": "unknown-status", "detail": "a history holds the status %r, which is not one of the user's labels" % (ex.args[0],)}]
        if ini != st0:
            return [], [{"kind": "initial-state", "detail": "histories start in %r, requested %r" % (ini, st0)}]
        ch = observe.changes(obs, nodes)
        times = [c[0] for c in ch]
        if not with_times and times != [tmin + k + 1.0 for k in range(len(times))]:
            return [], [{"kind": "event-times", "detail": "event times %r under a unit-delay clock from tmin=%r" % (times, tmin)}]
        try:
            if with_times:
                return [(t, (u, back[new])) for (t, u, old, new) in ch], []
            return [(u, back[new]) for (t, u, old, new) in ch], []
        except KeyError as ex:
            return [], [{"kind": "unknown-status", "detail": "a history holds the status %r, which is not one of the user's labels" % (ex.args[0],)}]

    cls = scn["model"]
    res = walk.walk(fn_full, parse, st0, succ, RATE_UNIT, horizon, max_exp=horizon + 2, max_leaves=40000, cls=cls, real=real)
    problems = res["problems"]
    narr = 0
    statuses = scn["statuses"]
    for r in res["recs"][:200]:
        l = r["leaf"]
        la = run_scripted(fn_arr, l.script, max_exp=horizon + 2)
        narr += 1
        if la.error is not None:
            problems.append({"kind": "exception:%s" % type(la.error).__name__, "cls": cls, "detail": "return_full_data=False raised %r" % (la.error,), "script": l.script})
            continue
        if observe.tape_signature(la.tape) != observe.tape_signature(l.tape):
            problems.append({"kind": "draws-depend-on-return-mode", "cls": cls, "detail": "tapes differ", "script": l.script})
            continue
        st = list(st0)
        asked = [back[x] for x in rs]                 # the statuses whose counts were requested, in that order
        rows = [[sum(1 for x in st if x == s) for s in asked]]
        for (u, new) in r["events"]:
            st[u - 1] = new
            rows.append([sum(1 for x in st if x == s) for s in asked])
        want = [[float(tmin + k) for k in range(len(rows))]] + [[float(row[j]) for row in rows] for j in range(len(asked))]
        if la.result != want:
            problems.append({"kind": "arrays", "cls": cls + ("|return_statuses-subset" if len(rs) < len(rs_all) else ""),
                             "detail": "returned %r, statuses imply %r (return_statuses=%r)" % (la.result, want, rs), "script": l.script})
    return {"problems": problems, "leaves": res["leaves"], "events": res["events"], "nodes": res["nodes"], "arr": narr, "settled": res.get("settled")}


ABSORBING = ("threshold2", "SIR")      # every run of these models ends in a state where all rates are zero


def float_probe(task):
    """Seeded runs (real random source) with rates that are NOT exactly representable, unbounded horizon, on a model
    whose runs all terminate: the recorded run must be a path of the TLC-emitted transition system that ends in one
    of its terminal states (all rates zero) - rounding residue in the running total must not keep the clock alive."""
    import random
    import EoN
    import networkx as nx
    i, st0, unit, seeds = task["sc"], tuple(task["st0"]), task["unit"], task["seeds"]
    scn = SCN[i]
    graph = SG.get(i, {})
    n = scn["n"]
    nodes = list(range(1, n + 1))
    G = nx.Graph()
    G.add_nodes_from(nodes)
    for u in nodes:
        for v in nodes:
            if u < v and scn["adj"][u - 1][v - 1]:
                G.add_edge(u, v)
    problems = []
    runs = 0
    events = 0
    for seed in seeds:
        rf, tc, gi = callbacks(scn, [], "list", unit=unit)
        random.seed(seed)
        runs += 1
        try:
            sim = EoN.Gillespie_complex_contagion(G, rf, tc, gi, {u: st0[u - 1] for u in nodes}, list(scn["statuses"]), tmin=0,
                                                  tmax=float("inf"), parameters=(), return_full_data=True)
        except Exception as ex:
            problems.append({"kind": "exception:%s" % type(ex).__name__, "cls": scn["model"] + "|non-dyadic-rates,unbounded-horizon",
                             "detail": "seed %d, rate unit %r: %r" % (seed, unit, ex)})
            continue
        obs = {"hist": {u: (list(sim.node_history(u)[0]), list(sim.node_history(u)[1])) for u in nodes}}
        st = st0
        bad = None
        for (t, u, old, new) in observe.changes(obs, nodes):
            events += 1
            nxt = tuple(new if v == u else st[v - 1] for v in nodes)
            if not any(ev[0] == (u, new) and ev[1] > 0 and ev[2] == nxt for ev in [((e[0][0], e[0][1]), e[1], e[2]) for e in graph.get(st, [])]):
                bad = "event %r from state %r is not an enabled transition of the specification" % ((t, u, old, new), st)
                break
            st = nxt
        if bad is None and graph.get(st, []):
            bad = "the run stopped in state %r although %d transition(s) are enabled and the horizon is unbounded" % (st, len(graph.get(st, [])))
        if bad:
            problems.append({"kind": "run-not-a-terminated-path", "cls": scn["model"] + "|non-dyadic-rates,unbounded-horizon",
                             "detail": "seed %d, rate unit %r: %s" % (seed, unit, bad)})
    return {"problems": problems[:3], "runs": runs, "events": events}

"""C20 support: TLC configurations of specs/Subsample.tla and specs/DegreeDist.tla,
a fast reader for the records they print, and the replay of every printed
input |-> expected output record into the real EoN functions.

The expected values are the ones TLC printed (computed from the declarative
definitions of the specifications).  Python only builds the arguments, calls
EoN.subsample / get_time_shift / get_Pk / get_Pnk / get_PGF / get_PGFPrime /
get_PGFDPrime / estimate_R0, projects the returned objects to plain numbers
and compares.
"""
import itertools
import json
import random
import re
from fractions import Fraction

from . import tlc

TICK = 0.5          # one time tick of Subsample.tla = 0.5 time units (dyadic: exact floats)
TOL = Fraction(1, 10 ** 12)

XS = [[1, 4], [1, 2], [3, 4], [1, 1]]                       # evaluation points a/b in (0,1]
TS = [[1, 4], [1, 2], [3, 4], [1, 1], [1, 3], [2, 3], [0, 1]]       # transmissibilities a/b (0: nothing is transmitted, R0 = 0)

SUB_INVARIANTS = ["CandBound", "ScanInv", "SubCorrect", "StepSemantics", "ShiftCorrect", "ShiftInv", "NoStuck"]
SUB_PROPERTIES = ["Decreases", "InputsFrozen"]
SUB_ACTIONS = ["main", "pre", "outer", "inner", "rec", "join", "loop", "next", "gfin", "fin"]
DD_IDENTITIES = ["DegDef", "PkSumsToOne", "PsiAtOne", "PsiPrimeAtOne", "PsiDPrimeAtOne", "DerivCoeff",
                 "NodeWise", "Handshake", "PnkRows", "R0Identities"]


# ----------------------------------------------------------------------------
# reading what TLC printed
# ----------------------------------------------------------------------------
def record_texts(stdout):
    """The text of every top-level tuple printed by PrintT (records may be wrapped
    over several lines by TLC's pretty printer), one string per record."""
    buf = None
    depth = 0
    for ln in stdout.split("\n"):
        if buf is None:
            if not ln.startswith("<<"):
                continue
            buf = []
            depth = 0
        buf.append(ln)
        depth += ln.count("<<") - ln.count(">>")
        if depth <= 0:
            yield " ".join(buf)
            buf = None


def parse_record(txt):
    """Records consist of tuples, naturals and double-quoted tags only, so the text
    is JSON after renaming the brackets."""
    return json.loads(txt.replace("<<", "[").replace(">>", "]"))


def initial_states(res):
    m = re.search(r"Finished computing initial states: (\d+) distinct state", res.stdout)
    return int(m.group(1)) if m else -1


# ----------------------------------------------------------------------------
# Subsample.tla
# ----------------------------------------------------------------------------
def subsample_constants(maxlen, tmax=4, valdom=(0, 1), ldom=(0, 1, 2), thdom=(0, 1, 2, 3), emit=False):
    return {"TMax": tmax, "MaxLen": maxlen, "ValDom": set(valdom), "LDom": set(ldom), "ThDom": set(thdom),
            "EmitOnly": bool(emit), "defaultInitValue": "defaultInitValue"}


def subsample_design(consts, workers=16, coverage=False, timeout=3000):
    """algorithm = definition, loop invariants, termination variant (no printing)."""
    c = dict(consts, EmitOnly=False)
    cfg = tlc.cfg_text(c, invariants=SUB_INVARIANTS, properties=SUB_PROPERTIES)
    return tlc.run_tlc("Subsample", cfg, workers=workers, coverage=coverage, timeout=timeout)


def subsample_emit(consts, timeout=3000):
    """input |-> definition, printed (single worker: records must not interleave)."""
    c = dict(consts, EmitOnly=True)
    return tlc.run_tlc("Subsample", tlc.cfg_text(c), workers=1, timeout=timeout)


def grids(maxlen, tmax):
    out = []
    for n in range(1, maxlen + 1):
        out.extend(itertools.combinations_with_replacement(range(tmax + 1), n))
    return out


def subsample_domain_size(consts):
    """(initial states, SUB records, GTS records) of the input family of
    Subsample.tla, counted independently of TLC (guards against lost output)."""
    gs = grids(consts["MaxLen"], consts["TMax"])
    nv = len(consts["ValDom"])
    ident_in_valdom = 0  # Ident(n) has values >= 3; ValDom is kept below 3 by the check
    sub_all = sub_pre = 0
    for t in gs:
        tuples = nv ** len(t) + 1 - ident_in_valdom + 4
        for r in gs:
            sub_all += tuples
            if r[0] >= t[0]:
                sub_pre += tuples
    gts = sum(len(consts["LDom"]) ** len(t) for t in gs) * len(consts["ThDom"])
    return sub_all + gts, sub_pre, gts


# ----------------------------------------------------------------------------
# DegreeDist.tla
# ----------------------------------------------------------------------------
def extra_degree_sequences(count, seed, kmax=8):
    """Configuration-model style degree sequences (10..30 nodes, degrees 0..kmax,
    heavy-tailed, regular, bimodal), deterministic in the seed."""
    rng = random.Random(1000003 * seed + 20)
    out = set()
    out.add(tuple([kmax] * 9))                       # the complete graph K9's sequence
    out.add(tuple([3] * 10))
    out.add(tuple(sorted([1] * 8 + [kmax])))          # a star
    guard = 0
    while len(out) < count and guard < 100000:
        guard += 1
        n = rng.randint(10, 30)
        shape = rng.randrange(4)
        if shape == 0:      # heavy tail
            seq = [min(kmax, int(rng.paretovariate(1.5))) for _ in range(n)]
        elif shape == 1:    # binomial-like
            p = rng.choice([0.25, 0.5, 0.75])
            seq = [sum(1 for _ in range(kmax) if rng.random() < p) for _ in range(n)]
        elif shape == 2:    # bimodal
            a, b = rng.randint(0, 3), rng.randint(4, kmax)
            seq = [a if rng.random() < 0.7 else b for _ in range(n)]
        else:               # uniform
            seq = [rng.randint(0, kmax) for _ in range(n)]
        out.add(tuple(sorted(seq)))
    return sorted(out)


def degdist_constants(nmax, ew, dlen, kmax=8, extra=()):
    return {"NMax": nmax, "EW": set(ew), "DLen": dlen, "KMax": kmax, "extra": [tuple(s) for s in extra]}


def _degdist_files(consts):
    extra = consts["extra"]
    mc = ("---- MODULE DegreeDistMC ----\n"
          "\\* generated by harness/c20_support.py: constants a cfg file cannot hold\n"
          "EXTENDS DegreeDist\n"
          "MC_Extra == %s\nMC_XS == %s\nMC_TS == %s\n====\n"
          % ("{" + ", ".join(tlc.tla_value(list(s)) for s in extra) + "}", tlc.tla_value(XS), tlc.tla_value(TS)))
    return [("DegreeDistMC.tla", mc)]


def _degdist_cfg(consts, emit, invariants):
    c = {k: consts[k] for k in ("NMax", "EW", "DLen", "KMax")}
    c["EmitOn"] = bool(emit)
    txt = tlc.cfg_text(c, invariants=invariants)
    return txt.replace("CONSTANTS\n", "CONSTANTS\n  ExtraDegSeqs <- MC_Extra\n  XS <- MC_XS\n  TS <- MC_TS\n", 1)


def degdist_identities(consts, workers=16, coverage=False, timeout=3000):
    cfg = _degdist_cfg(consts, False, ["I_" + x for x in DD_IDENTITIES])
    return tlc.run_tlc("DegreeDistMC", cfg, workers=workers, coverage=coverage, timeout=timeout,
                       files=_degdist_files(consts))


def degdist_emit(consts, timeout=3000):
    cfg = _degdist_cfg(consts, True, [])
    return tlc.run_tlc("DegreeDistMC", cfg, workers=1, timeout=timeout, files=_degdist_files(consts))


def degdist_domain_size(consts):
    n_g = sum((1 + len(consts["EW"])) ** (m * (m - 1) // 2) for m in range(1, consts["NMax"] + 1))
    seqs = set(consts["extra"])
    for m in range(1, consts["DLen"] + 1):
        seqs.update(itertools.combinations_with_replacement(range(consts["KMax"] + 1), m))
    return n_g, len(seqs)


# ----------------------------------------------------------------------------
# replay of the records into the real code
# ----------------------------------------------------------------------------
def _close(x, num, den):
    """|x - num/den| <= 1e-12, decided in exact arithmetic."""
    try:
        fx = Fraction(float(x))
    except (ValueError, OverflowError, TypeError):   # nan, inf, not a number
        return False
    return abs(fx - Fraction(num, den)) <= TOL


def _plain(a):
    """returned array / list -> list of python numbers (ints stay exact)."""
    import numpy as np
    return np.asarray(a).tolist()


def _problem(key, what, replay):
    return {"key": key, "what": what, "replay": replay}


def _sub_position_class(report, times, i):
    r = report[i]
    hits = [j for j, t in enumerate(times) if t == r]
    if r > times[-1]:
        return "report time after the last observation"
    if len(hits) > 1:
        return "report time equal to several observations at one time"
    if len(hits) == 1:
        return "report time equal to an observation time"
    return "report time strictly between observations"


def replay_sub(EoN, rec):
    """rec = ["SUB", report, times, series (K lists), expected (K lists)]."""
    import numpy as np
    _, report, times, series, expected = rec
    K = len(series)
    probs = []
    calls = 0
    expected0 = expected
    for variant in ("list", "array", "integer grid, fractional values"):
        rt = [t * TICK for t in report]
        tt = [t * TICK for t in times]
        ss = [list(s) for s in series]
        expected = expected0
        if variant == "array":
            rt, tt, ss = np.array(rt), np.array(tt), [np.array(s) for s in ss]
        elif variant.startswith("integer"):
            # the report grid is made of integers (range / arange / a list of ints) while the observed values are
            # not: the values must come back unchanged
            rt, tt = np.array([int(t) for t in report]), [float(t) for t in times]
            f = lambda v: 0.375 + 0.25 * v
            ss = [[f(v) for v in s_] for s_ in series]
            expected = [[f(v) for v in e] for e in expected0]
        rp = {"kind": "SUB", "record": rec, "variant": variant,
              "call": "EoN.subsample(report_times=%r, times=%r, *%r)" % (list(map(float, rt)), list(map(float, tt)), series)}
        calls += 1
        try:
            got = EoN.subsample(rt, tt, *ss)
        except Exception as ex:       # noqa: the verdict is about any exception
            probs.append(_problem("subsample|raises on an admissible input|%d series" % K,
                                  "subsample(%r, %r, %d series) raised %r; the specification expects %r"
                                  % (list(map(float, rt)), list(map(float, tt)), K, ex, expected), rp))
            continue
        try:
            if K == 1:
                outs = [_plain(got)]
            else:
                outs = [_plain(g) for g in got]
        except Exception as ex:
            probs.append(_problem("subsample|unreadable return value|%d series" % K, "%r: %r" % (got, ex), rp))
            continue
        if len(outs) != K:
            probs.append(_problem("subsample|wrong number of returned series|%d series" % K,
                                  "returned %d series for %d inputs" % (len(outs), K), rp))
            continue
        for s in range(K):
            if outs[s] == expected[s]:
                continue
            if not isinstance(outs[s], list) or len(outs[s]) != len(expected[s]):
                cls = "wrong length"
            else:
                i = [a == b for a, b in zip(outs[s], expected[s])].index(False)
                cls = _sub_position_class(report, times, i)
            probs.append(_problem("subsample|value differs from the last observation at or before the report time|%s" % cls,
                                  "subsample(report=%r, times=%r, series %d of %d = %r) returned %r, specification Sub = %r (%s arguments)"
                                  % (list(map(float, rt)), list(map(float, tt)), s + 1, K, series[s], outs[s], expected[s], variant), rp))
            break
    boundary = (len(set(times)) < len(times)) or bool(set(report) & set(times)) or report[-1] > times[-1]
    return probs, calls, boundary


def replay_gts(EoN, rec):
    """rec = ["GTS", times, L, th, ["at", t] | ["never"]]."""
    import numpy as np
    _, times, L, th, exp = rec
    probs = []
    calls = 0
    never_behaviour = None
    for variant in ("list", "array"):
        tt = [t * TICK for t in times]
        ll = list(L)
        if variant == "array":
            tt, ll = np.array(tt), np.array(ll)
        rp = {"kind": "GTS", "record": rec, "variant": variant,
              "call": "EoN.get_time_shift(%r, %r, %r)" % (list(map(float, tt)), list(L), th)}
        calls += 1
        try:
            got = EoN.get_time_shift(tt, ll, th)
        except Exception as ex:
            if exp[0] == "never":
                never_behaviour = "raises %s" % type(ex).__name__
                continue
            probs.append(_problem("get_time_shift|raises although the threshold is reached|",
                                  "get_time_shift(%r, %r, %r) raised %r; specification: %r" % (list(map(float, tt)), L, th, ex, exp[1] * TICK), rp))
            continue
        if exp[0] == "never":
            never_behaviour = "returns the last time" if got == tt[-1] else "returns %r" % (got,)
            continue
        want = exp[1] * TICK
        if not (got == want):
            first = [i for i, v in enumerate(L) if v >= th][0]
            cls = "reached at the first observation" if first == 0 else (
                "series reaches the threshold exactly (equality)" if L[first] == th else "series jumps over the threshold")
            probs.append(_problem("get_time_shift|not the first time at which the series reaches the threshold|%s" % cls,
                                  "get_time_shift(%r, %r, %r) returned %r, specification FirstReach = %r"
                                  % (list(map(float, tt)), L, th, got, want), rp))
    nontrivial = exp[0] == "at" and exp[1] != times[0]
    return probs, calls, nontrivial, never_behaviour


def pair_list(n):
    return [(u, v) for u in range(1, n + 1) for v in range(u + 1, n + 1)]


def build_graph(n, w):
    import networkx as nx
    G = nx.Graph()
    G.add_nodes_from(range(1, n + 1))
    for (u, v), wt in zip(pair_list(n), w):
        if wt > 0:
            G.add_edge(u, v, weight=float(wt))
    return G


def _check_pk(EoN, G, pklist, rp, probs, where):
    try:
        Pk = EoN.get_Pk(G)
        got = {k: Pk[k] for k in Pk}
    except Exception as ex:
        probs.append(_problem("get_Pk|raises|%s" % where, "get_Pk raised %r" % (ex,), rp))
        return 1
    want = {k: (a, b) for k, a, b in pklist}
    if set(got) != set(want):
        probs.append(_problem("get_Pk|degrees listed differ from the degree histogram|%s" % where,
                              "get_Pk lists degrees %r, the graph has degrees %r" % (sorted(got), sorted(want)), rp))
        return 1
    for k, (a, b) in want.items():
        if not _close(got[k], a, b):
            probs.append(_problem("get_Pk|Pk[k] is not the proportion of nodes of degree k|%s" % where,
                                  "get_Pk[%d] = %r, specification %d/%d" % (k, got[k], a, b), rp))
            return 1
    if not _close(sum(got.values()), 1, 1):
        probs.append(_problem("get_Pk|does not sum to 1|%s" % where, "sum = %r" % (sum(got.values()),), rp))
    return 1


def _check_pgfs(EoN, pklist, evaltab, rp, probs, where):
    Pk = {k: a / float(b) for k, a, b in pklist}
    calls = 0
    # first every function on its own copy; then all three on ONE dict object, the derivatives first (a helper that edits
    # the dictionary it is handed shows in the functions built from it afterwards)
    shared = dict(Pk)
    plan = [("get_PGF", 1, None), ("get_PGFPrime", 2, None), ("get_PGFDPrime", 3, None),
            ("get_PGFPrime", 2, shared), ("get_PGFDPrime", 3, shared), ("get_PGF", 1, shared)]
    for name, col, obj in plan:
        if obj is not None:
            where_ = where
            where = where_ + "|one Pk object handed to the derivative helpers first"
        try:
            f = getattr(EoN, name)(dict(Pk) if obj is None else obj)
        except Exception as ex:
            probs.append(_problem("%s|raises|%s" % (name, where), "%s(%r) raised %r" % (name, Pk, ex), rp))
            continue
        for row in evaltab:
            (a, b), (num, den) = row[0], row[col]
            calls += 1
            try:
                got = f(a / float(b))
            except Exception as ex:
                probs.append(_problem("%s|raises|%s" % (name, where), "%s(Pk)(%d/%d) raised %r" % (name, a, b, ex), rp))
                break
            if not _close(got, num, den):
                what = {1: "psi", 2: "psi'", 3: "psi''"}[col]
                probs.append(_problem("%s|%s(x) differs from the %s of the degree distribution|x=%s"
                                      % (name, what, {1: "generating function", 2: "formal derivative", 3: "second formal derivative"}[col],
                                         "1" if a == b else "interior point"),
                                      "%s(%r)(%d/%d) = %r, specification %d/%d" % (name, Pk, a, b, got, num, den), rp))
                break
        if obj is not None:
            where = where_
            # only the distribution matters here (an added zero-probability entry is C19's business, not C20's)
            if {k: v for k, v in obj.items() if v != 0} != {k: v for k, v in Pk.items() if v != 0}:
                probs.append(_problem("%s|the degree distribution in the caller's Pk dictionary was changed|%s" % (name, where),
                                      "%s was handed %r and left %r" % (name, Pk, obj), rp))
    return calls


def _check_r0(EoN, G, r0list, rp, probs, where):
    calls = 0
    undefined = 0
    for (a, b), (num, den) in r0list:
        forms = [("transmissibility", dict(transmissibility=a / float(b)))]
        if a < b:
            forms.append(("tau,gamma", dict(tau=float(a), gamma=float(b - a))))
        for fname, kw in forms:
            if den == 0:
                undefined += 1     # <k> = 0: R0 undefined, nothing demanded
                continue
            calls += 1
            try:
                got = EoN.estimate_R0(G, **kw)
            except Exception as ex:
                probs.append(_problem("estimate_R0|raises|%s %s" % (fname, where), "estimate_R0(G, %r) raised %r" % (kw, ex), rp))
                continue
            if not _close(got, num, den):
                probs.append(_problem("estimate_R0|differs from T<k^2-k>/<k>|%s %s" % (fname, where),
                                      "estimate_R0(G, %r) = %r, specification %d/%d" % (kw, got, num, den), rp))
                return calls, undefined
    return calls, undefined


def replay_graph(EoN, rec):
    """rec = ["G", n, w, deg, PkList, PnkList, Coef, DCoef, DDCoef, EvalTab, [NN, M1, M2], R0List]."""
    _, n, w, deg, pklist, pnklist, coef, dcoef, ddcoef, evaltab, mom, r0list = rec
    probs = []
    G = build_graph(n, w)
    rp = {"kind": "G", "record": rec, "call": "G = nx.Graph on nodes 1..%d with edges %r" % (n, sorted(G.edges()))}
    if [G.degree(u) for u in range(1, n + 1)] != list(deg):
        raise RuntimeError("harness built a graph whose degrees %r differ from the specification's %r"
                           % ([G.degree(u) for u in range(1, n + 1)], deg))
    where = "graph"
    m = G.number_of_edges()
    if m > 0 and sum(w) % 2 == 0:
        # a history: the SAME Graph object first had another structure with the same numbers of nodes and edges
        # (so anything remembered per graph object, or validated only by those counts, is stale), was passed to
        # the helpers, and was then rewired in place into the graph of this record
        target = [(u, v, dict(d)) for (u, v, d) in G.edges(data=True)]
        pl = pair_list(n)
        earlier = pl[:m] if set(pl[:m]) != set((u, v) for (u, v, _) in target) else pl[-m:]
        if set(earlier) != set((u, v) for (u, v, _) in target):
            G.remove_edges_from(list(G.edges()))
            G.add_edges_from(earlier, weight=1.0)
            for f in (EoN.get_Pk, EoN.get_Pnk, lambda H: EoN.estimate_R0(H, transmissibility=0.5)):
                try:
                    f(G)
                except Exception:
                    pass
            G.remove_edges_from(list(G.edges()))
            G.add_edges_from(target)
            where = "graph rewired in place after an earlier call"
            rp["call"] += " (the Graph object earlier had edges %r and was passed to get_Pk/get_Pnk/estimate_R0)" % (earlier,)
    calls = _check_pk(EoN, G, pklist, rp, probs, where)
    # get_Pnk
    calls += 1
    present = [k for k, _, _ in pklist]
    try:
        Pnk = EoN.get_Pnk(G)
        for k1, row in pnklist:
            if k1 == 0:
                continue        # neighbours of nodes without neighbours: no constraint
            want = {k2: (a, b) for k2, a, b in row}
            if k1 not in Pnk:
                probs.append(_problem("get_Pnk|row of a degree that occurs is missing|", "no row for degree %d" % k1, rp))
                break
            gotrow = Pnk[k1]
            keys = set(gotrow.keys()) | set(present)
            bad = False
            for k2 in sorted(keys):
                a, b = want.get(k2, (0, 1))
                g = gotrow[k2] if k2 in gotrow else 0
                if not _close(g, a, b):
                    probs.append(_problem("get_Pnk|Pnk[k1][k2] is not the proportion of neighbours of degree-k1 nodes that have degree k2|",
                                          "get_Pnk[%d][%d] = %r, specification %d/%d" % (k1, k2, g, a, b), rp))
                    bad = True
                    break
            if bad:
                break
            tot = sum(gotrow[k2] for k2 in gotrow)
            if not _close(tot, 1, 1):
                probs.append(_problem("get_Pnk|row does not sum to 1|", "row %d sums to %r" % (k1, tot), rp))
                break
    except Exception as ex:
        probs.append(_problem("get_Pnk|raises|", "get_Pnk raised %r" % (ex,), rp))
    calls += _check_pgfs(EoN, pklist, evaltab, rp, probs, where)
    c, undefined = _check_r0(EoN, G, r0list, rp, probs, where)
    calls += c
    return probs, calls, mom[1] > 0, undefined


def replay_degseq(EoN, rec, seed=0):
    """rec = ["D", deg, PkList, Coef, DCoef, DDCoef, EvalTab, [NN, M1, M2], R0List]."""
    import networkx as nx
    _, deg, pklist, coef, dcoef, ddcoef, evaltab, mom, r0list = rec
    probs = []
    rp = {"kind": "D", "record": rec, "call": "degree sequence %r" % (deg,)}
    calls = _check_pgfs(EoN, pklist, evaltab, rp, probs, "degree sequence")
    undefined = 0
    built = 0
    graphs = []
    if sum(deg) % 2 == 0:
        graphs.append(("configuration model", nx.configuration_model(list(deg), seed=seed)))
        if nx.is_graphical(list(deg)):
            graphs.append(("Havel-Hakimi", nx.havel_hakimi_graph(list(deg))))
    for name, G in graphs:
        if sorted(d for _, d in G.degree()) != sorted(deg):
            raise RuntimeError("%s graph does not realise the degree sequence %r" % (name, deg))
        built += 1
        rpg = dict(rp, call="%s graph of the degree sequence %r" % (name, deg))
        calls += _check_pk(EoN, G, pklist, rpg, probs, name)
        c, u = _check_r0(EoN, G, r0list, rpg, probs, name)
        calls += c
        undefined += u
    return probs, calls, max(deg) >= 2, undefined, built


# ----------------------------------------------------------------------------
# chunked replay (run in forked workers: text in, counters and problems out)
# ----------------------------------------------------------------------------
_EON = None


def _eon():
    global _EON
    if _EON is None:
        from . import common
        _EON = common.import_eon()
    return _EON


def replay_chunk(texts):
    EoN = _eon()
    out = {"SUB": 0, "GTS": 0, "G": 0, "D": 0, "calls": 0, "nontrivial": 0, "problems": {}, "never": {},
           "r0_undefined": 0, "graphs_built": 0, "sub_by_series": {}, "samples": {}}
    for txt in texts:
        rec = parse_record(txt)
        tag = rec[0]
        if tag == "SUB":
            p, c, nt = replay_sub(EoN, rec)
            k = str(len(rec[3]))
            out["sub_by_series"][k] = out["sub_by_series"].get(k, 0) + 1
        elif tag == "GTS":
            p, c, nt, nb = replay_gts(EoN, rec)
            if nb:
                out["never"][nb] = out["never"].get(nb, 0) + 1
        elif tag == "G":
            p, c, nt, u = replay_graph(EoN, rec)
            out["r0_undefined"] += u
        elif tag == "D":
            p, c, nt, u, b = replay_degseq(EoN, rec)
            out["r0_undefined"] += u
            out["graphs_built"] += b
        else:
            continue
        out[tag] += 1
        out["calls"] += c
        out["nontrivial"] += 1 if nt else 0
        if nt and tag not in out["samples"]:
            out["samples"][tag] = rec
        for pr in p:      # first witness and a count per failure class
            slot = out["problems"].setdefault(pr["key"], [pr, 0])
            slot[1] += 1
    return out

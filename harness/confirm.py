"""Confirmation of exact-stage findings against the REAL random source.

The spec -> code walk (binding B1) enumerates the implementation's decision tree under a scripted random source.
Its verdicts about probabilities and clock rates are exact *provided the scripted source models how the
implementation consumes its random numbers*.  A law-preserving refactoring can break that proviso without
breaking the property (first-reaction instead of the direct method, inverse-transform sampling, numpy's
generator, two waiting-time draws per event ...).  Therefore every finding of the walk that depends on the
proviso - and every scenario the scripted source cannot follow at all (`Unmodelled`) - is decided here at the
level the property is stated at: seeded runs with the real `random` module are arranged in a trie of event
histories and compared with the specification's chain along every observed history:

  structural (one run suffices)   an observed event that is not enabled; an event in a terminal state; a run with
                                  unbounded horizon that ends although transitions are enabled
  statistical (threshold 1e-9)    the next-event frequencies at a history against rate/total (G-test); the number
                                  of events against total rate x exposure time at a history (clock rate)

Only confirmed findings are reported as violations; an unconfirmed exact-stage finding is reported as a note
(the exact stage does not fit the implementation), never as a violation."""
import math

# ("exception:Runaway" - more waiting-time draws than the event horizon allows - stays a direct finding: an event loop
# that spins without advancing its clock would also hang the confirmation runs)
CONFIRMABLE = ("clock-rate", "no-clock-draw", "probability", "missing-event", "stopped-early", "event-times",
               "exception:Unmodelled", "unmodelled")
P_REJECT = 1e-9
RUN_TIMEOUT = 8          # seconds for ONE seeded run of a 3-5 node scenario (they take milliseconds)


def needs_confirmation(problems):
    return [p for p in problems if p["kind"] in CONFIRMABLE]


def _gtest(counts, probs, n):
    from scipy.stats import chi2
    G = 0.0
    dof = -1
    worst = None
    for k, p in probs.items():
        o = counts.get(k, 0)
        if p <= 0:
            continue
        dof += 1
        if o > 0:
            G += 2.0 * o * math.log(o / (p * n))
        dev = abs(o - p * n) / math.sqrt(max(p * n, 1e-300))
        if worst is None or dev > worst[0]:
            worst = (dev, k, o, p * n)
    if dof <= 0:
        return 1.0, worst
    return float(chi2.sf(G, dof)), worst


def confirm(real_run, st0, succ, rate_unit, nruns, seed0=0, max_depth=6, min_n=150):
    """real_run(seed) -> dict(events=[(t, key), ...], tmin=float, tmax=float or inf, error=None or exception)
    succ(st) -> [(key, rate numerator, st2)].   Returns (confirmed problems, stats)."""
    trie = {}
    errors = {}

    def node(h):
        x = trie.get(h)
        if x is None:
            x = trie[h] = {"n": 0, "next": {}, "exposure": 0.0, "events": 0, "ended": 0}
        return x

    import signal

    class _Stuck(BaseException):
        pass

    def _alarm(signum, frame):
        raise _Stuck()
    for k in range(nruns):
        # a run with the real random source that does not come back (an event loop that no longer advances its clock)
        # confirms the exact stage's "more clock draws than events" finding by itself
        old = signal.signal(signal.SIGALRM, _alarm)
        signal.alarm(RUN_TIMEOUT)
        try:
            r = real_run(seed0 + k)
        except (_Stuck, MemoryError) as ex:
            return ([{"kind": "exception:Runaway", "history": [],
                      "detail": "a seeded run with the real random source (seed %d) did not finish within %d s%s: the event loop does not terminate"
                                % (seed0 + k, RUN_TIMEOUT, " and exhausted its memory" if isinstance(ex, MemoryError) else "")}],
                    {"runs": k + 1, "histories": len(trie), "tests": 0})
        finally:
            signal.alarm(0)
            signal.signal(signal.SIGALRM, old)
        if r.get("error") is not None:
            e = r["error"]
            if isinstance(e, MemoryError):
                return ([{"kind": "exception:Runaway", "history": [],
                          "detail": "a seeded run with the real random source (seed %d) exhausted its memory: the event loop does not terminate" % (seed0 + k)}],
                        {"runs": k + 1, "histories": len(trie), "tests": 0})
            errors.setdefault(type(e).__name__, [0, repr(e), seed0 + k])[0] += 1
            if k + 1 >= 50 and sum(v[0] for v in errors.values()) == k + 1:
                break          # every run so far raised: no need for thousands more
            continue
        h = ()
        tprev = r["tmin"]
        cut = False
        for (t, key) in r["events"]:
            if len(h) >= max_depth:
                cut = True
                break
            x = node(h)
            x["n"] += 1
            x["next"][key] = x["next"].get(key, 0) + 1
            x["exposure"] += t - tprev
            x["events"] += 1
            tprev = t
            h = h + (key,)
        if not cut and len(h) < max_depth:
            x = node(h)
            x["n"] += 1
            if math.isinf(r["tmax"]):
                x["ended"] += 1
            else:
                x["exposure"] += max(0.0, r["tmax"] - tprev)
    out = []
    ntests = 0
    for name, (cnt, rep, sd) in sorted(errors.items()):
        out.append({"kind": "exception:%s" % name, "history": [], "detail": "%d of %d runs with the real random source raised %s (first: seed %d)" % (cnt, nruns, rep, sd)})
    for h in sorted(trie, key=lambda a: (len(a), repr(a))):
        x = trie[h]
        st = st0
        ok = True
        for key in h:
            nx = [s for s in succ(st) if s[0] == key]
            if not nx:
                ok = False
                break
            st = nx[0][2]
        if not ok:
            continue          # reported at the parent
        outm = {}
        for key, r, st2 in succ(st):
            outm[key] = outm.get(key, 0.0) + r * rate_unit
        total = sum(outm.values())
        bad = [k for k in x["next"] if k not in outm]
        if bad:
            kind = "event-in-terminal-state" if total == 0 else "impossible-event"
            out.append({"kind": kind, "history": list(h),
                        "detail": "with the real random source: event %r (%d run(s)) is not enabled in the specification state %r" % (bad[0], x["next"][bad[0]], st)})
            continue
        if total == 0:
            continue
        if x["ended"] > 0:
            out.append({"kind": "stopped-early", "history": list(h),
                        "detail": "with the real random source and an unbounded horizon %d of %d run(s) ended in state %r of total rate %r" % (x["ended"], x["n"], st, total)})
        if x["events"] >= min_n:
            ntests += 1
            probs = {k: r / total for k, r in outm.items()}
            p, worst = _gtest(x["next"], probs, x["events"])
            if p < P_REJECT:
                kind = "missing-event" if worst and worst[2] == 0 else "probability"
                out.append({"kind": kind, "history": list(h),
                            "detail": "with the real random source the next event after this history is distributed differently from rate/total (G-test p=%.3g over %d events; event %r: observed %d, expected %.1f)"
                            % (p, x["events"], worst[1], worst[2], worst[3])})
        mu = total * x["exposure"]
        if mu >= 50 or x["events"] >= 50:
            ntests += 1
            z = (x["events"] - mu) / math.sqrt(max(mu, 1e-300))
            if abs(z) > 7.0:
                out.append({"kind": "clock-rate", "history": list(h),
                            "detail": "with the real random source %d events in exposure time %r at this history; the chain's total rate %r predicts %.1f (z=%.1f)"
                            % (x["events"], x["exposure"], total, mu, z)})
    return out, {"runs": nruns, "histories": len(trie), "tests": ntests}

"""Long rejection runs of the weighted sampler (C16 / C01 / C02).

The exploration of choose_random folds the rejection loop analytically, which assumes that a rejected
round returns to an IDENTICAL decision point.  This probe checks that assumption on the real code: with
folding switched off, a strongly skewed bag is sampled along the path "propose the lightest candidate and
reject it" R times in a row (R up to 300), then "propose the heaviest candidate" (accepted with
probability 1).  Any behaviour of the reference WeightedBag returns the heaviest candidate and makes no
other draw; a sampler that gives up after some number of rejections, or returns a rejected proposal,
shows up as a different result or as extra draws."""
from .scripted import run_scripted


def probe(EoN, chk, entry="_ListDict_"):
    L = EoN.simulation._ListDict_(weighted=True)
    L.insert("heavy", weight=400.0)
    for k in range(30):
        L.insert(("light", k), weight=1.0)
    n = 0
    for R in (1, 5, 50, 99, 100, 101, 150, 300):
        state = {"rounds": 0}

        def decider(kind, info, pop, probs):
            if kind == "choice":
                if state["rounds"] < R:
                    return list(pop).index(("light", 0))
                return list(pop).index("heavy")
            if kind == "cmp":
                state["rounds"] += 1
                return 1          # reject
            return 0
        for fn_name in ("choose_random", "random_removal"):
            state["rounds"] = 0
            leaf = run_scripted(lambda: getattr(L, fn_name)(), [], fold=False, decider=decider, max_branches=2000)
            n += 1
            chk.cov["evaluations"] += 1
            if fn_name == "random_removal" and leaf.error is None and leaf.result == "heavy":
                L.insert("heavy", weight=400.0)
            if leaf.error is not None:
                chk.violation("%s.%s|exception-after-%d-rejections|skewed-weights" % (entry, fn_name, R),
                              "%s() raised %r after %d consecutive rejections" % (fn_name, leaf.error, R), {"rejections": R})
                continue
            extra = [t[0] for t in leaf.tape if t[0] not in ("choice", "random", "cmp", "cmpdet")]
            nchoice = sum(1 for t in leaf.tape if t[0] == "choice")
            if leaf.result != "heavy" or extra or nchoice != R + 1:
                chk.violation("%s.%s|selection-after-many-rejections|skewed-weights" % (entry, fn_name),
                              "after %d consecutive rejections of a light candidate and one accepted proposal of the heavy one, %s() returned %r "
                              "(proposals made: %d, other draws: %r): rejected proposals must not be returned and the loop must not change with the number of rejections"
                              % (R, fn_name, leaf.result, nchoice, extra), {"rejections": R})
    chk.part("long rejection runs", probes=n)

"""Long rejection runs of the weighted sampler (C16 / C01 / C02).

The exploration of choose_random folds the rejection loop analytically, which assumes that a rejected
round returns to an IDENTICAL decision point.  This probe checks that assumption on the real code: with
folding switched off, a strongly skewed bag is sampled along the path "propose the lightest candidate and
reject it" R times in a row (R up to 300), then "propose the heaviest candidate" (accepted with
probability 1).  Any behaviour of the reference WeightedBag returns the heaviest candidate and makes no
other draw; a sampler that gives up after some number of rejections, or returns a rejected proposal,
shows up as a different result or as extra draws."""
from .scripted import run_scripted


def probe(EoN, chk, entry="_ListDict_"):
    def build():
        # a candidate set with a history: the heaviest candidate was added last and a light one was removed since, so the
        # internal order of the candidates is no longer their order of insertion
        L_ = EoN.simulation._ListDict_(weighted=True)
        for k in range(30):
            L_.insert(("light", k), weight=1.0)
        L_.insert("heavy", weight=400.0)
        L_.remove(("light", 5))
        return L_
    L = build()
    n = 0
    for R in (1, 5, 50, 99, 100, 101, 150, 300, 999, 1000, 1001, 1500):
        state = {"rounds": 0}
        L = build()

        def decider(kind, info, pop, probs):
            if kind == "choice":
                if state["rounds"] < R:
                    return list(pop).index(("light", 0))
                return list(pop).index("heavy")
            if kind == "cmp":
                state["rounds"] += 1
                return 1          # reject
            if kind == "choices" and probs:
                return max(range(len(probs)), key=lambda i_: probs[i_])      # a weighted draw: its most likely outcome
            return 0
        for fn_name in ("choose_random", "random_removal"):
            state["rounds"] = 0
            leaf = run_scripted(lambda: getattr(L, fn_name)(), [], fold=False, decider=decider, max_branches=4000)
            n += 1
            chk.cov["evaluations"] += 1
            if fn_name == "random_removal" and leaf.error is None and leaf.result == "heavy":
                L.insert("heavy", weight=400.0)
            if leaf.error is not None:
                chk.violation("%s.%s|exception-after-%d-rejections|skewed-weights" % (entry, fn_name, R),
                              "%s() raised %r after %d consecutive rejections" % (fn_name, leaf.error, R), {"rejections": R})
                continue
            extra = [t[0] for t in leaf.tape if t[0] not in ("choice", "random", "cmp", "cmpdet")]
            nchoice = sum(1 for t in leaf.tape if t[0] == "choice")
            if leaf.result == "heavy" and (extra or nchoice != R + 1):
                # another (exact) way of finishing a long run of rejections is not a violation of the selection law
                chk.note("%s.%s: after %d consecutive rejections the sampler made %d proposals and other draws %r and still returned the heaviest candidate"
                         % (entry, fn_name, R, nchoice, extra))
                continue
            if leaf.result != "heavy":
                chk.violation("%s.%s|selection-after-many-rejections|skewed-weights" % (entry, fn_name),
                              "after %d consecutive rejections of a light candidate and one accepted proposal of the heavy one, %s() returned %r "
                              "(proposals made: %d, other draws: %r): rejected proposals must not be returned and the loop must not change with the number of rejections"
                              % (R, fn_name, leaf.result, nchoice, extra), {"rejections": R})
    chk.part("long rejection runs", probes=n)


def long_history(EoN, chk, nops=40000, seed=0, entry="_ListDict_"):
    """'After ANY history': one candidate set lives through tens of thousands of operations (insert / replace /
    non-negative increment / remove / select-and-remove), as in a long Gillespie run.  Weights are small dyadic
    rationals, so the reference - the WeightedBag semantics: a map from candidates to weights - is exact in floating
    point.  After every operation: size, membership and total; at checkpoints the exact selection law (decision tree
    of choose_random under the scripted source) against weight/total."""
    import random as pyrandom
    from .scripted import explore
    rng = pyrandom.Random(seed + 1606)
    L = EoN.simulation._ListDict_(weighted=True)
    ref = {}
    items = list(range(10))
    removals = 0
    checkpoints = 0
    marks = set([10, 100, 1000, 9999, 10000, 10001, 19999, 20000, 20001, 30000])

    def fail(kind, detail, k):
        chk.violation("%s|%s|long-history" % (entry, kind), "after %d operations (%d removals) of one weighted candidate set: %s" % (k, removals, detail),
                      {"operations": k, "removals": removals, "seed": seed})

    for k in range(1, nops + 1):
        op = rng.choice("IIURRS")
        x = rng.choice(items)
        try:
            if op == "I":
                w = rng.choice([0, 1, 2, 3, 5, 8]) / 4.0
                L.insert(x, weight=w)
                ref.pop(x, None)
                if w != 0:
                    ref[x] = w
            elif op == "U":
                inc = rng.choice([0, 1, 2]) / 4.0
                if x in ref or inc > 0:
                    L.update(x, weight_increment=inc)
                    ref[x] = ref.get(x, 0.0) + inc
            elif op == "R":
                if x in ref:
                    L.remove(x)
                    del ref[x]
                    removals += 1
            else:
                if sum(ref.values()) > 0:
                    y = L.random_removal() if rng.random() < 0.7 else L.choose_random()
                    if y not in ref or ref[y] <= 0:
                        return fail("selection-of-absent-or-zero-weight-candidate", "selected %r, candidates %r" % (y, ref), k)
                    if y not in L:
                        del ref[y]
                        removals += 1
        except Exception as ex:
            return fail("exception:%s" % type(ex).__name__, "operation %s(%r) raised %r" % (op, x, ex), k)
        tot = sum(ref.values())
        if len(L) != len(ref) or any((i in L) != (i in ref) for i in items):
            return fail("membership", "candidates %r, reference %r" % (sorted(L.items), sorted(ref)), k)
        if L.total_weight() != tot:
            return fail("total-not-sum", "total_weight() = %r, the sum of the current weights is %r" % (L.total_weight(), tot), k)
        if (removals in marks or k % 5000 == 0) and tot > 0 and len(ref) >= 2:
            marks.discard(removals)
            checkpoints += 1
            leaves = explore(lambda: L.choose_random(), max_leaves=5000)
            got = {}
            for lf in leaves:
                if lf.error is not None:
                    return fail("exception:%s" % type(lf.error).__name__, "choose_random raised %r" % (lf.error,), k)
                got[lf.result] = got.get(lf.result, 0.0) + lf.prob
            for i, w in ref.items():
                if abs(got.get(i, 0.0) - w / tot) > 1e-9:
                    return fail("selection-probability", "candidate %r selected with probability %r, weight/total = %r" % (i, got.get(i, 0.0), w / tot), k)
    chk.cov["evaluations"] += nops
    chk.part("one candidate set through a long history", operations=nops, removals=removals, selection_law_checkpoints=checkpoints)

"""C06 support: scenarios emitted by specs/InitCond.tla, the calls into the real
ODE entry points, the comparison of index 0 of every returned series with the
specification's value, and the projection of a call onto a (t,S,I,R) trace.

Nothing here re-derives an expected value: the numbers compared with come out
of TLC (scenario records printed by InitCond!Emit).  Python builds the call,
indexes the returned arrays and compares.
"""
import itertools
import json
import os

import numpy as np

from . import tlc
from .c06_table import ENTRIES, SERIES, MAIN, statements

UNIT = 10 ** 6          # fixed point of the trace specification
BAD = -5 * 10 ** 8      # sentinel for non-finite / out-of-range values (violates Bounds)
TOL_SETS = 1e-12        # explicit sets: integers, up to float rounding of N*psihat(1)-style forms
TOL_RHO = 1e-9


# ---------------------------------------------------------------------------
# InitCond runs
# ---------------------------------------------------------------------------
def _tla_rhos(rhos):
    return "{" + ", ".join("<<%d, %d>>" % (a, b) for a, b in sorted(rhos)) + "}"


def _tla_fixed(fixed):
    out = []
    for n, edges in fixed:
        es = ", ".join("<<%d, %d>>" % (min(u, v), max(u, v)) for u, v in edges)
        out.append("<<%d, {%s}>>" % (n, es))
    return "<<" + ", ".join(out) + ">>"


def run_initcond(maxn, rhos, fixed=(), sets=True, max_inf=16, max_rec=16, workers=16, timeout=1800):
    """One TLC run of InitCond: checks Consistent / ClosedForms over the whole
    family and returns (list of Scenario in a deterministic order, TLCResult)."""
    mc = ("---- MODULE MC_InitCond ----\nEXTENDS InitCond\nMCRho == %s\nMCFixed == %s\n====\n"
          % (_tla_rhos(rhos), _tla_fixed(fixed)))
    cfg = ("CONSTANTS\n  MaxN = %d\n  RhoSet <- MCRho\n  Fixed <- MCFixed\n  SetsToo = %s\n  MaxInf = %d\n  MaxRec = %d\n"
           "SPECIFICATION Spec\nINVARIANT TypeOK\nINVARIANT ConsistentInv\nINVARIANT ClosedFormsInv\n"
           "PROPERTY Frozen\nCHECK_DEADLOCK FALSE\n"
           % (maxn, "TRUE" if sets else "FALSE", max_inf, max_rec))
    res = tlc.run_tlc("MC_InitCond", cfg, workers=workers, coverage=True, timeout=timeout,
                      files=[("MC_InitCond.tla", mc)])
    from .c06_trace import final_coverage
    res.coverage = final_coverage(res)
    scen = [Scenario(json.loads(rec[1])) for rec in res.printed("IC")]
    scen.sort(key=lambda s: s.sortkey())
    return scen, res


class Scenario(object):
    """One emitted scenario: graph, initial condition and the expected value of
    every initial quantity (numerators over `den`)."""

    def __init__(self, d):
        self.d = d
        self.n = d["n"]
        self.den = d["den"]
        self.edges = [(u - 1, v - 1) for u, v in d["edges"]]       # spec node u -> label u-1
        self.inf = [u - 1 for u in d["inf"]]
        self.rec = [u - 1 for u in d["rec"]]
        self.mode = d["mode"]
        self.rho = (d["rho"][0], d["rho"][1])
        self.ic = "rho" if self.mode == "rho" else ("explicit+recovered" if self.rec else "explicit")
        nk = d["Nk"]
        self.kmax = max(k for k in range(len(nk)) if nk[k] > 0)
        self.Ks = [k for k in range(len(nk)) if nk[k] > 0]
        self._G = None

    def sortkey(self):
        return (self.n, len(self.edges), self.edges, self.mode, self.rho, self.inf, self.rec)

    def rho_f(self):
        return self.rho[0] / float(self.rho[1])

    def graph(self):
        import networkx as nx
        if self._G is None:
            G = nx.Graph()
            G.add_nodes_from(range(self.n))
            # the contact network is a user's graph: its edges may carry data of their own under networkx's default
            # attribute name; no model was asked to use it (transmission_weight is not passed)
            G.add_edges_from((u, v, {"weight": 2.0 + ((u + v) % 3)}) for (u, v) in self.edges)
            self._G = G
        return self._G.copy()

    def features(self):
        deg = [0] * self.n
        for u, v in self.edges:
            deg[u] += 1
            deg[v] += 1
        f = set()
        if 0 in deg:
            f.add("isolated-node")
        if len(set(deg)) == 1:
            f.add("regular")
        return f

    def val(self, key):
        """the specification's value of a quantity (float array / float)"""
        x = self.d[key]
        if isinstance(x, list):
            return np.array(x, dtype=float) / self.den
        return x / float(self.den)

    def dense(self, key):
        """degree-indexed quantity truncated to 0..kmax (the library's dense layout)"""
        a = self.val(key)
        m = self.kmax + 1
        return np.ascontiguousarray(a[:m] if a.ndim == 1 else a[:m, :m])   # fresh array for every call

    def brief(self):
        return {"n": self.n, "edges": self.edges, "ic": self.ic, "initial_infecteds": self.inf,
                "initial_recovereds": self.rec, "rho": "%d/%d" % self.rho if self.mode == "rho" else None}

    def canon(self):
        """canonical form under relabelling (used only to SELECT a subset of the
        emitted scenarios in the quick tier, never as an oracle)"""
        best = None
        st = ["S"] * self.n
        for u in self.inf:
            st[u] = "I"
        for u in self.rec:
            st[u] = "R"
        for perm in itertools.permutations(range(self.n)):
            es = tuple(sorted(tuple(sorted((perm[u], perm[v]))) for u, v in self.edges))
            ss = [None] * self.n
            for u in range(self.n):
                ss[perm[u]] = st[u]
            key = (es, tuple(ss))
            if best is None or key < best:
                best = key
        return (self.n, self.mode, self.rho) + best

    def expected(self, name, shape):
        """-> (expected array for the returned shape, mask or None) or None when the
        returned shape fits no documented layout"""
        kind, key = SERIES[name]
        if kind == "scalar":
            return (np.array(self.val(key)), None) if shape == () else None
        if kind == "node":
            return (self.val(key), None) if shape == (self.n,) else None
        if kind == "nodepair":
            if shape != (self.n, self.n):
                return None
            mask = np.zeros((self.n, self.n), dtype=bool)
            for u, v in self.edges:
                mask[u, v] = mask[v, u] = True
            return self.val(key), mask            # pair series: compared on the edges
        if kind in ("deg", "degpair", "eff"):
            full = self.val(key)
            dims = 1 if kind == "deg" else 2
            if len(shape) != dims or len(set(shape)) != 1:
                return None
            m = shape[0]
            if m == self.kmax + 1:
                return (full[:m] if dims == 1 else full[:m, :m]), None
            if kind != "eff" and m == len(self.Ks):          # layout indexed by the observed degrees
                ix = np.array(self.Ks)
                return (full[ix] if dims == 1 else full[np.ix_(ix, ix)]), None
            return None
        raise KeyError(kind)


# ---------------------------------------------------------------------------
# building the call
# ---------------------------------------------------------------------------
def _poly(coef):
    """psi(x) = sum_k coef[k] x^k and its first two derivatives (inputs of the EBCM solvers)"""
    coef = [float(c) for c in coef]

    def psi(x):
        return sum(c * x ** k for k, c in enumerate(coef))

    def d1(x):
        return sum(k * c * x ** (k - 1) for k, c in enumerate(coef) if k >= 1)

    def d2(x):
        return sum(k * (k - 1) * c * x ** (k - 2) for k, c in enumerate(coef) if k >= 2)
    return psi, d1, d2


def applicable(e, sc, grid):
    if sc.ic not in e["ics"]:
        return False
    if not e["tmin"] and grid[0] != 0:
        return False
    return True


def build_call(EoN, e, sc, tau, gamma, grid, full):
    """-> (function, args, kwargs).  tau is the transmission probability p for the
    discrete-time models.  grid = (tmin, tmax, tcount); discrete: tcount ignored."""
    fn = getattr(EoN, e["name"])
    sir = e["kind"] == "SIR"
    kw = {"tmax": grid[1]}
    if e["tmin"]:
        kw["tmin"] = grid[0]
    if not e["disc"]:
        kw["tcount"] = grid[2]
    if e["full"]:
        kw["return_full_data"] = full
    rates = (tau,) if e["disc"] else (tau, gamma)
    c = e["call"]
    N = sc.n
    if c in ("fg", "fg_disc"):
        if sc.ic == "rho":
            kw["rho"] = sc.rho_f()
        else:
            kw["initial_infecteds"] = list(sc.inf)
            if sc.rec:
                kw["initial_recovereds"] = list(sc.rec)
            # a list may name a node more than once (seeds drawn with replacement, concatenated lists): same set of nodes
            if (len(sc.inf) + len(sc.edges) + len(e["name"])) % 3 == 0 and sc.inf:
                kw["initial_infecteds"] = list(sc.inf) + [list(sc.inf)[0]]
                if sc.rec:
                    kw["initial_recovereds"] = [list(sc.rec)[-1]] + list(sc.rec)
        return fn, (sc.graph(),) + rates, kw
    if c == "fg_rho":
        kw["rho"] = sc.rho_f()
        return fn, (sc.graph(),) + rates, kw
    if c == "node_rho":
        kw["rho"] = sc.rho_f()
        return fn, (sc.graph(), tau, gamma), kw
    if c == "pure":
        if sc.rec:
            kw["initial_recovereds"] = list(sc.rec)
        return fn, (sc.graph(), tau, gamma, list(sc.inf)), kw
    # ---- graph-free solvers: initial numbers = the specification's values ----
    S0, I0, R0 = sc.val("S"), sc.val("I"), sc.val("R")
    SS0, SI0, II0 = sc.val("SS"), sc.val("SI"), sc.val("II")
    nav = sc.d["M2"] / float(N)
    Nk = np.array(sc.d["Nk"][:sc.kmax + 1], dtype=float)
    if c == "hom_mf":
        a = (S0, I0, R0, nav) if sir else (S0, I0, nav)
        return fn, a + rates, kw
    if c == "hom_pw":
        a = (S0, I0, R0, SI0, SS0, nav) if sir else (S0, I0, SI0, SS0, nav)
        return fn, a + rates, kw
    if c == "het_mf":
        a = (sc.dense("Sk"), sc.dense("Ik")) + ((sc.dense("Rk"),) if sir else ())
        return fn, a + rates, kw
    if c == "het_pw":
        if sir:
            a = (sc.dense("Sk"), sc.dense("Ik"), sc.dense("Rk"), sc.dense("SkSl"), sc.dense("SkIl"))
        else:
            a = (sc.dense("Sk"), sc.dense("Ik"), sc.dense("SkSl"), sc.dense("SkIl"), sc.dense("IkIl"))
        return fn, a + rates, kw
    if c == "cp":
        if sir:
            a = (sc.dense("Sk"), I0, R0, SS0, SI0)
        else:
            a = (sc.dense("Sk"), sc.dense("Ik"), SI0, SS0, II0)
        return fn, a + rates, kw
    if c == "scp":
        if sir:
            psi, d1, d2 = _poly(sc.dense("Sk") / N)
            return fn, (R0, SS0, SI0, N, tau, gamma, psi, d1, d2), kw
        ks = np.arange(sc.kmax + 1)
        pk = Nk / N
        return fn, (S0, I0, SS0, SI0, II0, tau, gamma, float(pk.dot(ks)), float(pk.dot(ks ** 2)),
                    float(pk.dot(ks ** 3))), kw
    if c == "ed":
        a = (sc.dense("Ssi"), I0, R0) if sir else (sc.dense("Ssi"), sc.dense("Isi"))
        return fn, a + rates, kw
    if c == "ced":
        return fn, (sc.dense("Skappa"), I0, R0, SI0) + rates, kw
    if c == "ebcm":
        psi, d1, _ = _poly(sc.dense("Sk") / N)
        SX0 = SS0 + SI0 + sc.val("SR")
        kw["phiR0"] = sc.val("SR") / SX0
        kw["R0"] = R0
        return fn, (N, psi, d1) + rates + (SS0 / SX0,), kw
    if c == "ebcm_ui":
        psi, d1, _ = _poly(Nk / N)
        return fn, (N, psi, d1) + rates + (sc.rho_f(),), kw
    if c == "prefmix":
        Pk = {k: Nk[k] / N for k in sc.Ks}
        nn = np.array(sc.d["NkNl"], dtype=float)
        Pnk = {}
        for k1 in sc.Ks:
            Pnk[k1] = {k2: nn[k1][k2] / (k1 * Nk[k1]) for k2 in sc.Ks if k1 > 0 and nn[k1][k2] > 0}
        kw["rho"] = sc.rho_f()
        return fn, (N, Pk, Pnk) + rates, kw
    raise KeyError(c)


# ---------------------------------------------------------------------------
# comparing one returned tuple with the specification
# ---------------------------------------------------------------------------
def _index0(x, nrows):
    """value of a returned series at index 0 (time is the last axis); None if the
    object is not a series over the returned time grid"""
    if isinstance(x, dict):
        out = {}
        for k, v in x.items():
            a = np.asarray(v, dtype=float)
            if a.ndim != 1 or a.shape[0] != nrows:
                return None
            out[k] = a[0]
        return out
    try:
        a = np.asarray(x, dtype=float)
    except Exception:
        return None
    if a.ndim < 1 or a.shape[-1] != nrows:
        return None
    return a[..., 0]


def _close(got, exp, tol):
    got = np.asarray(got, dtype=float)
    exp = np.asarray(exp, dtype=float)
    if not np.all(np.isfinite(got)):
        return False
    return bool(np.all(np.abs(got - exp) <= tol * np.maximum(1.0, np.abs(exp))))


def series_matches(sc, name, v0, tol):
    """-> None if v0 equals the specification's value of series `name`, else a reason"""
    if name == "times":
        return None
    if v0 is None:
        return "shape"
    if SERIES[name][0] == "theta":
        one = sc.val("theta")
        vals = list(v0.values()) if isinstance(v0, dict) else [v0]
        if isinstance(v0, dict) and sorted(v0.keys()) != sc.Ks:
            return "shape"
        if not isinstance(v0, dict) and np.shape(v0) != ():
            return "shape"
        return None if all(_close(x, one, tol) for x in vals) else "value"
    if isinstance(v0, dict):
        return "shape"
    ex = sc.expected(name, np.shape(v0))
    if ex is None:
        return "shape"
    exp, mask = ex
    if mask is not None:
        return None if _close(np.asarray(v0)[mask], exp[mask], tol) else "value"
    return None if _close(v0, exp, tol) else "value"


def compare_row0(e, sc, full, ret):
    """-> (problems, notes, statement used for the trace projection)
    problems: list of (failure class, text)."""
    name = e["name"]
    tol = TOL_RHO if sc.ic == "rho" else TOL_SETS
    if not isinstance(ret, tuple) or len(ret) < 3:
        return [("return-type", "%s returned %s, not a tuple of series" % (name, type(ret).__name__))], [], None
    arity = len(ret)
    try:
        nrows = len(ret[0])
    except Exception:
        return [("return-type", "%s: the first returned object is not a time array" % name)], [], None
    own, sib = statements(name, full)
    v0 = [_index0(x, nrows) for x in ret]

    def evaluate(stmt):
        bad, soft = [], []
        for pos, nm in enumerate(stmt):
            r = series_matches(sc, nm, v0[pos], tol)
            if r is None:
                continue
            # the property demands S, I, R for rho and every series for explicit sets
            if sc.ic == "rho" and nm not in MAIN:
                soft.append((nm, pos, r))
            else:
                bad.append((nm, pos, r))
        return bad, soft

    def kind_ok(st):       # an SIR statement names a recovered series, an SIS statement does not
        has_r = any(x in st for x in ("R", "Rk", "Rs", "Zs"))
        return has_r == (e["kind"] == "SIR")
    own_c = [s for s in own if len(s) == arity]
    own_c = [s for s in own_c if kind_ok(s)] or own_c      # copy-pasted statements of the other model last
    sib_c = [s for s in sib if len(s) == arity]
    notes = []
    # the own docstring decides whenever it speaks about this arity; the sibling's otherwise
    origin, cands = ("own", own_c) if own_c else ("sibling", sib_c)
    tried = [(origin, st) + evaluate(st) for st in cands]
    good = [t for t in tried if not t[2]]
    if good:
        good.sort(key=lambda t: len(t[3]))          # prefer the statement that explains every series
        origin, st, bad, soft = good[0]
        for nm, pos, r in soft:
            notes.append(("%s|rho-aux|%s" % (name, nm),
                          "%s (rho): auxiliary series %s at index 0 %s from the expected count %s (scenario %s)"
                          % (name, nm, "has a different shape" if r == "shape" else "= %s deviates" % _fmt(v0[pos]),
                             _fmt_exp(sc, nm, v0[pos]), sc.brief())))
        if origin == "sibling":
            notes.append(("%s|sibling-order|%s" % (name, full),
                          "%s(return_full_data=%s) returns %d series; its own docstring documents %s; "
                          "the order documented by its sibling (%s) matches the code"
                          % (name, full, arity, " / ".join(str(len(s)) for s in own) or "none", ", ".join(st))))
        return [], notes, st
    if not tried:
        docs = " / ".join(", ".join(s) for s in own) or "(nothing)"
        return [("arity:documented-%s-returned-%d" % ("-or-".join(str(len(s)) for s in own) or "0", arity),
                 "%s(return_full_data=%s) returns %d series but documents %s (sibling: %s)"
                 % (name, full, arity, docs, " / ".join(", ".join(s) for s in sib) or "nothing"))], notes, \
            _fallback_stmt(name, arity)
    # report against the statement that explains most of what was returned
    origin, st, bad, soft = min(tried, key=lambda t: len(t[2]))
    names = [nm for nm, _, _ in bad]
    if any(nm in MAIN for nm in names):
        names = [nm for nm in names if nm in MAIN]       # S, I, R wrong: the auxiliary series follow
    fclass = None
    if len(bad) >= 2:
        # is the mismatch a permutation of the documented positions?
        poss = [pos for _, pos, _ in bad]
        for perm in itertools.permutations(poss):
            if all(series_matches(sc, nm, v0[q], tol) is None for (nm, _, _), q in zip(bad, perm)):
                fclass = "order:" + "<->".join(nm for nm, _, _ in bad)
                break
    if fclass is None:
        if all(r == "shape" for _, _, r in bad):
            fclass = "row0-shape:" + ",".join(names)
        else:
            fclass = "row0:" + ",".join(names)
    det = "; ".join("%s (position %d) = %s, specification %s" % (nm, pos, _fmt(v0[pos]), _fmt_exp(sc, nm, v0[pos]))
                    for nm, pos, _ in bad)
    return [(fclass, "%s(return_full_data=%s), documented order [%s]: at index 0 %s"
             % (name, full, ", ".join(st), det))], notes, st


def _fallback_stmt(name, arity):
    own, sib = statements(name, False)
    for st in own + sib:
        if len(st) <= arity:
            return st
    return None


def _fmt(v):
    if v is None:
        return "<not a series over the time grid>"
    if isinstance(v, dict):
        return "{" + ", ".join("%s: %s" % (k, _fmt(x)) for k, x in sorted(v.items())) + "}"
    a = np.asarray(v, dtype=float)
    return np.array2string(a, precision=6, separator=",", threshold=40).replace("\n", "")


def _fmt_exp(sc, nm, got):
    kind, key = SERIES[nm]
    if kind == "theta":
        return "1"
    shp = np.shape(got) if got is not None and not isinstance(got, dict) else None
    ex = sc.expected(nm, shp) if shp is not None else None
    if ex is None:
        return "%s = %s (dense layout)" % (key, _fmt(sc.dense(key) if kind in ("deg", "degpair", "eff") else sc.val(key)))
    return _fmt(ex[0])


# ---------------------------------------------------------------------------
# projection onto a trace of the monitor specification
# ---------------------------------------------------------------------------
def _fx(v):
    if not np.isfinite(v) or abs(v) > 400.0:
        return BAD
    return int(round(float(v) * UNIT))


def _total(x, nrows):
    a = np.asarray(x, dtype=float)
    if a.ndim == 2 and a.shape[1] == nrows:
        a = a.sum(axis=0)
    if a.ndim != 1:
        return None
    return a


def project_trace(e, sc, tau, gamma, grid, ret, stmt):
    """-> dict for TraceCompartmentFlow, or (None, reason)"""
    sir = e["kind"] == "SIR"
    if stmt is None:
        return None
    pos = {}
    for want, alts in (("S", ("S", "Sk", "Ss", "Xs")), ("I", ("I", "Ik", "Is", "Ys")), ("R", ("R", "Rk", "Rs", "Zs"))):
        for a in alts:
            if a in stmt:
                pos[want] = stmt.index(a)
                break
    if "S" not in pos or "I" not in pos or (sir and "R" not in pos):
        return None
    try:
        t = np.asarray(ret[0], dtype=float)
        nrows = len(t)
        S = _total(ret[pos["S"]], nrows)
        I = _total(ret[pos["I"]], nrows)
        R = _total(ret[pos["R"]], nrows) if sir else np.zeros(nrows)
    except Exception:
        return None
    if t.ndim != 1 or S is None or I is None or R is None:
        return None
    m = min(len(S), len(I), len(R))
    rows = [[_fx(t[j]), _fx(S[j]), _fx(I[j]), _fx(R[j])] for j in range(m)] if m == nrows else \
        [[_fx(t[j]) if j < nrows else BAD, _fx(S[j]), _fx(I[j]), _fx(R[j])] for j in range(m)]
    tcount = (grid[1] - grid[0] + 1) if e["disc"] else grid[2]
    moved = bool(m >= 2 and (abs(S[-1] - S[0]) > 1e-6 or abs(I[-1] - I[0]) > 1e-6)) if m else False
    return {"N": sc.n * UNIT, "sir": sir, "disc": bool(e["disc"]), "tau0": tau == 0,
            "gam0": (gamma == 0) and not e["disc"], "tmin": int(round(grid[0] * UNIT)), "tmax": int(round(grid[1] * UNIT)),
            "tcount": int(tcount), "rows": rows, "_moved": moved}


def fine_grid_problem(e, grid, ret):
    """times against linspace(tmin, tmax, tcount) at 1e-12 (complements the Grid clause
    of the monitor, which works at the fixed-point resolution 1e-6)"""
    try:
        t = np.asarray(ret[0], dtype=float)
    except Exception:
        return None
    exp = np.arange(grid[0], grid[1] + 1, dtype=float) if e["disc"] else np.linspace(grid[0], grid[1], grid[2])
    if t.shape != exp.shape:
        return None           # row count: decided by the monitor (RowCount)
    if np.all(np.abs(t - exp) <= 1e-12 * max(1.0, abs(grid[1]))):
        return None
    return "times = %s, linspace(tmin,tmax,tcount) = %s" % (_fmt(t), _fmt(exp))


# ---------------------------------------------------------------------------
# one task (runs in a pool worker)
# ---------------------------------------------------------------------------
SCEN = []      # set by the check before forking
EON = None


def exc_class(ex):
    nm = type(ex).__name__
    msg = str(ex)
    if isinstance(ex, (NameError, UnboundLocalError)):
        import re
        m = re.search(r"'(\w+)'", msg)
        if m:
            nm += "(%s)" % m.group(1)
    return nm


def run_task(task):
    """task = (entry name, scenario index, tau, gamma, (tmin,tmax,tcount), full)"""
    import warnings
    warnings.filterwarnings("ignore")
    name, si, tau, gamma, grid, full = task
    e = ENTRIES[name]
    sc = SCEN[si]
    out = {"problems": [], "notes": [], "trace": None, "exc": None}
    try:
        fn, args, kw = build_call(EON, e, sc, tau, gamma, grid, full)
    except Exception as ex:      # the harness could not even build the inputs: machinery
        out["machinery"] = "build_call(%s): %r" % (name, ex)
        return out
    out["call"] = {"args": [_jsonable(a) for a in args[1:] if not callable(a)] if e["cat"] == "graph"
                   else [_jsonable(a) for a in args if not callable(a)], "kwargs": {k: _jsonable(v) for k, v in kw.items()}}
    old = np.seterr(all="ignore")
    primed = False
    if e["cat"] == "graph" and (si + len(name)) % 2 == 0:
        # a history: the SAME Graph object was first used while it had another structure (a star plus an extra
        # node), then edited in place into the scenario's graph.  Anything remembered per graph object is stale now.
        G = args[0]
        try:
            nodes = list(G.nodes())
            edges = list(G.edges(data=True))
            if len(nodes) >= 2:
                G.remove_edges_from(list(G.edges()))
                extra = "__earlier_node__"
                G.add_node(extra)
                for v in nodes[1:]:
                    G.add_edge(nodes[0], v)
                G.add_edge(nodes[-1], extra)
                try:
                    fn(*args, **kw)
                except Exception:
                    pass
                G.remove_node(extra)
                G.remove_edges_from(list(G.edges()))
                G.add_edges_from(edges)
                primed = True
        except Exception as ex:
            out["machinery"] = "priming the graph object failed: %r" % (ex,)
            return out
    out["primed"] = primed
    try:
        ret = fn(*args, **kw)
    except Exception as ex:
        import traceback
        tb = traceback.extract_tb(ex.__traceback__)
        where = "%s:%d" % (os.path.basename(tb[-1].filename), tb[-1].lineno) if tb else "?"
        out["exc"] = (exc_class(ex), "%s: %s at %s" % (type(ex).__name__, str(ex)[:200], where))
        return out
    finally:
        np.seterr(**old)
    probs, notes, stmt = compare_row0(e, sc, full, ret)
    out["problems"] = probs
    out["notes"] = notes
    fg = fine_grid_problem(e, grid, ret)
    if fg:
        out["problems"].append(("grid-fine", "%s: %s" % (name, fg)))
    tr = project_trace(e, sc, tau, gamma, grid, ret, stmt)
    if tr is None and not any(p[0].startswith(("arity", "return-type")) for p in probs):
        out["problems"].append(("unbindable", "%s: the returned tuple has no (t,S,I%s) series of equal length"
                                % (name, ",R" if e["kind"] == "SIR" else "")))
    out["trace"] = tr
    return out


def _jsonable(a):
    if isinstance(a, np.ndarray):
        return a.tolist()
    if isinstance(a, (np.floating, np.integer)):
        return a.item()
    if isinstance(a, dict):
        return {str(k): _jsonable(v) for k, v in a.items()}
    if isinstance(a, (list, tuple)):
        return [_jsonable(x) for x in a]
    return a

"""Generic spec -> code walk (binding B1): explore the implementation's decision
tree for one scenario, validate every leaf path-wise against the specification's
transition relation (early exit on the first impossible event), then compare the
next-event kernel / clock rate / stopping behaviour at every history."""
from . import kernel, observe, confirm
from .scripted import explore, Incomplete, Unmodelled, tagged

N_CONFIRM = 20000        # seeded real runs used to confirm an exact-stage finding
N_UNMODELLED = 5000      # seeded real runs per scenario when the scripted source cannot follow the implementation


def settle(problems, unmodelled, real, st0, succ, rate_unit, cls, seed0=0):
    """Exact-stage findings that depend on the scripted source modelling the implementation's use of random numbers
    are replaced by what seeded runs with the real random source confirm (harness/confirm.py).
    returns (problems, info or None)"""
    need = confirm.needs_confirmation(problems)
    if not need and unmodelled is None:
        return problems, None
    if real is None:
        if unmodelled is not None:
            raise Unmodelled(unmodelled)
        return problems, None
    n = N_UNMODELLED if (unmodelled is not None and not need) else N_CONFIRM
    conf, cstats = confirm.confirm(real, st0, succ, rate_unit, n, seed0=seed0)
    kept = [p for p in problems if p["kind"] not in confirm.CONFIRMABLE]
    for c in conf:
        c["cls"] = cls
        c["detail"] += " [exact stage: %s]" % ("; ".join(sorted({p["kind"] for p in need})) or "not applicable: " + str(unmodelled))
    info = {"runs": cstats["runs"], "histories": cstats["histories"], "tests": cstats["tests"],
            "exact_stage": sorted({p["kind"] for p in need}), "unmodelled": unmodelled, "confirmed": sorted({c["kind"] for c in conf}),
            "example": (need[0]["detail"] if need else None)}
    return kept + conf, info


def walk(fn_full, parse, st0, succ, rate_unit, horizon, max_exp, max_leaves=60000, cls="", real=None):
    """parse(leaf) -> (events, problems) where problems is a list of dicts(kind, detail);
    succ(st) -> [(event_key, rate_numerator, st2)].
    real(seed) -> one run with the real random source (see confirm.confirm), used to settle findings that depend on
    the scripted source.   returns dict(problems, leaves, events, nodes, recs, settled)"""
    problems = []
    recs = []
    counters = {"events": 0}

    def on_leaf(l):
        if l.loop is not None:
            return False
        if l.error is not None:
            problems.append({"kind": "exception:%s" % type(l.error).__name__, "cls": cls,
                             "detail": "raised %r" % (l.error,), "script": l.script})
            return True
        # every selection of a candidate belongs to an event with its own waiting time: a run that selects more often
        # than it draws waiting times lets (null) events happen without advancing the clock.  Checked on every path,
        # so that an event loop which spins is recognised on the first leaf and not after enumerating its whole tree.
        nsel = sum(1 for t in l.tape if t[0] == "choice")
        nexp = sum(1 for t in l.tape if t[0] == "exp")
        if nsel > nexp + 2 and nsel > 2 * (nexp + 1):
            problems.append({"kind": "exception:Runaway", "cls": cls, "script": l.script,
                             "detail": "the run made %d selections but drew only %d waiting times: events that do not advance the clock" % (nsel, nexp)})
            return True
        ev, pr = parse(l)
        for p in pr:
            p.setdefault("cls", cls)
            p["script"] = l.script
            problems.append(p)
        if pr:
            return True
        st = st0
        for i, e in enumerate(ev):
            nxt = [x for x in succ(st) if x[0] == e]
            if not nxt:
                problems.append({"kind": "impossible-event", "cls": cls, "history": ev[:i],
                                 "detail": "event %r is not enabled in the specification state %r" % (e, st),
                                 "script": l.script})
                return True
            st = nxt[0][2]
        recs.append({"prob": None, "events": ev, "exps": observe.exp_rates(l.tape), "leaf": l})
        counters["events"] += len(ev)
        return False

    unmodelled = None
    try:
        with tagged():
            leaves = explore(fn_full, max_exp=max_exp, on_leaf=on_leaf, max_leaves=max_leaves, deep_is_error=(max_exp is not None))
    except Unmodelled as ex:
        unmodelled = str(ex)
        leaves = Incomplete()
        del problems[:]
    stats = {"nodes": 0}
    if not isinstance(leaves, Incomplete):
        for r in recs:
            r["prob"] = r["leaf"].prob
        probs, stats = kernel.compare(recs, st0, succ, rate_unit, horizon=horizon)
        for p in probs:
            p["cls"] = cls
            problems.append(p)
    else:
        recs = []
    problems, info = settle(problems, unmodelled, real, st0, succ, rate_unit, cls)
    if info is not None and (info["unmodelled"] or info["exact_stage"]):
        recs = [] if info["unmodelled"] else recs
    return {"problems": problems, "leaves": len(leaves), "events": counters["events"], "nodes": stats["nodes"], "recs": recs, "settled": info}

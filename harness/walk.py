"""Generic spec -> code walk (binding B1): explore the implementation's decision
tree for one scenario, validate every leaf path-wise against the specification's
transition relation (early exit on the first impossible event), then compare the
next-event kernel / clock rate / stopping behaviour at every history."""
from . import kernel, observe
from .scripted import explore, Incomplete


def walk(fn_full, parse, st0, succ, rate_unit, horizon, max_exp, max_leaves=60000, cls=""):
    """parse(leaf) -> (events, problems) where problems is a list of dicts(kind, detail);
    succ(st) -> [(event_key, rate_numerator, st2)].
    returns dict(problems, leaves, events, nodes, recs)"""
    problems = []
    recs = []
    counters = {"events": 0}

    def on_leaf(l):
        if l.loop is not None:
            return False
        if l.error is not None:
            problems.append({"kind": "exception:%s" % type(l.error).__name__, "cls": cls,
                             "detail": "raised %r" % (l.error,), "script": l.script})
            return True
        ev, pr = parse(l)
        for p in pr:
            p.setdefault("cls", cls)
            p["script"] = l.script
            problems.append(p)
        if pr:
            return True
        st = st0
        for i, e in enumerate(ev):
            nxt = [x for x in succ(st) if x[0] == e]
            if not nxt:
                problems.append({"kind": "impossible-event", "cls": cls, "history": ev[:i],
                                 "detail": "event %r is not enabled in the specification state %r" % (e, st),
                                 "script": l.script})
                return True
            st = nxt[0][2]
        recs.append({"prob": None, "events": ev, "exps": observe.exp_rates(l.tape), "leaf": l})
        counters["events"] += len(ev)
        return False

    leaves = explore(fn_full, max_exp=max_exp, on_leaf=on_leaf, max_leaves=max_leaves, deep_is_error=(max_exp is not None))
    stats = {"nodes": 0}
    if not isinstance(leaves, Incomplete):
        for r in recs:
            r["prob"] = r["leaf"].prob
        probs, stats = kernel.compare(recs, st0, succ, rate_unit, horizon=horizon)
        for p in probs:
            p["cls"] = cls
            problems.append(p)
    else:
        recs = []
    return {"problems": problems, "leaves": len(leaves), "events": counters["events"], "nodes": stats["nodes"], "recs": recs}

"""Spec -> code binding of property C16 (candidate set `_ListDict_`).

TLC side
  * `ref_graph(consts)`      WeightedBag.tla: invariants + emission of the op-labelled
                             graph (edges `G`, per-state observables `O`).
  * `impl_check(consts, w)`  ListDictImpl.tla: all invariants + refinement of WeightedBag
                             over every history in the bound.
  * `impl_histories(...)`    ListDictImpl.tla, VIEW without the op counter, one worker:
                             one shortest history per distinct implementation state,
                             with the implementation-level state TLC computed for it.
  * `impl_drift(consts)`     informational: TLC's shortest history after which
                             max_weight_count / max_weight are not exact (NOTE only).

Code side
  * `check_node`             applies one history (list of calls) to a fresh real
                             `_ListDict_` and compares the API observables with the
                             reference state TLC emitted: len, membership,
                             total_weight(), the exact distribution of choose_random()
                             and of random_removal() (scripted source, rejection folded).
  * `walk_task`              depth-first walk of every path of the emitted graph below
                             one prefix (all histories of the bounded alphabet).

Expected values are only ever looked up in what TLC printed.
"""
import re

from . import tlc
from .scripted import explore, Unmodelled

# items of the specification (1..N) are bound to hashables of the kinds the
# simulators store (nodes, (node, nbr) edges)
LABELS = {1: (1, 2), 2: "b", 3: 3, 4: (2, 1), 5: 0}
NONE = -1          # the specification's encoding of Python's None
TOL = 1e-12

INV_IMPL = ["NoError", "TypeOK", "PosItemsConsistent", "KeysConsistent", "TotalIsSum",
            "UpperBound", "ObservablesAgree", "SelectionExact", "ZeroNeverSelected"]
INV_REF = ["TypeOK", "SelLaw", "SelectIffPositive"]
PROP_REF = ["Frame", "TotalTracks", "InsertReplaces"]


def consts(n, max_ops, weighted, weights=(0, 1, 2, 3), incs=(0, 1, 2), resum=True):
    if weighted:
        return {"N": n, "Weights": set(weights), "Incs": set(incs), "MaxOps": max_ops, "AllowResum": bool(resum)}
    return {"N": n, "Weights": {1}, "Incs": set(), "MaxOps": max_ops, "AllowResum": False}


# ----------------------------------------------------------------------------
# TLC runs
# ----------------------------------------------------------------------------
class RefGraph(object):
    """edges[s][op] = s2 and obs[s] = (size, total, selnum vector) exactly as printed
    by TLC; s is the tuple of weights with -1 for an absent item."""

    def __init__(self, n):
        self.n = n
        self.edges = {}
        self.obs = {}
        self.nedges = 0

    def succ(self, s, op):
        return self.edges[s][op]


def ref_graph(c, timeout=1800):
    cfg = tlc.cfg_text(c, view="View", invariants=INV_REF + ["EmitState"], properties=PROP_REF,
                       action_constraints=["EmitEdge"])
    res = tlc.run_tlc("WeightedBag", cfg, workers=1, coverage=True, timeout=timeout)
    g = RefGraph(c["N"])
    if res.violation:
        return g, res
    for rec in res.printed("G"):
        _, s, op, s2 = rec
        g.edges.setdefault(tuple(s), {})[tuple(op)] = tuple(s2)
        g.nedges += 1
    for rec in res.printed("O"):
        _, s, size, total, sel = rec
        g.obs[tuple(s)] = (size, total, tuple(sel))
    if g.nedges != res.generated - 1 or len(g.obs) != res.distinct:
        raise tlc.TLCError("emitted %d edges / %d states but TLC reports %d successor states / %d distinct"
                           % (g.nedges, len(g.obs), res.generated - 1, res.distinct))
    for s, d in g.edges.items():
        for op, s2 in d.items():
            if s2 not in g.obs:
                raise tlc.TLCError("edge into a state without emitted observables: %r" % (s2,))
    return g, res


def impl_check(c, weighted, timeout=3000, workers=16):
    cc = dict(c, Weighted=bool(weighted))
    cfg = tlc.cfg_text(cc, view="View", invariants=INV_IMPL, properties=["RefSpec"])
    return tlc.run_tlc("ListDictImpl", cfg, workers=workers, coverage=True, timeout=timeout)


def impl_inductive(n, weighted, wmax, invariants=("IndInv", "ObservablesAgree", "SelectionExact", "ZeroNeverSelected"), timeout=3000, workers=8):
    """ListDictInd.tla: TLC starts in EVERY state satisfying IndInv inside the value box and takes one call of every
    kind; the invariants are required of every successor (inductiveness by enumeration, history length unbounded)."""
    cc = {"N": n, "Weights": set(range(0, 4)) if weighted else {1}, "Incs": {0, 1, 2} if weighted else set(), "MaxOps": 1,
          "AllowResum": bool(weighted), "Weighted": bool(weighted), "WMax": wmax, "CntBelow": 2, "CntHi": n + 1}
    cfg = tlc.cfg_text(cc, invariants=list(invariants), init="IndInit", next_="Next")
    return tlc.run_tlc("ListDictInd", cfg, workers=workers, coverage=True, timeout=timeout)


def branch_coverage(res, module="ListDictImpl"):
    """{marker: count}: TLC's expression-level coverage of the spec lines that carry an
    `@cov:<name>` comment (largest count of an expression starting on that line)."""
    import os
    marks = {}
    with open(os.path.join(tlc.SPECS, module + ".tla")) as fh:
        for i, ln in enumerate(fh, 1):
            m = re.search(r"\\\*.*@cov:([\w-]+)", ln)
            if m:
                marks[i] = m.group(1)
    out = {v: 0 for v in marks.values()}
    for m in re.finditer(r"line (\d+), col \d+ to line \d+, col \d+ of module %s: (\d+)" % module, res.stdout):
        ln = int(m.group(1))
        if ln in marks:
            out[marks[ln]] = max(out[marks[ln]], int(m.group(2)))
    return out


def impl_histories(c, weighted, timeout=3000):
    """[(history, impl-level state)] one per distinct state of ListDictImpl."""
    cc = dict(c, Weighted=bool(weighted))
    cfg = tlc.cfg_text(cc, view="ViewNoK", invariants=["EmitHist"])
    res = tlc.run_tlc("ListDictImpl", cfg, workers=1, timeout=timeout)
    out = []
    for rec in res.printed("H"):
        _, hist, items, total, maxw, maxcnt = rec
        out.append(([tuple(x) for x in hist], {"items": list(items), "total": total, "maxw": maxw, "maxcnt": maxcnt}))
    if len(out) != res.distinct:
        raise tlc.TLCError("emitted %d histories but TLC found %d distinct states" % (len(out), res.distinct))
    return out, res


def impl_drift(c, inv, timeout=600):
    """Shortest history (TLC counterexample, BFS) after which `inv` (MaxTight or
    CountExact) fails in ListDictImpl; None when it holds in the bound."""
    cc = dict(c, Weighted=True)
    cfg = tlc.cfg_text(cc, view="View", invariants=[inv])
    res = tlc.run_tlc("ListDictImpl", cfg, workers=1, timeout=timeout)
    if not res.violation:
        return None, res
    last = {}
    for var in ("hist", "maxw", "maxcnt", "weight"):
        ms = re.findall(r"^/\\ %s = (.*)$" % var, res.stdout, re.M)
        if ms:
            try:
                last[var] = tlc.parse_value(ms[-1])
            except Exception:
                last[var] = ms[-1]
    return last, res


# ----------------------------------------------------------------------------
# driving the real class
# ----------------------------------------------------------------------------
def calls_of(op, weighted):
    """implementation calls that realise one reference operation"""
    if weighted:
        return [op]
    if op[0] == "I":
        return [("I", op[1], NONE), ("U", op[1], NONE)]
    return [op]


def ref_op(call, weighted):
    """reference operation of one implementation call (ListDictImpl!RefOp)"""
    if weighted or call[0] not in ("I", "U"):
        return tuple(call)
    return ("I", call[1], 1)


def apply_call(L, call, unit):
    kind, x, a = call
    if kind == "I":
        if a == NONE:
            L.insert(LABELS[x])
        else:
            L.insert(LABELS[x], weight=a * unit)
    elif kind == "U":
        if a == NONE:
            L.update(LABELS[x])
        else:
            L.update(LABELS[x], weight_increment=a * unit)
    elif kind in ("R", "S"):
        L.remove(LABELS[x])
    elif kind == "T":
        L.update_total_weight()
    else:
        raise ValueError(call)


def build(history, weighted, unit):
    import EoN.simulation as sim
    L = sim._ListDict_(weighted=True) if weighted else sim._ListDict_()
    for c in history:
        apply_call(L, c, unit)
    return L


def observe(L, n):
    return (len(L), tuple((LABELS[x] in L) for x in range(1, n + 1)), L.total_weight())


def pycall(call, unit):
    kind, x, a = call
    lab = LABELS.get(x)
    if kind == "I":
        return "insert(%r)" % (lab,) if a == NONE else "insert(%r, weight=%r)" % (lab, a * unit)
    if kind == "U":
        return "update(%r)" % (lab,) if a == NONE else "update(%r, weight_increment=%r)" % (lab, a * unit)
    if kind in ("R", "S"):
        return "remove(%r)" % (lab,)
    return "update_total_weight()"


def pyhist(history, unit):
    return "; ".join(pycall(c, unit) for c in history)


def _expected_obs(g, s, unit):
    size, total, sel = g.obs[s]
    return (size, tuple(w >= 0 for w in s), total * unit)


def check_node(g, s, history, weighted, unit, select=True):
    """Apply `history` to a fresh real object; compare with reference state `s`.
    Returns (problems, counters)."""
    n = g.n
    wcls = ("weighted" if weighted else "unweighted")
    cnt = {"leaves": 0, "selections": 0}
    problems = []

    def bad(entry, kind, detail, **extra):
        p = {"key": "_ListDict_.%s|%s|%s" % (entry, kind, wcls), "detail": detail, "history": [list(c) for c in history],
             "python": pyhist(history, unit), "ref_state": list(s), "weighted": weighted, "unit": unit}
        p.update(extra)
        problems.append(p)

    last = history[-1] if history else None
    try:
        L = build(history, weighted, unit)
        got = observe(L, n)
    except Exception as ex:
        ent = {"I": "insert", "U": "update", "R": "remove", "T": "update_total_weight", None: "__init__"}[last[0] if last else None]
        bad(ent, "exception:%s" % type(ex).__name__, "history raised %r where the specification allows every operation of it" % (ex,))
        return problems, cnt
    want = _expected_obs(g, s, unit)
    if got[0] != want[0]:
        bad("__len__", "len", "len() = %r, specification Size = %r" % (got[0], want[0]))
    if got[1] != want[1]:
        bad("__contains__", "membership", "membership %r, specification %r" % (got[1], want[1]))
    if weighted:
        if got[2] != want[2]:
            bad("total_weight", "total-not-sum", "total_weight() = %r, specification Total = %r (sum of current weights)" % (got[2], want[2]))
    elif got[2] != want[0]:
        bad("total_weight", "total-not-len", "unweighted total_weight() = %r, specification Total = %r" % (got[2], want[0]))
    size, total, sel = g.obs[s]
    if not select or total <= 0:
        return problems, cnt
    # ---- selection law: choose_random (no effect) and random_removal -------------
    expect = {x: sel[x - 1] for x in range(1, n + 1) if sel[x - 1] > 0}
    sel_edges = {op[1]: (op[2], s2) for op, s2 in g.edges.get(s, {}).items() if op[0] == "S"}
    if s not in g.edges:
        raise tlc.TLCError("reference state %r has no emitted edges (graph bound too small for this history)" % (s,))
    if {x: v[0] for x, v in sel_edges.items()} != expect:
        raise tlc.TLCError("Select edges %r disagree with SelNum %r in state %r" % (sel_edges, expect, s))
    inv = {LABELS[x]: x for x in range(1, n + 1)}
    for entry in ("choose_random", "random_removal"):
        def fn():
            L = build(history, weighted, unit)
            x = getattr(L, entry)()
            return (x, observe(L, n))
        try:
            leaves = explore(fn, max_leaves=4 * n + 8, max_branches=12)
        except Unmodelled as ex:
            if "zero acceptance" in str(ex):
                bad(entry, "never-terminates", "the rejection loop can never accept although the specification's SelDen = %r > 0" % (total,))
                continue
            raise
        cnt["leaves"] += len(leaves)
        cnt["selections"] += 1
        dist = {}
        ok = True
        for l in leaves:
            if l.error is not None:
                bad(entry, "exception:%s" % type(l.error).__name__, "%s() raised %r with total weight %r" % (entry, l.error, total * unit))
                ok = False
                break
            lab, after = l.result
            try:
                x = inv.get(lab)
            except TypeError:
                x = None
            if x is None:
                bad(entry, "returned-unknown-item", "%s() returned %r" % (entry, lab))
                ok = False
                break
            dist[x] = dist.get(x, 0.0) + l.prob
            if x not in expect:
                kind = "zero-weight-selected" if s[x - 1] == 0 else "absent-item-selected"
                bad(entry, kind, "%s() can return %r whose specification numerator is 0 (state %r)" % (entry, lab, list(s)))
                ok = False
                break
            s_after = s if entry == "choose_random" else sel_edges[x][1]
            if after[:2] != _expected_obs(g, s_after, unit)[:2] or \
                    (after[2] != (g.obs[s_after][1] * unit if weighted else g.obs[s_after][0])):
                bad(entry, "state-after-selection", "after %s() -> %r the observables are %r, specification state %r" % (entry, lab, after, list(s_after)))
                ok = False
                break
        if not ok:
            continue
        for x in sorted(set(dist) | set(expect)):
            p = dist.get(x, 0.0)
            q = expect.get(x, 0) / float(total)
            if abs(p - q) > TOL:
                bad(entry, "selection-probability",
                    "P(%s() = %r) = %.15g, specification SelNum/SelDen = %d/%d (state %r; implementation distribution %r)"
                    % (entry, LABELS[x], p, expect.get(x, 0), total, list(s), {repr(LABELS[y]): round(v, 12) for y, v in sorted(dist.items())}))
                break
    return problems, cnt


# ----------------------------------------------------------------------------
# process pool with a cooperative early stop
# ----------------------------------------------------------------------------
# harness.common.pool_run stops early with Pool.terminate(); a worker killed while it
# holds the result-queue lock leaves terminate() deadlocked (seen with a mutant that
# makes every task fail fast).  Here the stop is cooperative: a shared flag turns the
# remaining tasks into no-ops, the iterator is drained and the pool is closed normally.
_POOL_FN = None
_POOL_STOP = None


def _pool_guarded(pair):
    i, item = pair
    if _POOL_STOP.is_set():
        return i, None
    return i, _POOL_FN(item)


def pool_run(fn, items, is_bad, stop_after=10, procs=None):
    """Unordered fork-based parallel map; after `stop_after` bad results the remaining
    items are skipped.  Returns [(item, result)] of the items actually evaluated."""
    import multiprocessing as mp
    import os
    global _POOL_FN, _POOL_STOP
    items = list(items)
    procs = procs or min(16, os.cpu_count() or 1)
    out = []
    bad = 0
    if procs <= 1 or len(items) < 4:
        for it in items:
            r = fn(it)
            out.append((it, r))
            bad += 1 if is_bad(r) else 0
            if bad >= stop_after:
                break
        return out
    ctx = mp.get_context("fork")
    _POOL_FN = fn
    _POOL_STOP = ctx.Event()
    chunksize = max(1, min(64, len(items) // (procs * 16)))
    from .common import _limit_worker_memory
    pool = ctx.Pool(procs, initializer=_limit_worker_memory)
    try:
        for i, r in pool.imap_unordered(_pool_guarded, list(enumerate(items)), chunksize=chunksize):
            if r is None:
                continue
            out.append((items[i], r))
            if is_bad(r):
                bad += 1
                if bad >= stop_after:
                    _POOL_STOP.set()
        pool.close()
        pool.join()
    except BaseException:
        pool.terminate()
        raise
    return out


def shrink(g, prob):
    """Greedy minimisation of a failing history: drop calls while the history stays a
    path of the emitted graph and the same failure class is observed at its end."""
    weighted, unit = prob["weighted"], prob["unit"]
    hist = [tuple(c) for c in prob["history"]]
    best = prob
    s0 = tuple([-1] * g.n)
    progress = True
    while progress:
        progress = False
        for i in range(len(hist)):
            h2 = hist[:i] + hist[i + 1:]
            s = s0
            try:
                for c in h2:
                    s = g.succ(s, ref_op(c, weighted))
            except KeyError:
                continue
            ps, _ = check_node(g, s, h2, weighted, unit)
            same = [q for q in ps if q["key"] == prob["key"]]
            if same:
                hist, best, progress = h2, same[0], True
                break
    return best


# ----------------------------------------------------------------------------
# all histories: walk of the emitted graph
# ----------------------------------------------------------------------------
G = None   # RefGraph, set by the check before forking (per mode)


def extensions(g, s, weighted):
    """(call, next reference state) for every reference operation leaving s, except the
    Select edges (random_removal is examined at every node)."""
    out = []
    for op, s2 in g.edges.get(s, {}).items():
        if op[0] == "S":
            continue
        for c in calls_of(op, weighted):
            out.append((c, s2))
    out.sort()
    return out


def prefixes(g, weighted, plen):
    """all histories of exactly plen calls, with their reference end state"""
    s0 = tuple([-1] * g.n)
    cur = [((), s0)]
    for _ in range(plen):
        nxt = []
        for h, s in cur:
            for c, s2 in extensions(g, s, weighted):
                nxt.append((h + (c,), s2))
        cur = nxt
    return cur


def walk_task(task):
    """task: dict(prefix, state, depth, weighted, unit, max_problems).  Checks every
    history that extends the prefix by 0..(depth - len(prefix)) calls."""
    g = G[task["mode"]]
    weighted, unit, depth = task["weighted"], task["unit"], task["depth"]
    out = {"nodes": 0, "leaves": 0, "selections": 0, "nontrivial": 0, "problems": [], "sample": None}
    stack = [(tuple(tuple(c) for c in task["prefix"]), tuple(task["state"]))]
    only = task.get("only_prefix", False)
    while stack:
        h, s = stack.pop()
        probs, cnt = check_node(g, s, list(h), weighted, unit)
        out["nodes"] += 1
        out["leaves"] += cnt["leaves"]
        out["selections"] += cnt["selections"]
        if cnt["selections"] and len(h) > 0:
            out["nontrivial"] += 1
        if probs:
            out["problems"].extend(probs)
            if len(out["problems"]) >= task.get("max_problems", 5):
                break
            continue   # extensions of a failing history add nothing
        if out["sample"] is None and len(h) == depth and cnt["selections"]:
            out["sample"] = {"history": pyhist(h, unit), "reference_state": list(s),
                             "Size": g.obs[s][0], "Total": g.obs[s][1], "SelNum": list(g.obs[s][2])}
        if len(h) < depth and not only:
            for c, s2 in extensions(g, s, weighted):
                stack.append((h + (c,), s2))
    return out


def hist_task(task):
    """task: dict(histories=[(history, implstate)], weighted, unit).  Replays whole TLC
    histories; observables after every call, selection law at the end.  Also compares
    the private attributes with ListDictImpl's state (reported as NOTE only)."""
    g = G[task["mode"]]
    weighted, unit = task["weighted"], task["unit"]
    out = {"nodes": 0, "leaves": 0, "selections": 0, "nontrivial": 0, "problems": [], "private_diff": [],
           "private_same": 0, "private_ndiff": 0, "sample": None}
    s0 = tuple([-1] * g.n)
    for hist, impl in task["histories"]:
        s = s0
        states = [s0]
        for c in hist:
            s = g.succ(s, ref_op(c, weighted))
            states.append(s)
        # histories no longer than the walk depth were already examined by the walk:
        # for them only the private-state comparison below is made
        if len(hist) > task.get("walk_depth", -1):
            probs = []
            # intermediate prefixes are emitted histories of their own (BFS parents);
            # only the cheap observables are re-checked along the way
            for i in range(len(hist)):
                p, _ = check_node(g, states[i], list(hist[:i]), weighted, unit, select=False)
                probs.extend(p)
                if p:
                    break
            if not probs:
                p, cnt = check_node(g, s, list(hist), weighted, unit)
                probs.extend(p)
                out["leaves"] += cnt["leaves"]
                out["selections"] += cnt["selections"]
                if cnt["selections"] and hist:
                    out["nontrivial"] += 1
            out["nodes"] += 1
            if probs:
                out["problems"].extend(probs)
                if len(out["problems"]) >= task.get("max_problems", 5):
                    break
                continue
            if out["sample"] is None and len(hist) >= 4 and g.obs[s][1] > 0:
                out["sample"] = {"history": pyhist(hist, unit), "reference_state": list(s), "SelNum": list(g.obs[s][2]),
                                 "ListDictImpl": impl}
        # private state vs the transcription (never a verdict)
        try:
            L = build(hist, weighted, unit)
            inv = {LABELS[x]: x for x in range(1, g.n + 1)}
            priv = {"items": [inv.get(i) for i in L.items]}
            if weighted:
                priv.update({"total": L._total_weight / unit, "maxw": L.max_weight / unit, "maxcnt": L.max_weight_count})
                same = (priv["items"] == impl["items"] and priv["total"] == impl["total"] and priv["maxw"] == impl["maxw"]
                        and priv["maxcnt"] == impl["maxcnt"])
            else:
                same = priv["items"] == impl["items"]
            if same:
                out["private_same"] += 1
            else:
                out["private_ndiff"] += 1
                if len(out["private_diff"]) < 2:
                    out["private_diff"].append({"history": pyhist(hist, unit), "code": priv, "ListDictImpl": impl})
        except Exception as ex:   # attribute renamed / refactored: not a verdict
            out["private_ndiff"] += 1
            if len(out["private_diff"]) < 2:
                out["private_diff"].append({"history": pyhist(hist, unit), "code": repr(ex), "ListDictImpl": impl})
    return out

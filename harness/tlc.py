"""TLC runner and TLA+ value parser used by every check.

run_tlc() runs the pre-installed TLC on a module/config pair inside a private
scratch directory (metadir and states are removed afterwards), returns TLC's own
state counts, the per-action coverage when requested, the values printed with
PrintT (parsed into Python objects by bracket matching) and the error text.

Exit status convention of the callers: a TLC error that is *not* an invariant /
property violation of the specification under check (parse error, crash, time
out) is a machinery failure (exit 2), never a property verdict.
"""
import json
import os
import re
import shutil
import subprocess
import tempfile
import time

SPECS = os.path.join(os.path.dirname(os.path.dirname(os.path.abspath(__file__))), "specs")
JAR = "/opt/veriftools/tla/tla2tools.jar"
DEPS = "/opt/veriftools/tla/CommunityModules-deps.jar"


class TLCError(Exception):
    pass


# ----------------------------------------------------------------------------
# TLA+ value parser (the subset TLC prints: ints, strings, booleans, tuples,
# sets, records, functions written with :> and @@)
# ----------------------------------------------------------------------------
_tok = re.compile(r'\s*(<<|>>|\|->|:>|@@|[{}\[\](),]|"(?:[^"\\]|\\.)*"|-?\d+|[A-Za-z_][A-Za-z0-9_]*)')


def _tokens(s):
    pos = 0
    out = []
    n = len(s)
    while pos < n:
        m = _tok.match(s, pos)
        if not m:
            if s[pos:].strip() == "":
                break
            raise ValueError("cannot tokenise TLA+ value at %r" % s[pos:pos + 40])
        out.append(m.group(1))
        pos = m.end()
    return out


def parse_value(s):
    toks = _tokens(s)
    val, i = _parse(toks, 0)
    if i != len(toks):
        raise ValueError("trailing tokens in TLA+ value: %r" % toks[i:i + 5])
    return val


def _parse(t, i):
    x = t[i]
    if x == "<<":
        i += 1
        out = []
        while t[i] != ">>":
            v, i = _parse(t, i)
            out.append(v)
            if t[i] == ",":
                i += 1
        return out, i + 1
    if x == "{":
        i += 1
        out = []
        while t[i] != "}":
            v, i = _parse(t, i)
            out.append(v)
            if t[i] == ",":
                i += 1
        return {"__set__": out}, i + 1
    if x == "[":
        i += 1
        out = {}
        while t[i] != "]":
            k = t[i]
            assert t[i + 1] == "|->", t[i:i + 3]
            v, i = _parse(t, i + 2)
            out[k] = v
            if t[i] == ",":
                i += 1
        return out, i + 1
    if x == "(":
        i += 1
        out = {}
        while t[i] != ")":
            k, i = _parse(t, i)
            assert t[i] == ":>", t[i]
            v, i = _parse(t, i + 1)
            out[_hashable(k)] = v
            if t[i] == "@@":
                i += 1
        return out, i + 1
    if x.startswith('"'):
        return json.loads(x), i + 1
    if x == "TRUE":
        return True, i + 1
    if x == "FALSE":
        return False, i + 1
    if re.fullmatch(r"-?\d+", x):
        return int(x), i + 1
    return x, i + 1  # model value / identifier


def _hashable(v):
    if isinstance(v, list):
        return tuple(_hashable(x) for x in v)
    return v


def extract_printed(stdout, tag=None):
    """All top-level tuples printed by PrintT, parsed; optionally only those whose
    first element is the string `tag`.  Works on interleaved multi-line output by
    bracket matching from every line that starts with '<<'."""
    out = []
    lines = stdout.split("\n")
    i = 0
    n = len(lines)
    while i < n:
        ln = lines[i]
        if ln.startswith("<<"):
            depth = 0
            buf = []
            while i < n:
                ln = lines[i]
                buf.append(ln)
                depth += ln.count("<<") - ln.count(">>")
                i += 1
                if depth <= 0:
                    break
            txt = " ".join(buf)
            try:
                v = parse_value(txt)
            except Exception:
                continue
            if tag is None or (isinstance(v, list) and v and v[0] == tag):
                out.append(v)
        else:
            i += 1
    return out


class TLCResult(object):
    def __init__(self):
        self.stdout = ""
        self.generated = 0
        self.distinct = 0
        self.depth = 0
        self.ok = False
        self.violation = None  # text of invariant/property violation if any
        self.coverage = {}  # action name -> (distinct, total)
        self.wall = 0.0
        self.rc = None

    def printed(self, tag=None):
        return extract_printed(self.stdout, tag)


def run_tlc(module, cfg, workers=16, extra=(), timeout=3600, env=None, coverage=False,
            simulate=None, depth=None, files=(), seed=None):
    """module: name (file specs/<module>.tla).  cfg: text of the config file.
    files: extra (name, text) pairs written next to the module (e.g. generated
    MC wrapper modules).  The whole specs directory is copied into the scratch
    directory so EXTENDS/INSTANCE work."""
    scratch = tempfile.mkdtemp(prefix="eonverif_tlc_")
    try:
        for f in os.listdir(SPECS):
            if f.endswith(".tla"):
                shutil.copy(os.path.join(SPECS, f), scratch)
        for name, text in files:
            with open(os.path.join(scratch, name), "w") as fh:
                fh.write(text)
        cfgp = os.path.join(scratch, module + "__run.cfg")
        with open(cfgp, "w") as fh:
            fh.write(cfg)
        cmd = ["java", "-XX:+UseParallelGC", "-Xss16m"]
        jopts = os.environ.get("EON_VERIF_JAVA_OPTS")
        if jopts:
            cmd += jopts.split()
        cmd += ["-cp", JAR + ":" + DEPS, "tlc2.TLC",
                "-workers", str(workers), "-metadir", os.path.join(scratch, "meta"),
                "-noGenerateSpecTE", "-config", cfgp]
        if coverage:
            cmd += ["-coverage", "1"]
        if simulate:
            cmd += ["-simulate", simulate]
        if depth is not None:
            cmd += ["-depth", str(depth)]
        if seed is not None:
            cmd += ["-seed", str(seed)]
        cmd += list(extra)
        cmd.append(os.path.join(scratch, module + ".tla"))
        e = dict(os.environ)
        if env:
            e.update(env)
        t0 = time.time()
        try:
            p = subprocess.run(cmd, cwd=scratch, env=e, stdout=subprocess.PIPE,
                               stderr=subprocess.STDOUT, timeout=timeout, text=True)
        except subprocess.TimeoutExpired as ex:
            raise TLCError("TLC timed out after %ss on %s" % (timeout, module))
        r = TLCResult()
        r.wall = time.time() - t0
        r.stdout = p.stdout
        r.rc = p.returncode
        m = re.search(r"(\d+) states generated, (\d+) distinct states found", p.stdout)
        if m:
            r.generated = int(m.group(1))
            r.distinct = int(m.group(2))
        m = re.search(r"depth of the complete state graph search is (\d+)", p.stdout)
        if m:
            r.depth = int(m.group(1))
        if "Model checking completed. No error has been found." in p.stdout or \
                (simulate and p.returncode == 0):
            r.ok = True
        m = re.search(r"Error: (Invariant .*? is violated.*|Action property .*? is violated.*|"
                      r"Temporal properties were violated.*|Deadlock reached.*)", p.stdout)
        if m:
            r.violation = m.group(1)
        if coverage:
            # a run longer than a minute prints interim coverage blocks: read the last one only
            cov_text = p.stdout
            k = cov_text.rfind("The coverage statistics at")
            if k >= 0:
                cov_text = cov_text[k:]
            for m in re.finditer(r"<(\w+) line \d+, col \d+ to line \d+, col \d+ of module \w+(?: \([\d ]+\))?>: (\d+):(\d+)",
                                 cov_text):
                nm = m.group(1)
                d, t = int(m.group(2)), int(m.group(3))
                a = r.coverage.get(nm, (0, 0))
                r.coverage[nm] = (a[0] + d, a[1] + t)
        if not r.ok and r.violation is None:
            tail = "\n".join(p.stdout.strip().split("\n")[-40:])
            k = p.stdout.find("Error:")
            first = p.stdout[k:k + 1500] if k >= 0 else ""
            raise TLCError("TLC failed on %s (rc=%s):\n%s\n...\n%s" % (module, p.returncode, first, tail))
        return r
    finally:
        shutil.rmtree(scratch, ignore_errors=True)


def cfg_text(constants, spec="Spec", invariants=(), properties=(), view=None,
             action_constraints=(), constraints=(), deadlock=False, postcondition=None,
             init=None, next_=None):
    out = ["CONSTANTS"]
    for k, v in constants.items():
        out.append("  %s = %s" % (k, tla_const(v)))
    if init:
        out.append("INIT %s" % init)
        out.append("NEXT %s" % next_)
    else:
        out.append("SPECIFICATION %s" % spec)
    if view:
        out.append("VIEW %s" % view)
    for i in invariants:
        out.append("INVARIANT %s" % i)
    for p in properties:
        out.append("PROPERTY %s" % p)
    for a in action_constraints:
        out.append("ACTION_CONSTRAINT %s" % a)
    for c in constraints:
        out.append("CONSTRAINT %s" % c)
    if postcondition:
        out.append("POSTCONDITION %s" % postcondition)
    out.append("CHECK_DEADLOCK %s" % ("TRUE" if deadlock else "FALSE"))
    return "\n".join(out) + "\n"


def tla_const(v):
    if isinstance(v, bool):
        return "TRUE" if v else "FALSE"
    if isinstance(v, int):
        return str(v)
    if isinstance(v, (set, frozenset)):
        return "{" + ", ".join(tla_const(x) for x in sorted(v)) + "}"
    if isinstance(v, (list, tuple)):
        return "<<" + ", ".join(tla_const(x) for x in v) + ">>"
    if isinstance(v, str):
        return v  # already TLA+ text (model value, quoted string written by caller)
    raise TypeError(v)


def tla_value(v):
    """Python -> TLA+ expression text (for generated constant modules)."""
    if isinstance(v, bool):
        return "TRUE" if v else "FALSE"
    if isinstance(v, int):
        return str(v)
    if isinstance(v, str):
        return json.dumps(v)
    if isinstance(v, (list, tuple)):
        return "<<" + ", ".join(tla_value(x) for x in v) + ">>"
    if isinstance(v, (set, frozenset)):
        return "{" + ", ".join(tla_value(x) for x in sorted(v, key=repr)) + "}"
    if isinstance(v, dict):
        return "[" + ", ".join("%s |-> %s" % (k, tla_value(x)) for k, x in v.items()) + "]"
    raise TypeError(type(v))

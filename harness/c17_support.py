"""C17 support: the binding between specs/Percolation.tla and the percolation
estimators of EoN.

TLC side   : `run_family` generates the MC wrapper module + config for one scenario
             family of Percolation.tla, runs TLC and parses every emitted record
             (scenario |-> percolated digraph H, admissible answers, outcome weight).
Python side: one `check_*` function per family drives the REAL functions on a record
             and compares their API-observable results with what TLC emitted.  Nothing
             about reachability / components is recomputed here.

A scenario (JSON-able, also the replay format):
  {"kind": "DG",     "n": N, "src": {"adj": [[succ..]..]}}
  {"kind": "BOND",   "n": N, "src": {"g": adj, "kept": adj, "p": [num, den]}}
  {"kind": "RULE",   "n": N, "src": {"g": adj, "t": [[u, v, bool]..]}}
  {"kind": "TYPED",  "n": N, "src": {"g": adj, "xi": [..], "zeta": [..], "tab": [[a, b, bool]..]}}
  {"kind": "TIMING", "n": N, "src": {"g": adj, "dur": [..], "delay": [[u, v, ticks]..]}, "inf": INF}
  kinds "DRULE" / "DTYPED" / "DTIMING": the same with a DIRECTED contact network g (successor lists),
  bound to the code as an nx.DiGraph
after TLC:  + "adj" (H), "adm" ([[|In|,|Out|]..]), "weight" ([num, den] | None), "nlargest".
"""
import hashlib
import os
import pickle
import re
from collections import Counter

from . import tlc
from . import scripted
from .common import MachineryFailure

TICK = 0.5          # one tick of the specification = 0.5 time units (dyadic)
TAU, GAMMA = 2.0, 1.0   # rates used for directed_percolate_network (distinct, so a draw's rate tells its kind)

INVARIANTS = ["TypeOK", "Duality", "Partition", "ComponentsOK", "UndirectedOK", "BondOK",
              "RuleOK", "ContactOK", "FixpointAgree"]
INIT = {"DG": "InitDigraph", "BOND": "InitBond", "RULE": "InitRule", "TYPED": "InitTyped",
        "TIMING": "InitTiming", "GIVEN": "InitGiven",
        "DRULE": "InitDRule", "DTYPED": "InitDTyped", "DTIMING": "InitDTiming"}
BASE = {"DRULE": "RULE", "DTYPED": "TYPED", "DTIMING": "TIMING"}   # directed-contact-network kinds


def base(kind):
    return BASE.get(kind, kind)


def contact_graph(sc, lab, order):
    """the contact network of a rule scenario: nx.Graph, or nx.DiGraph for the D* kinds"""
    if sc["kind"] in BASE:
        return build_digraph(sc["n"], sc["src"]["g"], lab, order)
    return build_graph(sc["n"], sc["src"]["g"], lab, order)


# ----------------------------------------------------------------------------
# Python -> TLA+
# ----------------------------------------------------------------------------
def _set(xs):
    return "{" + ", ".join(str(x) for x in sorted(xs)) + "}"


def _adj(a):
    return "<<" + ", ".join(_set(s) for s in a) + ">>"


def _seq(xs):
    return "<<" + ", ".join(str(x) for x in xs) + ">>"


def _b(x):
    return "TRUE" if x else "FALSE"


def _fun(triples, val):
    if not triples:
        return "<<>>"
    return "(" + " @@ ".join("<<%d, %d>> :> %s" % (a, b, val(v)) for a, b, v in triples) + ")"


def tla_src(sc):
    k, s = base(sc["kind"]), sc["src"]
    if k == "DG":
        return _adj(s["adj"])
    if k == "BOND":
        return "[g |-> %s, kept |-> %s, p |-> %s]" % (_adj(s["g"]), _adj(s["kept"]), _seq(s["p"]))
    if k == "RULE":
        return "[g |-> %s, t |-> %s]" % (_adj(s["g"]), _fun(s["t"], _b))
    if k == "TYPED":
        return "[g |-> %s, xi |-> %s, zeta |-> %s, tab |-> %s]" % (
            _adj(s["g"]), _seq(s["xi"]), _seq(s["zeta"]), _fun(s["tab"], _b))
    if k == "TIMING":
        return "[g |-> %s, dur |-> %s, delay |-> %s]" % (_adj(s["g"]), _seq(s["dur"]), _fun(s["delay"], str))
    raise ValueError(k)


# ----------------------------------------------------------------------------
# TLA+ -> Python
# ----------------------------------------------------------------------------
def _pset(v):
    if isinstance(v, dict) and "__set__" in v:
        return sorted(v["__set__"])
    raise ValueError("not a set: %r" % (v,))


def _padj(v):
    return [_pset(x) for x in v]


def _pfun(v):
    if v == [] or v == {}:
        return []
    if isinstance(v, dict):
        return sorted([k[0], k[1], x] for k, x in v.items())
    raise ValueError("not a function over pairs: %r" % (v,))


def parse_record(rec, n, inf):
    _, kind0, src, adj, adm, weight, nlargest = rec
    kind = base(kind0)
    if kind == "DG":
        s = {"adj": _padj(src)}
    elif kind == "BOND":
        s = {"g": _padj(src["g"]), "kept": _padj(src["kept"]), "p": list(src["p"])}
    elif kind == "RULE":
        s = {"g": _padj(src["g"]), "t": _pfun(src["t"])}
    elif kind == "TYPED":
        s = {"g": _padj(src["g"]), "xi": list(src["xi"]), "zeta": list(src["zeta"]), "tab": _pfun(src["tab"])}
    elif kind == "TIMING":
        s = {"g": _padj(src["g"]), "dur": list(src["dur"]), "delay": _pfun(src["delay"])}
    else:
        raise ValueError(kind)
    sc = {"kind": kind0, "n": n, "src": s, "adj": _padj(adj),
          "adm": sorted([a, b] for a, b in adm["__set__"]),
          "weight": list(weight) if weight else None, "nlargest": nlargest}
    if kind == "TIMING":
        sc["inf"] = inf
    if len(sc["adj"]) != n:
        raise ValueError("adjacency vector of length %d for N=%d" % (len(sc["adj"]), n))
    return sc


def scenario_key(sc):
    return repr((sc["kind"], sc["n"], sorted(sc["src"].items())))


# ----------------------------------------------------------------------------
# running TLC on one family
# ----------------------------------------------------------------------------
def last_coverage(stdout):
    """TLC prints interim coverage reports on runs longer than a minute; only the final
    block counts (summing the blocks would double-count)."""
    i = stdout.rfind("The coverage statistics at")
    cov = {}
    if i >= 0:
        for m in re.finditer(r"<(\w+) line \d+, col \d+ to line \d+, col \d+ of module \w+>: (\d+):(\d+)", stdout[i:]):
            a = cov.get(m.group(1), (0, 0))
            cov[m.group(1)] = (a[0] + int(m.group(2)), a[1] + int(m.group(3)))
    return cov


def run_family(family, n, loops=False, vals=(1, 2), inf=3, types=(1, 2), probs=((1, 2),),
               given=(), walk=False, workers=4, timeout=3000):
    """family: key of INIT.  given: scenarios (dicts) for family "GIVEN".
    Returns (list of scenario dicts as emitted by TLC, TLCResult)."""
    # the constants are sets of tuples / generated scenario sets, which a TLC config file cannot hold:
    # they are definitions of a generated wrapper module, substituted with `<-`
    mc = ["---- MODULE MCPercolation ----", "EXTENDS Percolation",
          "MCVals == {%s}" % ", ".join(str(v) for v in sorted(vals)),
          "MCTypes == {%s}" % ", ".join(str(v) for v in sorted(types)),
          "MCProbs == {%s}" % ", ".join("<<%d, %d>>" % tuple(p) for p in probs),
          "MCGiven == {" + ",\n  ".join("<<\"%s\", %s>>" % (sc["kind"], tla_src(sc)) for sc in given) + "}",
          "===="]
    invs = list(INVARIANTS)
    if family in ("BOND",) or any(sc["kind"] == "BOND" for sc in given):
        invs.append("BondNormalised")
    if walk:
        invs.append("WalkAgree")
    cfg = ["CONSTANTS", "  N = %d" % n, "  Loops = %s" % _b(loops), "  INF = %d" % inf,
           "  Vals <- MCVals", "  Types <- MCTypes", "  Probs <- MCProbs", "  Given <- MCGiven",
           "INIT %s" % INIT[family], "NEXT Next"]
    cfg += ["INVARIANT %s" % i for i in invs]
    cfg += ["PROPERTY Frozen", "ACTION_CONSTRAINT Emit", "CHECK_DEADLOCK FALSE"]
    # opt-in cache of TLC results for repeated runs on an unchanged specification (mutation
    # campaigns): keyed by the text of the spec, the wrapper module and the config
    cache = os.environ.get("EON_VERIF_C17_CACHE")
    cpath = None
    if cache:
        with open(os.path.join(tlc.SPECS, "Percolation.tla")) as fh:
            h = hashlib.sha1((fh.read() + "\n".join(mc) + "\n".join(cfg)).encode()).hexdigest()
        cpath = os.path.join(cache, "c17_%s.pickle" % h)
        if os.path.exists(cpath):
            with open(cpath, "rb") as fh:
                return pickle.load(fh)
    res = tlc.run_tlc("MCPercolation", "\n".join(cfg) + "\n", workers=workers, coverage=True,
                      timeout=timeout, files=[("MCPercolation.tla", "\n".join(mc) + "\n")])
    if res.violation:
        raise MachineryFailure("Percolation.tla is inconsistent with itself (%s, N=%d): %s"
                               % (family, n, res.violation))
    res.coverage = last_coverage(res.stdout)
    recs = [parse_record(r, n, inf) for r in res.printed("C17")]
    m = re.search(r"Finished computing initial states: (\d+) distinct state", res.stdout)
    ninit = int(m.group(1)) if m else -1
    fin = res.coverage.get("Finish", (0, 0))[1]
    if not (len(recs) == ninit == fin) or len(set(scenario_key(r) for r in recs)) != len(recs):
        raise MachineryFailure("%s N=%d: %d records parsed, %d initial states, %d Finish steps"
                               % (family, n, len(recs), ninit, fin))
    if family == "GIVEN" and ninit != len(set(scenario_key(s) for s in given)):
        raise MachineryFailure("GIVEN N=%d: %d scenarios passed, %d initial states" % (n, len(given), ninit))
    if family != "GIVEN" and n > 2 and res.coverage.get("Square", (0, 0))[1] == 0:
        raise MachineryFailure("vacuous TLC run (%s, N=%d): Square never taken" % (family, n))
    if cpath:
        res.stdout = ""
        os.makedirs(cache, exist_ok=True)
        with open(cpath, "wb") as fh:
            pickle.dump((recs, res), fh)
    return recs, res


# ----------------------------------------------------------------------------
# building the Python inputs
# ----------------------------------------------------------------------------
LABELS = {"int": lambda u: u, "str": lambda u: "n%d" % u, "tuple": lambda u: (u, "x")}
ORDERS = {"asc": lambda xs: sorted(xs), "desc": lambda xs: sorted(xs, reverse=True)}


def build_digraph(n, adj, lab="int", order="asc"):
    import networkx as nx
    L, O = LABELS[lab], ORDERS[order]
    H = nx.DiGraph()
    for u in O(range(1, n + 1)):
        H.add_node(L(u))
    for u in O(range(1, n + 1)):
        for v in O(adj[u - 1]):
            H.add_edge(L(u), L(v))
    return H


def build_graph(n, g, lab="int", order="asc"):
    import networkx as nx
    L, O = LABELS[lab], ORDERS[order]
    G = nx.Graph()
    for u in O(range(1, n + 1)):
        G.add_node(L(u))
    for u in O(range(1, n + 1)):
        for v in O(g[u - 1]):
            if (u < v) == (order == "asc"):
                G.add_edge(L(u), L(v))
    return G


def tick(v, inf):
    return float("inf") if v == inf else v * TICK


def dir_edges(adj):
    return set((u + 1, v) for u, vs in enumerate(adj) for v in vs)


def und_edges(adj):
    return frozenset(frozenset((u + 1, v)) for u, vs in enumerate(adj) for v in vs)


class Out(object):
    """what a worker returns: problems + counters (the Check object lives in the parent)"""

    def __init__(self):
        self.problems = []
        self.notes = []
        self.evals = 0
        self.bound = 0   # answers / graphs of the real code compared with a TLC-emitted record

    def bad(self, entry, cls, icls, what, sc, variant):
        self.problems.append({"key": "%s|%s|%s" % (entry, cls, icls), "what": what,
                              "replay": {"scenario": {k: sc[k] for k in ("kind", "n", "src", "inf") if k in sc},
                                         "spec_H": sc.get("adj"), "spec_admissible_times_N": sc.get("adm"),
                                         "variant": variant, "entry": entry}})


def _eon():
    import EoN
    return EoN


def merge(tot, o, cap=3):
    tot.evals += o.evals
    tot.bound += o.bound
    for nt in o.notes:
        if nt not in tot.notes:
            tot.notes.append(nt)
    for p in o.problems:
        same = [q for q in tot.problems if q["key"] == p["key"]]
        if len(same) < cap:
            tot.problems.append(p)


def fork_map(fn, items, stop_after=3, procs=None, deadline=900):
    """Run fn over items in forked workers (interleaved slices).  A worker stops after
    `stop_after` items with problems (broken code can make every scenario fail or be
    slow; a few reports per class are enough).  Results come back through files in a
    private temp dir, so no pipe can fill up, and the whole map is bounded by
    `deadline` seconds (MachineryFailure when exceeded).
    Returns (merged Out, number of items processed)."""
    import multiprocessing as mp
    import shutil
    import tempfile
    import time
    import traceback
    items = list(items)
    procs = procs or min(16, os.cpu_count() or 1)

    def work(sl):
        tot, done, nbad = Out(), 0, 0
        for it in sl:
            o = fn(it)
            merge(tot, o)
            done += 1
            if o.problems:
                nbad += 1
                if nbad >= stop_after:
                    break
        return tot, done
    if procs <= 1 or len(items) < 2 * procs:
        return work(items)
    d = tempfile.mkdtemp(prefix="eonverif_c17_")

    def child(k):
        try:
            r = ("ok",) + work(items[k::procs])
        except BaseException:
            r = ("error", traceback.format_exc(), 0)
        with open(os.path.join(d, "%d.tmp" % k), "wb") as fh:
            pickle.dump(r, fh)
        os.rename(os.path.join(d, "%d.tmp" % k), os.path.join(d, "%d.pickle" % k))
    ctx = mp.get_context("fork")
    ps = [ctx.Process(target=child, args=(k,)) for k in range(procs)]
    try:
        for p in ps:
            p.start()
        t_end = time.time() + deadline
        for p in ps:
            p.join(max(0.0, t_end - time.time()))
        if any(p.is_alive() for p in ps):
            raise MachineryFailure("C17 workers did not finish within %ds" % deadline)
        tot, done = Out(), 0
        for k in range(procs):
            f = os.path.join(d, "%d.pickle" % k)
            if not os.path.exists(f):
                raise MachineryFailure("C17 worker %d died without a result" % k)
            with open(f, "rb") as fh:
                r = pickle.load(fh)
            if r[0] != "ok":
                raise MachineryFailure("C17 worker failed:\n" + r[1])
            merge(tot, r[1], cap=6)
            done += r[2]
        return tot, done
    finally:
        for p in ps:
            if p.is_alive():
                p.kill()
        shutil.rmtree(d, ignore_errors=True)


def answer_problem(res, n, adm):
    """None when the returned pair is admissible, otherwise the reason (string)."""
    try:
        pe, ar = res
        pe, ar = float(pe), float(ar)
    except Exception:
        return "returned %r, not a pair of numbers" % (res,)
    ks = []
    for name, x in (("PE", pe), ("AR", ar)):
        if not (0.0 <= x <= 1.0):
            return "%s=%r is outside [0,1]" % (name, x)
        k = x * n
        if abs(k - round(k)) > 1e-12:
            return "%s=%r is not a multiple of 1/N (N=%d)" % (name, x, n)
        ks.append(int(round(k)))
    if ks not in adm:
        return ("returned (PE, AR) = (%d/%d, %d/%d); the specification admits only (|In(C)|, |Out(C)|) in %r "
                "for the largest strongly connected components C" % (ks[0], n, ks[1], n, adm))
    return None


def input_class(sc):
    e = sum(len(x) for x in sc["adj"])
    if e == 0:
        return "no edges"
    if sc["nlargest"] > 1:
        return "several largest components"
    return "unique largest component"


# ----------------------------------------------------------------------------
# DG : estimate_SIR_prob_size_from_dir_perc on an arbitrary digraph
# ----------------------------------------------------------------------------
def check_dg(sc):
    EoN = _eon()
    out = Out()
    n = sc["n"]
    entry = "estimate_SIR_prob_size_from_dir_perc"
    for lab in ("int", "str", "tuple"):
        for order in ("asc", "desc"):
            H = build_digraph(n, sc["adj"], lab, order)
            var = {"labels": lab, "order": order}
            if lab == "tuple":
                # a user-built percolated network whose arcs carry data of their own under networkx's default
                # attribute name (log-probabilities, None for "unknown"): reachability does not depend on it
                for k_, (a_, b_) in enumerate(list(H.edges())):
                    H[a_][b_]["weight"] = None if k_ % 2 == 0 else -0.5 * (k_ + 1)
                var["arc_data_named_weight"] = True
            out.evals += 1
            try:
                res = EoN.estimate_SIR_prob_size_from_dir_perc(H)
            except Exception as ex:
                out.bad(entry, "raises " + type(ex).__name__, input_class(sc),
                        "raised %r on digraph %r" % (ex, sc["adj"]), sc, var)
                continue
            why = answer_problem(res, n, sc["adm"])
            out.bound += 1
            if why:
                out.bad(entry, "answer not admissible", input_class(sc),
                        "digraph (successor lists of 1..%d) %r: %s" % (n, sc["adj"], why), sc, var)
    return out


# ----------------------------------------------------------------------------
# BOND : percolate_network / estimate_SIR_prob_size under the scripted source
# ----------------------------------------------------------------------------
def check_bond(group):
    """group: list of BOND records sharing (n, g, p): every outcome `kept` with its
    weight and its admissible answer."""
    EoN = _eon()
    out = Out()
    sc0 = group[0]
    n, g = sc0["n"], sc0["src"]["g"]
    num, den = sc0["src"]["p"]
    p = float(num) / den
    m = len(und_edges(g))
    spec_w = {}
    spec_dist = {}
    for sc in group:
        if len(sc["adm"]) != 1 or sc["adm"][0][0] != sc["adm"][0][1]:
            raise MachineryFailure("BOND record with admissible set %r" % (sc["adm"],))
        w = float(sc["weight"][0]) / sc["weight"][1]
        spec_w[und_edges(sc["src"]["kept"])] = (w, sc)
        if w > 0:
            s = sc["adm"][0][0]
            spec_dist[s] = spec_dist.get(s, 0.0) + w
    for lab, order in (("int", "asc"), ("str", "desc")):
        L = LABELS[lab]
        inv = {L(u): u for u in range(1, n + 1)}
        G = build_graph(n, g, lab, order)
        var = {"labels": lab, "order": order, "p": [num, den]}
        if lab == "str":
            # a history: the same Graph object was percolated before while it had another structure (same numbers of
            # nodes and edges) and was then edited in place into this scenario's graph
            from .common import prime_same_object
            import random as _r
            _r.seed(5)
            if prime_same_object(G, lambda g_: (EoN.percolate_network(g_, p), EoN.estimate_SIR_prob_size(g_, p))):
                var["graph_object_used_before_with_another_structure"] = True
        # --- percolate_network -------------------------------------------------
        entry = "percolate_network"
        try:
            leaves = scripted.explore(lambda: EoN.percolate_network(G, p), max_leaves=4096, max_branches=64)
        except scripted.Unmodelled as ex:
            # not a finite decision tree (e.g. log(1-U)): the outcome distribution is decided with the real random source
            def one_h():
                H = EoN.percolate_network(G, p)
                if set(H.nodes()) != set(G.nodes()):
                    return ("nodes", tuple(sorted(map(repr, H.nodes()))))
                return frozenset(frozenset((inv[a], inv[b])) for a, b in H.edges())
            _settle_bond(out, entry, one_h, {he: w for he, (w, sc_) in spec_w.items()}, "p=%d/%d" % (num, den), g, sc0, var, ex)
            leaves = []
            spec_w_judged = {}
        else:
            spec_w_judged = spec_w
        seen = {}
        for lf in leaves:
            out.evals += 1
            if lf.error is not None:
                out.bad(entry, "raises " + type(lf.error).__name__, "p=%d/%d" % (num, den),
                        "raised %r on graph %r" % (lf.error, g), sc0, dict(var, script=lf.script))
                continue
            H = lf.result
            try:
                hn = set(H.nodes())
                he = frozenset(frozenset((inv[a], inv[b])) for a, b in H.edges())
            except Exception as ex:
                out.bad(entry, "result is not a graph on G's nodes", "any", "returned %r (%r)" % (H, ex), sc0,
                        dict(var, script=lf.script))
                continue
            out.bound += 1
            if hn != set(G.nodes()):
                out.bad(entry, "node set differs from G's", "any",
                        "graph %r: returned H has nodes %r, G has %r" % (g, sorted(hn, key=repr), sorted(G.nodes(), key=repr)),
                        sc0, dict(var, script=lf.script))
            if he not in spec_w:
                out.bad(entry, "edge outside G", "any", "graph %r: H has edges %r" % (g, sorted(map(sorted, he))),
                        sc0, dict(var, script=lf.script))
                continue
            seen[he] = seen.get(he, 0.0) + lf.prob
            draws = sum(1 for t in lf.tape if t[0] == "random")
            other = [t[0] for t in lf.tape if t[0] not in ("random", "cmp", "cmpdet")]
            if draws != m or other:
                out.notes.append("percolate_network does not test each edge with exactly one random() draw "
                                 "(%d draws for %d edges, other draws %r); only the outcome distribution is judged"
                                 % (draws, m, other))
        for he, (w, sc) in spec_w_judged.items():
            got = seen.get(he, 0.0)
            if got != w:
                out.bad(entry, "outcome probability", "p=%d/%d" % (num, den),
                        "graph %r, p=%d/%d: the outcome with kept edges %r has probability %r, the specification says %d/%d"
                        % (g, num, den, sorted(map(sorted, he)), got, sc["weight"][0], sc["weight"][1]), sc, var)
                break
        # --- estimate_SIR_prob_size --------------------------------------------
        entry = "estimate_SIR_prob_size"
        settled = False
        try:
            leaves = scripted.explore(lambda: EoN.estimate_SIR_prob_size(G, p), max_leaves=4096, max_branches=64)
        except scripted.Unmodelled as ex:
            def one_s():
                r = EoN.estimate_SIR_prob_size(G, p)
                why = answer_problem(r, n, [[s_, s_] for s_ in range(1, n + 1)])
                return ("bad", why) if why else int(round(float(r[0]) * n))
            _settle_bond(out, entry, one_s, spec_dist, "p=%d/%d" % (num, den), g, sc0, var, ex)
            leaves = []
            settled = True
        dist = {}
        ok = not settled
        for lf in leaves:
            out.evals += 1
            if lf.error is not None:
                out.bad(entry, "raises " + type(lf.error).__name__, "p=%d/%d" % (num, den),
                        "raised %r on graph %r" % (lf.error, g), sc0, dict(var, script=lf.script))
                ok = False
                continue
            why = answer_problem(lf.result, n, [[s, s] for s in range(1, n + 1)])
            if why:
                out.bad(entry, "outputs not an equal pair of component fractions", "any",
                        "graph %r, p=%d/%d: %s (both outputs must equal the largest-component fraction)" % (g, num, den, why),
                        sc0, dict(var, script=lf.script))
                ok = False
                continue
            s = int(round(float(lf.result[0]) * n))
            dist[s] = dist.get(s, 0.0) + lf.prob
            out.bound += 1
        if ok and dist != spec_dist:
            out.bad(entry, "distribution of the largest-component fraction", "p=%d/%d" % (num, den),
                    "graph %r, p=%d/%d: P(result*N = s) is %r, the specification (bond percolation, then largest connected "
                    "component) gives %r" % (g, num, den, sorted(dist.items()), sorted(spec_dist.items())), sc0, var)
    return out


BOND_SETTLE_RUNS = 20000


def _settle_bond(out, entry, outcome, expected, cls, g, sc0, var, why):
    from .discrete_b1 import settle_law
    for q in settle_law(outcome, expected, "%s on graph %r" % (entry, g), nruns=BOND_SETTLE_RUNS):
        kind = q["kind"] if q["kind"].startswith("exception:") else "outcome probability"
        out.bad(entry, kind.replace("exception:", "raises "), cls, q["detail"], sc0, dict(var, decided="statistically"))
    out.evals += BOND_SETTLE_RUNS
    out.bound += 1
    note = ("%s: the scripted random source cannot follow the implementation (%s); the outcome distribution was decided with %d seeded runs of the "
            "real random source per scenario against the TLC-emitted weights (probability-0 outcomes exactly, frequencies by a G-test rejected below 1e-9)"
            % (entry, why, BOND_SETTLE_RUNS))
    if note not in out.notes:
        out.notes.append(note)


# ----------------------------------------------------------------------------
# RULE / TYPED : nonMarkov_directed_percolate_network, estimate_nonMarkov_SIR_prob_size
# ----------------------------------------------------------------------------
def _compare_H(out, entry, H, G, sc, inv, var, node_attr=None, edge_attr=None):
    """returned percolated graph against the specification's H"""
    n = sc["n"]
    try:
        hn = set(H.nodes())
        if H.is_directed():
            he = set((inv.get(a, a), inv.get(b, b)) for a, b in H.edges())
        else:
            he = set((inv.get(a, a), inv.get(b, b)) for a, b in H.edges()) | set((inv.get(b, b), inv.get(a, a)) for a, b in H.edges())
    except Exception as ex:
        out.bad(entry, "result is not a graph", sc["kind"], "returned %r (%r)" % (H, ex), sc, var)
        return False
    out.bound += 1
    good = True
    if hn != set(G.nodes()):
        out.bad(entry, "node set differs from G's", sc["kind"],
                "contact network %r: H has nodes %r but G has %r" % (sc["src"]["g"], sorted(hn, key=repr), sorted(G.nodes(), key=repr)),
                sc, var)
        good = False
    want = dir_edges(sc["adj"])
    if he != want:
        out.bad(entry, "edge set differs from the rule", sc["kind"],
                "scenario %r: H has edges %r, the rule gives %r (missing %r, spurious %r)"
                % (sc["src"], sorted(he), sorted(want), sorted(want - he), sorted(he - want)), sc, var)
        good = False
    if good and node_attr:
        name, vals = node_attr
        for u, x in vals.items():
            got = H.nodes[u].get(name, None)
            if got != x:
                out.bad(entry, "node attribute " + name, sc["kind"],
                        "scenario %r: H.nodes[%r][%r] is %r, expected %r" % (sc["src"], u, name, got, x), sc, var)
                good = False
                break
    if good and edge_attr:
        name, vals = edge_attr
        for (u, v), x in vals.items():
            got = H.edges[u, v].get(name, None)
            if got != x:
                out.bad(entry, "edge attribute " + name, sc["kind"],
                        "scenario %r: H.edges[%r,%r][%r] is %r, expected %r" % (sc["src"], u, v, name, got, x), sc, var)
                good = False
                break
    return good


def _compare_log(out, entry, what, log, expected, sc, var):
    got, want = Counter(log), Counter(expected)
    if got != want:
        missing = sorted((want - got).elements(), key=repr)
        extra = sorted((got - want).elements(), key=repr)
        out.bad(entry, "%s not called exactly once per %s" % (what[0], what[1]), sc["kind"],
                "scenario %r: %s calls missing %r, unexpected/repeated %r" % (sc["src"], what[0], missing[:6], extra[:6]),
                sc, var)
        return False
    return True


def check_rule(sc):
    EoN = _eon()
    out = Out()
    n, s = sc["n"], sc["src"]
    g = s["g"]
    directed = sc["kind"] in BASE
    pairs = "ordered neighbour pair" if not directed else "arc of the directed contact network"
    if base(sc["kind"]) == "RULE":
        tx = tz = [0] * n
        table = {(u, v): b for u, v, b in s["t"]}
    else:
        tx, tz = s["xi"], s["zeta"]
        table = {(a, b): x for a, b, x in s["tab"]}
    for lab, order in (("int", "asc"), ("str", "desc")):
        L = LABELS[lab]
        inv = {L(u): u for u in range(1, n + 1)}
        G = contact_graph(sc, lab, order)
        xi = {L(u): ("xi", u, tx[u - 1]) for u in range(1, n + 1)}
        zeta = {L(u): ("zeta", u, tz[u - 1]) for u in range(1, n + 1)}
        expected = [(xi[L(u)], zeta[L(v)]) for (u, v) in dir_edges(g)]
        log = []

        def transmission(a, b):
            # with string labels the rule answers with truthy / falsy values that are not the Python singletons
            # (a numpy comparison result, a count), as user rules written with numpy do
            ans = _transmission(a, b)
            if lab == "str":
                import numpy as _np
                return _np.bool_(ans) if (a[1] + b[1]) % 2 == 0 else (2 if ans else 0)
            return ans

        def _transmission(a, b):
            log.append((a, b))
            try:
                if a[0] != "xi" or b[0] != "zeta":
                    return False
                if base(sc["kind"]) == "RULE":
                    return table.get((a[1], b[1]), True)
                return table[(a[2], b[2])]
            except Exception:
                return False
        var = {"labels": lab, "order": order, "contact_network": "DiGraph" if directed else "Graph"}
        for entry in ("nonMarkov_directed_percolate_network", "estimate_nonMarkov_SIR_prob_size"):
            del log[:]
            out.evals += 1
            try:
                res = getattr(EoN, entry)(G, xi, zeta, transmission)
            except Exception as ex:
                out.bad(entry, "raises " + type(ex).__name__, sc["kind"], "raised %r on scenario %r" % (ex, s), sc, var)
                continue
            _compare_log(out, entry, ("transmission(xi[u], zeta[v])", pairs), log, expected, sc, var)
            if entry.startswith("estimate"):
                why = answer_problem(res, n, sc["adm"])
                out.bound += 1
                if why:
                    out.bad(entry, "answer not admissible", input_class(sc),
                            "scenario %r, percolated digraph %r: %s" % (s, sc["adj"], why), sc, var)
            else:
                _compare_H(out, entry, res, G, sc, inv, var)
    return out


# ----------------------------------------------------------------------------
# TIMING : nonMarkov_directed_percolate_network_with_timing, estimate_..._with_timing
# ----------------------------------------------------------------------------
def check_timing(sc):
    EoN = _eon()
    out = Out()
    n, s, inf = sc["n"], sc["src"], sc["inf"]
    g = s["g"]
    for lab, order, extra in (("int", "asc", False), ("str", "desc", True)):
        L = LABELS[lab]
        inv = {L(u): u for u in range(1, n + 1)}
        G = contact_graph(sc, lab, order)
        dur = {L(u): tick(s["dur"][u - 1], inf) for u in range(1, n + 1)}
        delay = {(L(u), L(v)): tick(d, inf) for u, v, d in s["delay"]}
        targs = ("T-arg", 7) if extra else ()
        rargs = ("R-arg",) if extra else ()
        tlog, rlog = [], []

        def trans_time_fxn(u, v, *a):
            tlog.append((u, v, a))
            return delay.get((u, v), 0.0)

        def rec_time_fxn(u, *a):
            rlog.append((u, a))
            return dur.get(u, float("inf"))
        texp = [(L(u), L(v), targs) for (u, v) in dir_edges(g)]
        rexp = [(L(u), rargs) for u in range(1, n + 1)]
        kept = {(L(u), L(v)): delay[(L(u), L(v))] for (u, v) in dir_edges(sc["adj"])}
        calls = [("nonMarkov_directed_percolate_network_with_timing", {"weights": True}),
                 ("nonMarkov_directed_percolate_network_with_timing", {"weights": False}),
                 ("nonMarkov_directed_percolate_network_with_timing", {}),
                 ("estimate_nonMarkov_SIR_prob_size_with_timing", {})]
        for entry, kw in calls:
            del tlog[:]
            del rlog[:]
            var = {"labels": lab, "order": order, "extra_args": extra, "kwargs": kw,
                   "contact_network": "DiGraph" if sc["kind"] in BASE else "Graph"}
            out.evals += 1
            try:
                if extra:
                    res = getattr(EoN, entry)(G, trans_time_fxn, rec_time_fxn, targs, rargs, **kw)
                else:
                    res = getattr(EoN, entry)(G, trans_time_fxn, rec_time_fxn, **kw)
            except Exception as ex:
                out.bad(entry, "raises " + type(ex).__name__, sc["kind"], "raised %r on scenario %r" % (ex, s), sc, var)
                continue
            _compare_log(out, entry, ("trans_time_fxn(u, v, *trans_time_args)", "ordered neighbour pair"), tlog, texp, sc, var)
            _compare_log(out, entry, ("rec_time_fxn(u, *rec_time_args)", "node"), rlog, rexp, sc, var)
            if entry.startswith("estimate"):
                why = answer_problem(res, n, sc["adm"])
                out.bound += 1
                if why:
                    out.bad(entry, "answer not admissible", input_class(sc),
                            "scenario %r (ticks of %g; %d = Inf), percolated digraph %r: %s" % (s, TICK, inf, sc["adj"], why), sc, var)
            elif kw.get("weights", True):
                _compare_H(out, entry, res, G, sc, inv, var, ("duration", dur), ("delay_to_infection", kept))
            else:
                _compare_H(out, entry + "(weights=False)", res, G, sc, inv, var)
    return out


# ----------------------------------------------------------------------------
# DPERC : directed_percolate_network / estimate_directed_SIR_prob_size, scripted draws
# ----------------------------------------------------------------------------
def realisable(sc):
    """TIMING scenarios that Markovian rates can produce: delays all Inf (tau=0) or all
    finite, durations all Inf (gamma=0) or all finite.  Returns list of (tau, gamma)."""
    inf, s = sc["inf"], sc["src"]
    dl = [d for _, _, d in s["delay"]]
    taus = ([0.0] if all(d == inf for d in dl) else []) + ([TAU] if all(d != inf for d in dl) else [])
    gams = ([0.0] if all(d == inf for d in s["dur"]) else []) + ([GAMMA] if all(d != inf for d in s["dur"]) else [])
    return [(t, c) for t in taus for c in gams]


def _exp_tape(lf):
    return [(t[1], t[2]) for t in lf.tape if t[0] == "exp"]


def probe_values(tau, gamma):
    """Probe draws: every draw gets a distinct value, every delay below every duration."""
    def delays(k, rate):
        return 1024.0 + k if rate == gamma else (k + 1) / 1024.0
    return delays


def check_dperc(item):
    """item = (TIMING record, refs) where refs[(tau>0, gamma>0)] is the TLC record with the
    same contact network whose durations / delays are ordered like the probe's (all
    delays finite-small or Inf, all durations finite-large or Inf).

    The draw -> owner map is learnt from API-observable data only: in the probe run the
    documented attributes of the returned H ('duration' per node, 'delay_to_infection'
    per kept edge) name the owner of every (distinct) drawn value."""
    sc, refs = item
    EoN = _eon()
    out = Out()
    n, s, inf = sc["n"], sc["src"], sc["inf"]
    g = s["g"]
    m2 = len(dir_edges(g))
    durs = {u: tick(s["dur"][u - 1], inf) for u in range(1, n + 1)}
    dels = {(u, v): tick(d, inf) for u, v, d in s["delay"]}
    for tau, gamma in realisable(sc):
        ref = refs[(tau > 0, gamma > 0)]
        icls = "tau%s0,gamma%s0" % (">" if tau else "=", ">" if gamma else "=")
        for lab, order in (("int", "asc"), ("str", "desc")):
            L = LABELS[lab]
            inv = {L(u): u for u in range(1, n + 1)}
            G = build_graph(n, g, lab, order)
            var = {"labels": lab, "order": order, "tau": tau, "gamma": gamma}
            entry = "directed_percolate_network"
            # 1. probe ------------------------------------------------------------
            out.evals += 1
            lf = scripted.run_scripted(lambda: EoN.directed_percolate_network(G, tau, gamma), [],
                                       delays=probe_values(tau, gamma))
            if lf.error is not None:
                out.bad(entry, "raises " + type(lf.error).__name__, icls,
                        "directed_percolate_network(G, %r, %r) raised %r on contact network %r" % (tau, gamma, lf.error, g),
                        sc, dict(var, probe=True))
                continue
            H0 = lf.result
            tape = _exp_tape(lf)
            rates = [r for r, _ in tape]
            want = Counter()
            if gamma:
                want[gamma] = n
            if tau and m2:
                want[tau] = m2
            if Counter(rates) != want:
                out.bad(entry, "waiting-time draws", icls,
                        "contact network %r, tau=%r, gamma=%r: expovariate was called with (rate, count) %r; one draw at rate gamma per "
                        "node and one at rate tau per ordered neighbour pair (none for a zero rate) are expected"
                        % (g, tau, gamma, sorted(Counter(rates).items())), sc, dict(var, probe=True))
                continue
            if not _compare_H(out, entry, H0, G, ref, inv, dict(var, probe=True)):
                continue
            if not tau and not gamma and m2:
                out.notes.append("corner outside the documented domain (tau, gamma 'positive float'): with tau = gamma = 0 both the delay and the "
                                 "duration are Inf, 'delay == duration transmits' applies and directed_percolate_network keeps every edge "
                                 "(the specification's closed rule says the same; not judged further)")
            owner = {}
            try:
                val2k = {d: k for k, (r, d) in enumerate(tape)}
                if gamma:
                    for u in G.nodes():
                        owner[val2k[H0.nodes[u]["duration"]]] = ("dur", inv[u])
                if tau:
                    for a, b in H0.edges():
                        owner[val2k[H0.edges[a, b]["delay_to_infection"]]] = ("delay", inv[a], inv[b])
            except Exception as ex:
                owner = {"error": ex}
            if len(owner) != len(rates) or "error" in owner:
                out.bad(entry, "attributes duration / delay_to_infection", icls,
                        "contact network %r, tau=%r, gamma=%r: the attributes 'duration' / 'delay_to_infection' of the returned H are not "
                        "the %d drawn waiting times (%r)" % (g, tau, gamma, len(rates), owner.get("error", "%d matched" % len(owner))),
                        sc, dict(var, probe=True))
                continue

            # 2. the scenario itself ---------------------------------------------------
            def delays(k, rate):
                o = owner.get(k)
                if o is None or rate != rates[k]:
                    raise scripted.Unmodelled("draw %d at rate %r was not seen by the probe" % (k, rate))
                return durs[o[1]] if o[0] == "dur" else dels[(o[1], o[2])]
            dur_l = {L(u): x for u, x in durs.items()}
            kept_l = {(L(u), L(v)): dels[(u, v)] for (u, v) in dir_edges(sc["adj"])}
            for fn, kw in (("directed_percolate_network", {}), ("directed_percolate_network", {"weights": False}),
                           ("estimate_directed_SIR_prob_size", {})):
                out.evals += 1
                try:
                    lf = scripted.run_scripted(lambda: getattr(EoN, fn)(G, tau, gamma, **kw), [], delays=delays)
                    if lf.error is None and [r for r, _ in _exp_tape(lf)] != rates:
                        raise scripted.Unmodelled("rates drawn %r, probe saw %r" % ([r for r, _ in _exp_tape(lf)], rates))
                except scripted.Unmodelled as ex:
                    out.notes.append("%s%r draws its waiting times in another order than the probed directed_percolate_network "
                                     "(%s): the scenario cannot be bound, not judged" % (fn, kw, ex))
                    continue
                if lf.error is not None:
                    out.bad(fn, "raises " + type(lf.error).__name__, icls, "raised %r on scenario %r" % (lf.error, s), sc, dict(var, kwargs=kw))
                elif fn.startswith("estimate"):
                    why = answer_problem(lf.result, n, sc["adm"])
                    out.bound += 1
                    if why:
                        out.bad(fn, "answer not admissible", input_class(sc),
                                "contact network %r, tau=%r, gamma=%r, durations %r, delays %r (percolated digraph %r): %s"
                                % (g, tau, gamma, durs, dels, sc["adj"], why), sc, var)
                elif kw:
                    _compare_H(out, fn + "(weights=False)", lf.result, G, sc, inv, dict(var, kwargs=kw))
                else:
                    _compare_H(out, fn, lf.result, G, sc, inv, var, ("duration", dur_l), ("delay_to_infection", kept_l))
    return out

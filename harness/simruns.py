"""Recorder for the trace-validation checks (C04, C05, C09, C10, C18): runs every
simulator of EoN.simulation on a scenario with real seeded randomness and
projects what the public API returns onto a JSON-able record.  Times are kept
as floats here; `rank_times` maps them order-preservingly to integers for TLC."""
import math
import random as pyrandom

INF = 1000000

SIR_CONT = ["fast_SIR", "Gillespie_SIR", "fast_nonMarkov_SIR", "simple_contagion_SIR", "complex_contagion_SIR"]
SIS_CONT = ["fast_SIS", "Gillespie_SIS", "fast_nonMarkov_SIS", "simple_contagion_SIS"]
SIR_DISC = ["discrete_SIR", "basic_discrete_SIR", "percolation_based_discrete_SIR"]
SIS_DISC = ["basic_discrete_SIS"]
ALL = SIR_CONT + SIS_CONT + SIR_DISC + SIS_DISC


def kind_of(sim):
    return "SIS" if sim in SIS_CONT + SIS_DISC else "SIR"


RULE_SIM = "discrete_SIR(recovery rule)"      # discrete_SIR with a stateful user test_recovery


def is_discrete(sim):
    return sim in SIR_DISC + SIS_DISC or sim == RULE_SIM


def supports_R0(sim):
    return sim in ("fast_SIR", "Gillespie_SIR", "fast_nonMarkov_SIR", "simple_contagion_SIR", "complex_contagion_SIR",
                   "discrete_SIR", "basic_discrete_SIR", "percolation_based_discrete_SIR", RULE_SIM)


def supports_weights(sim):
    return sim in ("fast_SIR", "Gillespie_SIR", "fast_SIS", "Gillespie_SIS")


# ----------------------------------------------------------------------------
def make_graph(n, edges, weights=None, shift=0):
    """nodes are 1..n (shift=0) or 0..n-1 (shift=-1)"""
    import networkx as nx
    G = nx.Graph()
    for u in range(1, n + 1):
        G.add_node(u + shift, g=1.0 if weights is None else weights["g"][u - 1])
    for i, (u, v) in enumerate(edges):
        G.add_edge(u + shift, v + shift, w=1.0 if weights is None else weights["w"][i])
    return G


def graph_family(seed, n_random, max_n=10):
    """[(n, edges)] deterministic small graphs + seeded random ones."""
    fam = [
        (1, []),
        (2, []),
        (2, [(1, 2)]),
        (3, [(1, 2)]),                       # isolated node
        (3, [(1, 2), (2, 3)]),
        (4, [(1, 2), (1, 3), (1, 4)]),       # star
        (4, [(1, 2), (2, 3), (3, 4), (4, 1)]),
        (4, [(u, v) for u in range(1, 5) for v in range(u + 1, 5)]),
        (5, [(1, 2), (2, 3), (3, 4), (4, 5), (5, 1), (1, 3)]),
        (6, [(1, 2), (2, 3), (4, 5)]),       # two components + isolated
    ]
    rng = pyrandom.Random(seed * 1000003 + 17)
    for _ in range(n_random):
        n = rng.randint(3, max_n)
        p = rng.choice([0.2, 0.35, 0.6])
        e = [(u, v) for u in range(1, n + 1) for v in range(u + 1, n + 1) if rng.random() < p]
        fam.append((n, e))
    return fam


def call_sim(EoN, sim, G, sc, full):
    """Runs one simulator.  sc: dict(tau, gamma, p, tmin, tmax, init_kw (dict with
    initial_infecteds / initial_recovereds / rho as the caller wants to pass them),
    weighted).  Returns the raw return value."""
    import networkx as nx
    import random
    tau, gamma, p = sc["tau"], sc["gamma"], sc["p"]
    kw = dict(sc["init_kw"])
    kw["tmin"] = sc["tmin"]
    if sc["tmax"] is not None:
        kw["tmax"] = sc["tmax"]
    kw["return_full_data"] = full
    wkw = {}
    if sc.get("weighted") and supports_weights(sim):
        wkw = dict(transmission_weight="w", recovery_weight="g")
    if sc.get("positional"):
        ii = kw.pop("initial_infecteds")
        rr = kw.pop("initial_recovereds", None)
        if sim in ("fast_SIR", "Gillespie_SIR"):
            return getattr(EoN, sim)(G, tau, gamma, ii, rr, **kw, **wkw)
        if sim in ("fast_SIS", "Gillespie_SIS"):
            return getattr(EoN, sim)(G, tau, gamma, ii, **kw, **wkw)
        if sim in ("basic_discrete_SIR", "percolation_based_discrete_SIR"):
            return getattr(EoN, sim)(G, p, ii, rr, **kw)
        if sim == "basic_discrete_SIS":
            return EoN.basic_discrete_SIS(G, p, ii, **kw)
        raise ValueError("no positional form for " + sim)
    if sim == "fast_SIR":
        return EoN.fast_SIR(G, tau, gamma, **kw, **wkw)
    if sim == "Gillespie_SIR":
        return EoN.Gillespie_SIR(G, tau, gamma, **kw, **wkw)
    if sim == "fast_SIS":
        return EoN.fast_SIS(G, tau, gamma, **kw, **wkw)
    if sim == "Gillespie_SIS":
        return EoN.Gillespie_SIS(G, tau, gamma, **kw, **wkw)
    if sim == "fast_nonMarkov_SIR":
        def tt(u, v):
            return random.expovariate(tau) if tau > 0 else float("inf")

        def rt(u):
            return random.expovariate(gamma) if gamma > 0 else float("inf")
        return EoN.fast_nonMarkov_SIR(G, trans_time_fxn=tt, rec_time_fxn=rt, **kw)
    if sim == "fast_nonMarkov_SIS":
        def rt(u):
            return random.expovariate(gamma) if gamma > 0 else float("inf")

        def tt(u, v, rec_delay):
            out = []
            if tau <= 0:
                return out
            t = random.expovariate(tau)
            while t < rec_delay and len(out) < 50:
                out.append(t)
                t += random.expovariate(tau)
            return out
        return EoN.fast_nonMarkov_SIS(G, trans_time_fxn=tt, rec_time_fxn=rt, **kw)
    if sim in ("simple_contagion_SIR", "simple_contagion_SIS"):
        H = nx.DiGraph()
        H.add_node("S")
        H.add_edge("I", "R" if sim.endswith("SIR") else "S", rate=gamma)
        J = nx.DiGraph()
        J.add_edge(("I", "S"), ("I", "I"), rate=tau)
        IC = ic_dict(G, kw)
        rs = ("S", "I", "R") if sim.endswith("SIR") else ("S", "I")
        return EoN.Gillespie_simple_contagion(G, H, J, IC, rs, tmin=kw["tmin"], tmax=kw.get("tmax", 100),
                                              return_full_data=full)
    if sim == "complex_contagion_SIR":
        def rate_function(G, node, status, parameters):
            tau, gamma = parameters
            if status[node] == "I":
                return gamma
            if status[node] == "S":
                return tau * len([nbr for nbr in G.neighbors(node) if status[nbr] == "I"])
            return 0

        def transition_choice(G, node, status, parameters):
            return "I" if status[node] == "S" else "R"

        def get_influence_set(G, node, status, parameters):
            # a list in neighbour (insertion) order: a set of string nodes would make the USER's answer,
            # and hence the order of re-rating, depend on the interpreter's hash seed (see DESIGN, C18)
            return [nbr for nbr in G.neighbors(node) if status[nbr] == "S"]
        IC = ic_dict(G, kw)
        return EoN.Gillespie_complex_contagion(G, rate_function, transition_choice, get_influence_set, IC,
                                               return_statuses=("S", "I", "R"), tmin=kw["tmin"],
                                               tmax=kw.get("tmax", 100), parameters=(tau, gamma),
                                               return_full_data=full)
    if sim == "discrete_SIR":
        return EoN.discrete_SIR(G, args=(p,), **kw)
    if sim == RULE_SIM:
        asked = {}

        def test_recovery(node):
            # stateful rules: even-labelled nodes recover the 2nd time they are asked, odd-labelled ones answer
            # no, no, yes, no, no, no, yes ... (a rule is asked once per node and step)
            asked[node] = asked.get(node, 0) + 1
            return asked[node] >= 2 if node % 2 == 0 else asked[node] % 4 == 3
        if "tmax" not in kw:
            kw["tmax"] = kw["tmin"] + 60      # a rule that never says yes must not make the run endless
        return EoN.discrete_SIR(G, args=(p,), test_recovery=test_recovery, **kw)
    if sim == "basic_discrete_SIR":
        return EoN.basic_discrete_SIR(G, p, **kw)
    if sim == "percolation_based_discrete_SIR":
        return EoN.percolation_based_discrete_SIR(G, p, **kw)
    if sim == "basic_discrete_SIS":
        return EoN.basic_discrete_SIS(G, p, **kw)
    raise ValueError(sim)


def ic_dict(G, kw):
    ii = kw.get("initial_infecteds")
    if ii is None:
        ii = []
    elif G.has_node(ii) if not isinstance(ii, (list, tuple, set, range)) else False:
        ii = [ii]
    rr = kw.get("initial_recovereds") or []
    IC = {u: "S" for u in G}
    for u in ii:
        IC[u] = "I"
    for u in rr:
        IC[u] = "R"
    return IC


def seed_all(s):
    import random
    import numpy as np
    random.seed(s)
    np.random.seed(s % (2 ** 32))


def observe_full(sim_obj, G, with_queries=None):
    nodes = sorted(G.nodes())
    hist = {u: ([float(t) for t in sim_obj.node_history(u)[0]], list(sim_obj.node_history(u)[1])) for u in nodes}
    changed = None
    try:
        tr = [(float(t), u, v) for (t, u, v) in sim_obj.transmissions()]
        # the caller owns the graph it is handed: pruning it (as one does to look at a sub-tree) must not change what
        # the next call serves
        first = sim_obj.transmission_tree()
        first_edges = [(u, v, float(d["time"])) for (u, v, d) in first.edges(data=True)]
        first.clear()
        tree = [(u, v, float(d["time"])) for (u, v, d) in sim_obj.transmission_tree().edges(data=True)]
        if sorted(map(repr, tree)) != sorted(map(repr, first_edges)):
            changed = (len(first_edges), len(tree))
    except Exception as ex:
        tr = None
        tree = repr(ex)
    summ = sim_obj.summary()
    out = {"hist": hist, "trans": tr, "tree": tree, "tree_changed": changed,
           "summary": ([float(x) for x in summ[0]], {k: [int(x) for x in v] for k, v in summ[1].items()})}
    return out


def rank_times(values, extra=()):
    """order-preserving map float -> int rank over all finite values (+inf -> INF)"""
    xs = sorted({v for v in list(values) + list(extra) if v is not None and not math.isinf(v)})
    m = {v: i + 1 for i, v in enumerate(xs)}
    m[float("inf")] = INF
    return m

"""Master-equation oracle assembled from the TLC-emitted transition system of NetEpi."""
import itertools

from . import tlc
from .common import RATE_UNIT


def emit_one(n, w, g, tau, gam, sis):
    ew = sorted(set(x for x in w if x > 0) or {1})
    mc = ("---- MODULE NetEpiOneMC ----\nEXTENDS NetEpiOne\nW0def == %s\nG0def == %s\n====\n"
          % (tlc.tla_value(list(w)), tlc.tla_value(list(g))))
    cfg = ("CONSTANTS\n  N = %d\n  EW = {%s}\n  NW = {%s}\n  TauSet = {%d}\n  GamSet = {%d}\n  SIS = %s\n"
           "  W0 <- W0def\n  G0 <- G0def\n  Tau0 = %d\n  Gam0 = %d\n"
           "SPECIFICATION SpecOne\nVIEW View\nACTION_CONSTRAINT Emit\nINVARIANT TypeOK\nINVARIANT Conserved\nCHECK_DEADLOCK FALSE\n"
           % (n, ", ".join(map(str, ew)), ", ".join(map(str, sorted(set(g)))), tau, gam, "TRUE" if sis else "FALSE", tau, gam))
    res = tlc.run_tlc("NetEpiOneMC", cfg, workers=1, timeout=600, files=[("NetEpiOneMC.tla", mc)])
    trans = {}
    for rec in res.printed("E"):
        _, w_, g_, t_, ga_, st, st2, ev = rec
        trans.setdefault(tuple(st), []).append((tuple(st2), ev[3] * RATE_UNIT))
    return trans, res


def distribution_at(trans, n, sis, st0, T):
    """p0 expm(Q T) over all status vectors; Q assembled from the emitted transitions only"""
    import numpy as np
    from scipy.linalg import expm
    states = list(itertools.product(("S", "I") if sis else ("S", "I", "R"), repeat=n))
    idx = {s: i for i, s in enumerate(states)}
    Q = np.zeros((len(states), len(states)))
    for s, outs in trans.items():
        for (s2, r) in outs:
            Q[idx[s], idx[s2]] += r
            Q[idx[s], idx[s]] -= r
    p0 = np.zeros(len(states))
    p0[idx[tuple(st0)]] = 1.0
    p = p0.dot(expm(Q * T))
    return {s: float(p[idx[s]]) for s in states}


def g_test(observed, expected, nruns):
    """returns (p_value, detail); an outcome of expected probability 0 that was observed gives p = 0"""
    import math
    from scipy.stats import chi2
    G = 0.0
    dof = -1
    for s, e in expected.items():
        o = observed.get(s, 0)
        if e <= 1e-15:
            if o > 0:
                return 0.0, "state %r observed %d times but has probability 0" % (s, o)
            continue
        dof += 1
        if o > 0:
            G += 2.0 * o * math.log(o / (e * nruns))
    if dof <= 0:
        return 1.0, "degenerate"
    return float(chi2.sf(G, dof)), "G=%.2f dof=%d" % (G, dof)

"""Batched trace validation: thousands of traces recorded from the real code are
checked against a Trace*.tla specification in one TLC start (one initial state
per trace).  Accepted ids are printed by the spec (EmitAccepted); rejected
traces are re-run in diagnostic mode so that the verdict names the last matched
position and the clause that failed."""
import json
import os
import shutil
import tempfile

from . import tlc


def validate(module, traces, invariants=(), properties=(), workers=16, timeout=3000, extra_env=None,
             diag=True, env_name="EON_TRACES"):
    """returns (accepted: set of 0-based indices, TLCResult, diagnostics: {idx: {...}})"""
    d = tempfile.mkdtemp(prefix="eonverif_tr_")
    try:
        p = os.path.join(d, "traces.json")
        with open(p, "w") as fh:
            json.dump(traces, fh)
        cfg = tlc.cfg_text({}, invariants=list(invariants) + ["EmitAccepted"], properties=properties).replace("CONSTANTS\n", "")
        env = {env_name: p}
        if extra_env:
            env.update(extra_env)
        res = tlc.run_tlc(module, cfg, workers=workers, env=env, timeout=timeout, coverage=True)
        acc = {r[1] - 1 for r in res.printed("OK")}
        diags = {}
        rej = [i for i in range(len(traces)) if i not in acc]
        if rej and diag:
            sub = [traces[i] for i in rej[:3000]]
            with open(p, "w") as fh:
                json.dump(sub, fh)
            env2 = dict(env)
            env2["EON_DIAG"] = "1"
            cfg2 = tlc.cfg_text({}, invariants=["EmitDiag"]).replace("CONSTANTS\n", "")
            r2 = tlc.run_tlc(module, cfg2, workers=1, env=env2, timeout=timeout)
            for rec in r2.printed("FIRST"):
                diags.setdefault(rej[rec[1] - 1], {})["first"] = rec[2]
            for rec in r2.printed("AT"):
                dd = diags.setdefault(rej[rec[1] - 1], {})
                if rec[2] >= dd.get("at", 0):
                    dd["at"] = rec[2]
                    dd["clauses"] = rec[3]
        return acc, res, diags
    finally:
        shutil.rmtree(d, ignore_errors=True)


def failing_clause(diag):
    """human-readable name of what failed, from the diagnostics of one trace"""
    if not diag:
        return "unknown", "no diagnostic state"
    first = diag.get("first")
    if "at" not in diag:
        bad = [k for k, v in (first or {}).items() if v is False]
        return "first-row:" + ("+".join(sorted(bad)) or "rejected"), "first row rejected: %r" % (first,)
    cl = diag.get("clauses", {})
    bad = [k for k, v in cl.items() if v is False]
    return "+".join(sorted(bad)) or "no-explaining-behaviour", "matched up to position %d; next-step clauses %r" % (diag["at"], cl)

"""Replay of EventSIR scenarios into the real event-driven SIR code and
comparison with the reference outcome TLC emitted for the same scenario."""
import math

from .event_scn import INF, fl
from . import scripted


def build(scn, labels=None, order=None):
    import networkx as nx
    n = scn["n"]
    lab = (lambda u: u) if labels is None else (lambda u: labels[u - 1])
    if scn.get("directed"):
        G = nx.DiGraph()
        for u in (order or range(1, n + 1)):
            G.add_node(lab(u))
        for u in range(1, n + 1):
            for v in range(1, n + 1):
                if scn["adj"][u - 1][v - 1]:
                    G.add_edge(lab(u), lab(v))
        return G
    G = nx.Graph()
    for u in (order or range(1, n + 1)):
        G.add_node(lab(u))
    for u in range(1, n + 1):
        for v in range(u, n + 1):          # v = u: a self-loop (only the SIS scenario family has them)
            if scn["adj"][u - 1][v - 1]:
                G.add_edge(lab(u), lab(v))
    return G


def ref_of(rec):
    """TLC record <<"REF", s, RefInf, RefRec, RefPreds, RefOut, RefH>> -> dict"""
    _, s, F, RR, P, O, H = rec
    return {"idx": s, "inf": F, "rec": RR, "preds": [set(p["__set__"]) for p in P],
            "out": set(O["__set__"]), "H": set(tuple(e) for e in H["__set__"])}


def step_function(times, statuses):
    d = {}
    for t, s in zip(times, statuses):
        d[t] = s
    return sorted(d.items())


def expected_steps(scn, ref, v):
    tmin = fl(scn["tmin"])
    ini = scn["init"][v - 1]
    d = {tmin: ini}
    if ini != "R":
        if ref["inf"][v - 1] < INF:
            d[fl(ref["inf"][v - 1])] = "I"
            if ref["rec"][v - 1] < INF:
                d[fl(ref["rec"][v - 1])] = "R"
    return sorted(d.items())


def compare_full(scn, ref, hist, trans, inv=None):
    """hist: {node: (times, statuses)}, trans: [(t,u,v)] with node labels mapped
    back to 1..n by the caller.  Returns list of (kind, detail)."""
    out = []
    n = scn["n"]
    tmin = fl(scn["tmin"])
    tmax = fl(scn["tmax"])
    for v in range(1, n + 1):
        ts, ss = hist[v]
        if scn["init"][v - 1] == "R":
            # initially recovered: never infected, ends recovered (the form of its history is C05/C10's business)
            if "I" in ss or (ss and ss[-1] != "R"):
                out.append(("initially-recovered-node-changed", "node %d has history %r" % (v, (ts, ss))))
            continue
        got = step_function(ts, ss)
        want = expected_steps(scn, ref, v)
        if got != want:
            out.append(("history", "node %d: history %r, first-passage percolation gives %r" % (v, got, want)))
        if any(t >= tmax for t in ts[1:]):
            out.append(("event-at-or-after-tmax", "node %d history %r with tmax=%r" % (v, (ts, ss), tmax)))
    if trans is not None:
        seen = {}
        last = -math.inf
        for (t, u, v) in trans:
            if t < last:
                out.append(("transmissions-unordered", "%r" % (trans,)))
                break
            last = t
        for (t, u, v) in trans:
            seen.setdefault(v, []).append((t, u))
        for v in range(1, n + 1):
            F = ref["inf"][v - 1]
            e = seen.get(v, [])
            if scn["init"][v - 1] == "R" or F >= INF:
                if e:
                    out.append(("spurious-transmission", "node %d is never infected but transmissions has %r" % (v, e)))
                continue
            if len(e) != 1:
                out.append(("transmission-count", "node %d infected once but transmissions has %r" % (v, e)))
                continue
            t, u = e[0]
            if t != fl(F):
                out.append(("transmission-time", "node %d: entry at %r, infected at %r" % (v, t, fl(F))))
            if scn["init"][v - 1] == "I":
                if u is not None:
                    out.append(("infector", "initially infected node %d has source %r" % (v, u)))
            elif u not in ref["preds"][v - 1]:
                out.append(("infector", "node %d: recorded infector %r, shortest-path predecessors %r"
                            % (v, u, sorted(ref["preds"][v - 1]))))
    return out


def compare_arrays(scn, ref, arrs):
    out = []
    t, S, I, R = [list(map(float, a)) for a in arrs]
    tmin = fl(scn["tmin"])
    tmax = fl(scn["tmax"])
    if not (len(t) == len(S) == len(I) == len(R)):
        return [("array-lengths", repr([len(t), len(S), len(I), len(R)]))]
    if not t or t[0] != tmin:
        return [("first-time", "times %r, tmin %r" % (t[:3], tmin))]
    if any(b < a for a, b in zip(t, t[1:])):
        out.append(("times-decrease", repr(t)))
    if any(x >= tmax for x in t[1:]):
        out.append(("event-at-or-after-tmax", "times %r tmax %r" % (t, tmax)))
    n = scn["n"]
    exp = {}
    for v in range(1, n + 1):
        if scn["init"][v - 1] == "S" and ref["inf"][v - 1] < INF:
            exp.setdefault(fl(ref["inf"][v - 1]), [0, 0])[0] += 1
        if scn["init"][v - 1] != "R" and ref["rec"][v - 1] < INF:
            exp.setdefault(fl(ref["rec"][v - 1]), [0, 0])[1] += 1
    got = {}
    for i in range(1, len(t)):
        d = (S[i] - S[i - 1], I[i] - I[i - 1], R[i] - R[i - 1])
        if d == (-1.0, 1.0, 0.0):
            got.setdefault(t[i], [0, 0])[0] += 1
        elif d == (0.0, -1.0, 1.0):
            got.setdefault(t[i], [0, 0])[1] += 1
        else:
            out.append(("row-not-one-move", "row %d changes by %r" % (i, d)))
    if got != exp and not out:
        out.append(("event-times", "rows give {time: [infections, recoveries]} = %r, first-passage percolation gives %r"
                    % (sorted(got.items()), sorted(exp.items()))))
    return out


def make_fxns(scn, log=None):
    d = scn["delay"]
    du = scn["dur"]

    def trans_time(u, v):
        if log is not None:
            log.append(("trans", u, v))
        return fl(d[u - 1][v - 1])

    def rec_time(u):
        if log is not None:
            log.append(("rec", u))
        return fl(du[u - 1])

    def joint(node, sus):
        sus = list(sus)
        if log is not None:
            log.append(("joint", node, tuple(sus)))
        return {v: fl(d[node - 1][v - 1]) for v in sus}, fl(du[node - 1])
    return trans_time, rec_time, joint


def shifted(scn, ref, sh):
    """the same scenario with every finite absolute time moved by -sh (negative start times); delays and
    durations are unchanged.  The reference outcome moves with it: the semantics is shift invariant."""
    if not sh:
        return scn, ref
    mv = lambda x: x if x >= INF else x - sh
    s2 = dict(scn, tmin=mv(scn["tmin"]), tmax=mv(scn["tmax"]))
    r2 = dict(ref, inf=[mv(x) for x in ref["inf"]], rec=[mv(x) for x in ref["rec"]])
    return s2, r2


def run_all(scn, ref, EoN, modes=("sep", "joint", "arr", "perc", "fast", "gin")):
    """All interfaces for one scenario; returns list of (interface, kind, detail)."""
    scn, ref = shifted(scn, ref, scn.get("shift", 0))
    probs = []
    n = scn["n"]
    nodes = list(range(1, n + 1))
    G = build(scn)
    I0 = [u for u in nodes if scn["init"][u - 1] == "I"]
    R0 = [u for u in nodes if scn["init"][u - 1] == "R"]
    tmin, tmax = fl(scn["tmin"]), fl(scn["tmax"])
    kw = dict(initial_infecteds=list(I0), tmin=tmin, tmax=tmax)
    if R0:
        kw["initial_recovereds"] = list(R0)

    def guard(name, f):
        try:
            return f()
        except scripted.Unmodelled:
            raise
        except Exception as ex:
            probs.append((name, "exception:%s" % type(ex).__name__, "%r" % (ex,)))
            return None

    def full(sim):
        hist = {u: (list(sim.node_history(u)[0]), list(sim.node_history(u)[1])) for u in nodes}
        return hist, [tuple(x) for x in sim.transmissions()]

    if "sep" in modes:
        log = []
        tt, rt, jt = make_fxns(scn, log)
        r = guard("fast_nonMarkov_SIR(separate)", lambda: full(EoN.fast_nonMarkov_SIR(
            G, trans_time_fxn=tt, rec_time_fxn=rt, return_full_data=True, **kw)))
        if r is not None:
            for k, d in compare_full(scn, ref, r[0], r[1]):
                probs.append(("fast_nonMarkov_SIR(separate)", k, d))
            for c in log:
                if c[0] == "trans" and not scn["adj"][c[1] - 1][c[2] - 1]:
                    probs.append(("fast_nonMarkov_SIR(separate)", "callback-on-non-edge", repr(c)))
    if "joint" in modes:
        tt, rt, jt = make_fxns(scn)
        r = guard("fast_nonMarkov_SIR(joint)", lambda: full(EoN.fast_nonMarkov_SIR(
            G, trans_and_rec_time_fxn=jt, return_full_data=True, **kw)))
        if r is not None:
            for k, d in compare_full(scn, ref, r[0], r[1]):
                probs.append(("fast_nonMarkov_SIR(joint)", k, d))
    if "sep" in modes and len(I0) == 1:
        # the index case is left to the simulator (the random choice is scripted to fall on the scenario's seed);
        # initial_recovereds is passed even when it is empty
        tt, rt, jt = make_fxns(scn)
        kw2 = dict(kw)
        kw2.pop("initial_infecteds")
        kw2["initial_recovereds"] = list(R0)

        def decider(kind, info, pop, probs_):
            # steer a choice among nodes towards the scenario's seed; any other way of drawing the index case
            # (randrange over positions, shuffles ...) is left alone and the run is only judged if the seed matches
            try:
                return list(pop).index(I0[0])
            except (ValueError, TypeError):
                return 0
        nm = "fast_nonMarkov_SIR(default index case)"
        try:
            leaf = scripted.run_scripted(lambda: full(EoN.fast_nonMarkov_SIR(G, trans_time_fxn=tt, rec_time_fxn=rt, return_full_data=True, **kw2)),
                                         [], decider=decider)
            if leaf.error is not None:
                probs.append((nm, "exception:%s" % type(leaf.error).__name__, "%r" % (leaf.error,)))
            else:
                got_seed = sorted(v for (t_, u_, v) in leaf.result[1] if u_ is None)      # the source-less entries name the index case
                if got_seed == I0:       # the scripted choice did fall on the scenario's seed
                    for k, d in compare_full(scn, ref, leaf.result[0], leaf.result[1]):
                        probs.append((nm, k, d))
        except scripted.Unmodelled:
            pass                  # the index case is drawn in a way the scripted source does not model: C05/C18 own that
    if "arr" in modes:
        tt, rt, jt = make_fxns(scn)
        r = guard("fast_nonMarkov_SIR(arrays)", lambda: EoN.fast_nonMarkov_SIR(
            G, trans_time_fxn=tt, rec_time_fxn=rt, **kw))
        if r is not None:
            for k, d in compare_arrays(scn, ref, r):
                probs.append(("fast_nonMarkov_SIR(arrays)", k, d))
    if "perc" in modes:
        for weights in (True, False):
            log = []
            tt, rt, jt = make_fxns(scn, log)
            nm = "nonMarkov_directed_percolate_network_with_timing(weights=%s)" % weights
            H = guard(nm, lambda: EoN.nonMarkov_directed_percolate_network_with_timing(G, tt, rt, weights=weights))
            if H is None:
                continue
            if not H.is_directed() or set(H.nodes()) != set(nodes):
                probs.append((nm, "percolated-nodes", "nodes %r directed=%r" % (sorted(H.nodes()), H.is_directed())))
            if set(H.edges()) != ref["H"]:
                probs.append((nm, "percolated-edges", "edges %r, rule delay<=duration gives %r" % (sorted(H.edges()), sorted(ref["H"]))))
            elif weights:
                for u in nodes:
                    if H.nodes[u].get("duration") != fl(scn["dur"][u - 1]):
                        probs.append((nm, "percolated-attributes", "node %d duration %r" % (u, H.nodes[u])))
                for (u, v) in H.edges():
                    if H.edges[u, v].get("delay_to_infection") != fl(scn["delay"][u - 1][v - 1]):
                        probs.append((nm, "percolated-attributes", "edge %r attr %r" % ((u, v), H.edges[u, v])))
            # every node queried once, every ordered neighbour pair once
            want = sorted([("rec", u) for u in nodes] + [("trans", u, v) for u in nodes for v in nodes
                                                         if scn["adj"][u - 1][v - 1]])
            if sorted(log) != want:
                probs.append((nm, "rule-queries", "rules queried %r" % (sorted(log),)))
            # out-component of the percolated graph = who gets infected with an unbounded horizon
            if weights and set(H.edges()) == ref["H"] and scn["tmax"] >= INF:
                Hc = H.copy()
                Hc.remove_nodes_from(R0)
                oc = guard("_out_component_", lambda: EoN.simulation._out_component_(Hc, set(I0)))
                if oc is not None:
                    # reachability through an INF-delay edge is not infection: compare on finite-delay scenarios only
                    finite = all(scn["delay"][u - 1][v - 1] < INF for (u, v) in ref["H"])
                    if finite and set(oc) != ref["out"]:
                        probs.append(("out-component", "out-component", "%r vs %r" % (sorted(oc), sorted(ref["out"]))))
    if "gin" in modes:
        r = get_infected_nodes_scripted(scn, ref, EoN)
        for k, d in (r or []):
            probs.append(("get_infected_nodes", k, d))
    if "fast" in modes:
        r = fast_sir_scripted(scn, EoN)
        if r is not None:
            name = "fast_SIR(weighted path)"
            if isinstance(r, Exception):
                probs.append((name, "exception:%s" % type(r).__name__, repr(r)))
            else:
                for k, d in compare_full(scn, ref, r[0], r[1]):
                    probs.append((name, k, d))
                for k, d in r[2]:
                    probs.append((name, k, d))
    return probs


def fast_sir_scripted(scn, EoN):
    """fast_SIR on its weighted path with the delays of the scenario fed through
    the scripted expovariate.  Draws are attributed by their rate: node u recovers
    at rate gamma*g[u] (distinct per node) and edge {u,v} transmits at tau*w[u,v]
    (distinct per edge); the direction is given by the node whose recovery draw
    opened the block.  Needs INF delays to be symmetric (edge weight 0)."""
    n = scn["n"]
    nodes = list(range(1, n + 1))
    d = scn["delay"]
    if scn.get("directed"):
        return None      # edge weights are attributes of undirected contacts here
    for u in nodes:
        for v in nodes:
            if u < v and scn["adj"][u - 1][v - 1] and (d[u - 1][v - 1] >= INF) != (d[v - 1][u - 1] >= INF):
                return None
    G = build(scn)
    recrate = {}
    for u in nodes:
        g = 0.0 if scn["dur"][u - 1] >= INF else 1.0 + u / 16.0
        G.nodes[u]["g"] = g
        if g > 0:
            recrate[g] = u
    edgerate = {}
    k = 0
    for u in nodes:
        for v in nodes:
            if u < v and scn["adj"][u - 1][v - 1]:
                k += 1
                w = 0.0 if d[u - 1][v - 1] >= INF else 3.0 + k / 16.0
                G[u][v]["w"] = w
                if w > 0:
                    edgerate[w] = (u, v)
    state = {"owner": None}
    bad = []

    def delays(kk, rate):
        if rate in recrate:
            state["owner"] = recrate[rate]
            return fl(scn["dur"][state["owner"] - 1])
        if rate in edgerate:
            a, b = edgerate[rate]
            o = state["owner"]
            if o not in (a, b):
                bad.append(("draw-attribution", "transmission draw of rate %r for edge %r inside the block of node %r" % (rate, (a, b), o)))
                return 1.0
            v = b if o == a else a
            return fl(d[o - 1][v - 1])
        bad.append(("draw-rate", "expovariate(%r) is neither a recovery rate %r nor an edge rate %r" % (rate, sorted(recrate), sorted(edgerate))))
        return 1.0
    I0 = [u for u in nodes if scn["init"][u - 1] == "I"]
    R0 = [u for u in nodes if scn["init"][u - 1] == "R"]
    kw = dict(initial_infecteds=list(I0), tmin=fl(scn["tmin"]), tmax=fl(scn["tmax"]),
              transmission_weight="w", recovery_weight="g", return_full_data=True)
    if R0:
        kw["initial_recovereds"] = list(R0)
    # an INF duration with weight 0 is only honoured when the owner is known: a node with g=0 makes no draw,
    # so its neighbours' draws would be attributed to the previous owner; set the owner through the rate function
    owners = []

    def fn():
        sim = EoN.fast_SIR(G, 1.0, 1.0, **kw)
        hist = {u: (list(sim.node_history(u)[0]), list(sim.node_history(u)[1])) for u in nodes}
        return hist, [tuple(x) for x in sim.transmissions()]
    if any(scn["dur"][u - 1] >= INF for u in nodes):
        return None  # no recovery draw => the block owner is not observable from the tape
    leaf = scripted.run_scripted(fn, [], delays=delays)
    if leaf.error is not None:
        return leaf.error
    return leaf.result[0], leaf.result[1], bad


def fast_sir_unweighted_scripted(scn, ref, EoN):
    """fast_SIR on its unweighted fast path (binomial number of recipients, sample, truncated
    exponential delays) driven so that it realises the delay/duration tables of `scn`:
      expovariate(gamma*g[u]) -> duration[u]            (g distinct per node identifies u)
      binomial(n, p)          -> j = #susceptible neighbours v with delay[u][v] < duration[u]
                                 (n must be the number of susceptible neighbours, p = 1-exp(-tau*duration))
      sample(pop, j)          -> those neighbours
      expovariate(tau)        -> delay[u][v] + m*duration[u]  (m = 0,1,2: the code must reduce it modulo the duration)
    The susceptible neighbours of u at its infection are read off the reference outcome TLC emitted
    (event times are pairwise distinct in this scenario family).  Returns problems [(kind, detail)]."""
    import math
    n = scn["n"]
    nodes = list(range(1, n + 1))
    G = build(scn)
    tau, gamma = 0.5, 1.0
    g = {u: 1.0 + u / 16.0 for u in nodes}
    for u in nodes:
        G.nodes[u]["g"] = g[u]
    recrate = {gamma * g[u]: u for u in nodes}
    inf = ref["inf"]
    # distinct event times are required for the susceptible-neighbour sets to be well defined
    times = [x for x in inf if x < INF] + [x for x in ref["rec"] if x < INF]
    I0 = [u for u in nodes if scn["init"][u - 1] == "I"]
    if len(set(times)) != len(times) - (len(I0) - 1 if len(I0) > 1 else 0):
        return None

    def sus_nbrs(u):
        return [v for v in nodes if scn["adj"][u - 1][v - 1] and scn["init"][v - 1] != "R"
                and (inf[v - 1] >= INF or inf[v - 1] > inf[u - 1]) and not (scn["init"][v - 1] == "I")]
    # initially infected nodes are all infected at tmin, one after the other: a later one is still susceptible
    # when an earlier one is processed -> ambiguous; keep single-seed scenarios or seeds that are not adjacent
    for a in I0:
        for b in I0:
            if a != b and scn["adj"][a - 1][b - 1]:
                return None
    state = {"owner": None, "queue": [], "m": 0}
    bad = []

    def delays(k, rate):
        if rate in recrate:
            state["owner"] = recrate[rate]
            return fl(scn["dur"][state["owner"] - 1])
        if rate == tau:
            if not state["queue"]:
                bad.append(("draw-protocol", "an unexpected transmission-delay draw for node %r" % state["owner"]))
                return 1.0
            v = state["queue"].pop(0)
            u = state["owner"]
            state["m"] = (state["m"] + 1) % 3
            return fl(scn["delay"][u - 1][v - 1]) + state["m"] * fl(scn["dur"][u - 1])
        bad.append(("draw-rate", "expovariate(%r): neither a recovery rate gamma*g[u] nor tau" % rate))
        return 1.0

    def decider(kind, info, pop, probs):
        u = state["owner"]
        P = sus_nbrs(u)
        rec = [v for v in P if scn["delay"][u - 1][v - 1] < scn["dur"][u - 1]]
        if kind == "binomial":
            want_p = 1.0 - math.exp(-tau * fl(scn["dur"][u - 1]))
            if info["n"] != len(P):
                bad.append(("binomial-n", "node %d: binomial(n=%d) but it has %d susceptible neighbours %r" % (u, info["n"], len(P), P)))
            if abs(info["p"] - want_p) > 1e-12:
                bad.append(("binomial-p", "node %d: binomial p=%r, 1-exp(-tau*duration)=%r" % (u, info["p"], want_p)))
            state["queue"] = list(rec)
            state["todo"] = list(rec)
            return min(len(rec), info["n"])
        if kind == "sample":
            if sorted(pop) != sorted(set(pop) | set(state["todo"])) or not state["todo"]:
                bad.append(("sample-population", "node %d: sample from %r, susceptible neighbours %r" % (u, pop, P)))
                return 0
            v = state["todo"].pop(0)
            return list(pop).index(v)
        bad.append(("draw-kind", "unexpected draw %s" % kind))
        return 0
    R0 = [u for u in nodes if scn["init"][u - 1] == "R"]
    kw = dict(initial_infecteds=list(I0), tmin=fl(scn["tmin"]), tmax=fl(scn["tmax"]), recovery_weight="g", return_full_data=True)
    if R0:
        kw["initial_recovereds"] = list(R0)

    def fn():
        sim = EoN.fast_SIR(G, tau, gamma, **kw)
        hist = {u: (list(sim.node_history(u)[0]), list(sim.node_history(u)[1])) for u in nodes}
        return hist, [tuple(x) for x in sim.transmissions()]
    try:
        leaf = scripted.run_scripted(fn, [], delays=delays, decider=decider)
    except scripted.Unmodelled as ex:
        return [("protocol-unmodelled~", "the scripted random source cannot follow the implementation: %s" % ex)]
    if leaf.error is not None:
        if not bad:
            return [("exception:%s" % type(leaf.error).__name__, repr(leaf.error))]
        return [(k + "~", d) for (k, d) in bad[:1]] + [("exception-after-protocol-divergence~", repr(leaf.error))]
    # the scenario the code actually realised: non-recipients never transmit
    eff = dict(scn)
    eff["delay"] = [[(scn["delay"][a][b] if scn["delay"][a][b] < scn["dur"][a] else INF) for b in range(n)] for a in range(n)]
    cmp_ = compare_full(eff, ref, leaf.result[0], leaf.result[1])
    # findings that depend on the implementation consuming its random numbers as the protocol expects (also: handing the
    # k-th delay to the k-th sampled neighbour) end in "~": the caller decides those at the level of the law; what
    # holds for every run whatever the protocol stays as it is
    structural = ("initially-recovered-node-changed", "event-at-or-after-tmax", "transmissions-unordered")
    return [(k + "~", d) for (k, d) in bad] + [((k if k in structural else k + "~"), d) for (k, d) in cmp_]


def get_infected_nodes_scripted(scn, ref, EoN):
    """get_infected_nodes(G, tau, gamma, I0, R0) = out-component of I0 in the percolated digraph with R0 removed.
    The exponential draws are bound to nodes / ordered pairs by a probe run of directed_percolate_network with
    distinct values (read back from the documented attributes `duration` / `delay_to_infection`); the scenario's
    tables are then fed through the same draw positions.  Needs finite durations and delays on all contacts."""
    n = scn["n"]
    nodes = list(range(1, n + 1))
    for u in nodes:
        if scn["dur"][u - 1] >= INF:
            return None
        for v in nodes:
            if scn["adj"][u - 1][v - 1] and scn["delay"][u - 1][v - 1] >= INF:
                return None
    G = build(scn)
    tau, gamma = 0.5, 2.0

    def probe_delays(k, rate):
        return 100000.0 + k if rate == gamma else float(k + 1)
    leaf = scripted.run_scripted(lambda: EoN.directed_percolate_network(G, tau, gamma), [], delays=probe_delays)
    if leaf.error is not None:
        return [("exception:%s" % type(leaf.error).__name__, "directed_percolate_network raised %r" % (leaf.error,))]
    H = leaf.result
    owner = {}
    try:
        for u in nodes:
            owner[int(H.nodes[u]["duration"] - 100000.0)] = ("rec", u)
        for (u, v) in H.edges():
            owner[int(H.edges[u, v]["delay_to_infection"]) - 1] = ("trans", u, v)
    except Exception as ex:
        return [("probe", "could not read the draw positions back from the percolated graph: %r" % (ex,))]
    want_draws = n + sum(1 for u in nodes for v in nodes if scn["adj"][u - 1][v - 1])
    if len(owner) != want_draws:
        return [("probe", "%d draws attributed, %d nodes+ordered contacts" % (len(owner), want_draws))]
    bad = []

    def delays(k, rate):
        o = owner.get(k)
        if o is None:
            bad.append(("draw-protocol", "unexpected draw #%d with rate %r" % (k, rate)))
            return 1.0
        if o[0] == "rec":
            if rate != gamma:
                bad.append(("draw-rate", "duration of node %d drawn with rate %r, gamma=%r" % (o[1], rate, gamma)))
            return fl(scn["dur"][o[1] - 1])
        if rate != tau:
            bad.append(("draw-rate", "delay %r drawn with rate %r, tau=%r" % (o[1:], rate, tau)))
        return fl(scn["delay"][o[1] - 1][o[2] - 1])
    I0 = [u for u in nodes if scn["init"][u - 1] == "I"]
    R0 = [u for u in nodes if scn["init"][u - 1] == "R"]
    # "node or iterable of nodes": list, set, tuple, a bare node, a one-shot iterator or a generator
    style = (sum(scn["dur"]) + len(I0)) % 5
    def as_style(xs):
        if style == 1:
            return set(xs)
        if style == 2:
            return iter(list(xs))
        if style == 3:
            return (x for x in list(xs))
        if style == 4 and len(xs) == 1:
            return xs[0]
        return list(xs)
    leaf = scripted.run_scripted(lambda: EoN.get_infected_nodes(G, tau, gamma, initial_infecteds=as_style(I0),
                                                                 initial_recovereds=list(R0) if R0 else None), [], delays=delays)
    if leaf.error is not None:
        return [("exception:%s" % type(leaf.error).__name__, "get_infected_nodes raised %r" % (leaf.error,))]
    out = list(bad)
    if set(leaf.result) != ref["out"]:
        out.append(("out-component", "get_infected_nodes returned %r, the out-component of the initially infected nodes in the percolated digraph (initially recovered removed) is %r"
                    % (sorted(leaf.result), sorted(ref["out"]))))
    # one initially recovered node, given in the documented single-node style; its label is 0
    if len(R0) == 1 and not bad:
        import networkx as nx
        G0 = nx.relabel_nodes(G, {R0[0]: 0}, copy=True)
        if list(G0.nodes()) == [0 if u == R0[0] else u for u in G.nodes()]:
            del bad[:]
            leaf0 = scripted.run_scripted(lambda: EoN.get_infected_nodes(G0, tau, gamma, initial_infecteds=list(I0), initial_recovereds=0), [], delays=delays)
            if leaf0.error is not None:
                out.append(("exception:%s" % type(leaf0.error).__name__, "get_infected_nodes(initial_recovereds=0 (a node)) raised %r" % (leaf0.error,)))
            elif not bad and set(R0[0] if x == 0 else x for x in leaf0.result) != ref["out"]:
                out.append(("out-component", "get_infected_nodes with the initially recovered node given as the bare node 0 returned %r, expected %r (node 0 stands for node %d of the scenario)"
                            % (sorted(leaf0.result), sorted(ref["out"]), R0[0])))
    # overlapping initial sets are rejected
    if I0:
        try:
            EoN.get_infected_nodes(G, tau, gamma, initial_infecteds=list(I0), initial_recovereds=[I0[0]])
            out.append(("overlap-accepted", "initial_infecteds and initial_recovereds overlap but no EoNError was raised"))
        except EoN.EoNError:
            pass
        except Exception as ex:
            out.append(("overlap-exception", repr(ex)))
    return out

"""Scenarios and replay for the draw protocol of fast_SIS (FastSISMarkov.tla)."""
import json
import os
import random as pyrandom
import shutil
import tempfile

from . import tlc, scripted


def scenarios(seed, count, sizes=(2, 3, 4)):
    rng = pyrandom.Random(seed + 606)
    out = []
    for _ in range(count):
        n = rng.choice(sizes)
        p = rng.choice([0.5, 0.8, 1.0])
        w = [[0] * n for _ in range(n)]
        weighted = rng.random() < 0.5
        for u in range(n):
            for v in range(u + 1, n):
                if rng.random() < p:
                    w[u][v] = w[v][u] = rng.choice([1, 2, 3]) if weighted else 1
        g = [rng.choice([1, 2, 3]) if weighted else 1 for _ in range(n)]
        init = ["S"] * n
        for u in rng.sample(range(n), rng.choice([1, 1, 2])):
            init[u] = "I"
        tau = rng.choice([1, 2, 2, 3, 0])
        gam = rng.choice([1, 2, 1, 1, 0])
        # generic draw values: small ones make draws land inside infectious periods (re-draws), large ones miss
        tape = [rng.choice([rng.randint(1, 60), rng.randint(1, 200), rng.randint(1, 400), rng.randint(100, 2000)]) for _ in range(160)]
        tmin = rng.choice([1, 50])
        tmax = tmin + rng.randint(300, 2500)
        out.append({"n": n, "w": w, "g": g, "init": init, "tau": tau, "gam": gam, "tape": tape, "tmin": tmin, "tmax": tmax,
                    "weighted": 1 if weighted else 0,
                    # the real call is made with all times shifted by -shift (negative start times)
                    "shift": rng.choice([0, 0, 3, 60, 4000])})
    return out


def model_check(scn):
    d = tempfile.mkdtemp(prefix="eonverif_fsis_")
    try:
        p = os.path.join(d, "scenarios.json")
        with open(p, "w") as fh:
            json.dump(scn, fh)
        cfg = tlc.cfg_text({}, invariants=["QueueSound", "LogOrdered", "RatesAreChainRates", "EmitRef"],
                           properties=["FiredIsEnabled"]).replace("CONSTANTS\n", "")
        return tlc.run_tlc("FastSISMarkov", cfg, workers=16, env={"EON_SCENARIOS": p}, coverage=True, timeout=3000)
    finally:
        shutil.rmtree(d, ignore_errors=True)


def replay(scn, ref, EoN):
    """ref = (log, rates, ndraws) emitted by TLC.  Returns [(kind, detail)]."""
    import networkx as nx
    n = scn["n"]
    nodes = list(range(1, n + 1))
    G = nx.Graph()
    for u in nodes:
        G.add_node(u, g=float(scn["g"][u - 1]))
    for u in nodes:
        for v in nodes:
            if u < v and scn["w"][u - 1][v - 1] > 0:
                G.add_edge(u, v, w=float(scn["w"][u - 1][v - 1]))
    tape = scn["tape"]
    asked = []

    def delays(k, rate):
        asked.append(rate)
        return float(tape[min(k, len(tape) - 1)])
    I0 = [u for u in nodes if scn["init"][u - 1] == "I"]
    sh = float(scn.get("shift", 0))
    kw = dict(initial_infecteds=list(I0), tmin=float(scn["tmin"]) - sh, tmax=float(scn["tmax"]) - sh, return_full_data=True)
    if scn["weighted"]:
        kw.update(transmission_weight="w", recovery_weight="g")

    def fn():
        sim = EoN.fast_SIS(G, float(scn["tau"]), float(scn["gam"]), **kw)
        hist = {u: (list(sim.node_history(u)[0]), list(sim.node_history(u)[1])) for u in nodes}
        return hist, [tuple(x) for x in sim.transmissions()]
    log, rates, ndraws = ref
    try:
        leaf = scripted.run_scripted(fn, [], delays=delays)
    except scripted.Unmodelled as ex:
        return [("protocol-unmodelled~", "the scripted random source cannot follow the implementation: %s" % ex)]
    if leaf.error is not None:
        if asked == [float(r) for r in rates][:len(asked)]:
            return [("exception:%s" % type(leaf.error).__name__, repr(leaf.error))]
        return [("exception-after-protocol-divergence~", repr(leaf.error))]
    hist, trans = leaf.result
    out = []
    src = {}
    for (t, a, b) in trans:
        src[(float(t), b)] = a
    got = []
    ch = []
    for u in nodes:
        ts, ss = hist[u]
        for k in range(1, len(ts)):
            ch.append((float(ts[k]), ss[k], u))
    ch.sort(key=lambda c: c[0])
    for (t, s, u) in ch:
        got.append([t, "I", u, src.get((t, u), "?")] if s == "I" else [t, "R", u, 0])
    want = [[float(e[0]) - sh, e[1], e[2], e[3]] for e in log]
    # whatever the draw protocol: the recorded run must be a behaviour of the chain (every infection has an
    # infectious neighbour as its recorded source, only infected nodes recover, times inside the window)
    cur = {u: scn["init"][u - 1] for u in nodes}
    k = 0
    while k < len(got):
        j = k
        while j < len(got) and got[j][0] == got[k][0]:
            j += 1
        inst = got[k:j]
        if not (kw["tmin"] <= inst[0][0] < kw["tmax"]):
            return [("history-invalid", "event %r outside [tmin, tmax) = [%r, %r)" % (inst[0], kw["tmin"], kw["tmax"]))]
        before = dict(cur)
        for (t, s_, u, a) in inst:
            if s_ == "I":
                ok = before[u] == "S" or len(inst) > 1
                if a == "?" or a not in cur or scn["w"][a - 1][u - 1] <= 0 or not (before[a] == "I" or len(inst) > 1):
                    ok = False
                if not ok:
                    return [("history-invalid", "infection %r: target status %r, recorded source %r with status %r, edge weight %r"
                             % ([t, u], before[u], a, before.get(a), scn["w"][a - 1][u - 1] if a in cur else None))]
                cur[u] = "I"
            else:
                if not (before[u] == "I" or len(inst) > 1):
                    return [("history-invalid", "recovery %r of a node whose status is %r" % ([t, u], before[u]))]
                cur[u] = "S"
        k = j
    tied = len({e[0] for e in want}) < len(want) or len({e[0] for e in got}) < len(got)
    if got != want and tied:
        # simultaneous events (integer draw values): the queue's counter order is not part of the
        # specification; compare with a canonical order inside each instant, skip if still different
        if sorted(got, key=lambda e: (e[0], e[1], e[2])) == sorted(want, key=lambda e: (e[0], e[1], e[2])):
            got = want
        else:
            return [("tied-skip", "simultaneous events")]
    # a kind that ends in "~" depends on the implementation following the specification's DRAW PROTOCOL (which draws
    # are requested and in which order - with equal rates the order is not even observable): the caller decides those
    # at the level of the law.  What holds for every run whatever the protocol was checked above (history-invalid).
    if got != want:
        k = 0
        while k < min(len(got), len(want)) and got[k] == want[k]:
            k += 1
        out.append(("history~", "given the same draw values the history differs from the lazy-scheduling specification at event %d: code %r, spec %r"
                    % (k, got[k:k + 2], want[k:k + 2])))
    if [float(r) for r in rates] != asked:
        k = 0
        while k < min(len(asked), len(rates)) and asked[k] == float(rates[k]):
            k += 1
        out.append(("draw-rates~", "the %d-th exponential draw was requested with rate %r, the chain's rate for that draw is %r (requested %d draws, specification %d)"
                    % (k + 1, asked[k] if k < len(asked) else None, rates[k] if k < len(rates) else None, len(asked), len(rates))))
    return out

"""Replay of EventSIS scenarios into the real fast_nonMarkov_SIS and comparison
with the reference log TLC emitted for the same scenario."""
from .event_sir import build


def make_fxns(scn):
    K = scn["k"]
    calls = {}

    def rec_time(u):
        calls[u] = calls.get(u, 0) + 1
        return float(scn["dur"][u - 1][(calls[u] - 1) % K])

    def trans_time(u, v, rec_delay):
        k = calls.get(u, 1)
        return [float(x) for x in scn["delay"][u - 1][v - 1][(k - 1) % K]]

    jcalls = {}

    def joint(node, nbrs):
        jcalls[node] = jcalls.get(node, 0) + 1
        k = jcalls[node]
        return ({v: [float(x) for x in scn["delay"][node - 1][v - 1][(k - 1) % K]] for v in nbrs},
                float(scn["dur"][node - 1][(k - 1) % K]))

    def joint_sparse(node, nbrs):
        # "trans_delay_dict is a dict whose keys are those neighbors who receive a transmission"
        d, r = joint(node, nbrs)
        return {v: x for v, x in d.items() if x}, r
    return trans_time, rec_time, joint, joint_sparse


def make_table_fxn(scn):
    """joint style backed by a table the user built once: every time the k-th (mod K) infection of a node comes round again
    the function hands out the SAME dict and list objects."""
    K = scn["k"]
    n = scn["n"]
    table = {}
    jcalls = {}

    def joint_table(node, nbrs):
        jcalls[node] = jcalls.get(node, 0) + 1
        key = (node, (jcalls[node] - 1) % K)
        if key not in table:
            table[key] = {v: [float(x) for x in scn["delay"][node - 1][v - 1][key[1]]] for v in nbrs}
        return table[key], float(scn["dur"][node - 1][key[1]])

    return joint_table


def log_from_full(sim, nodes):
    ch = []
    for u in nodes:
        ts, ss = sim.node_history(u)
        for i in range(1, len(ts)):
            ch.append((float(ts[i]), ss[i - 1], ss[i], u))
    ch.sort(key=lambda c: c[0])
    src = {}
    for (t, a, b) in sim.transmissions():
        src.setdefault((float(t), b), []).append(a)
    log = []
    for (t, old, new, u) in ch:
        if old == "S" and new == "I":
            s = src.get((t, u), ["?"])
            log.append([t, "I", u, s[0] if len(s) == 1 else tuple(s)])
        elif old == "I" and new == "S":
            log.append([t, "R", u, 0])
        else:
            log.append([t, "?%s%s" % (old, new), u, 0])
    return log


def _relabelled(scn, fxns, off):
    """the same scenario on a graph whose labels are shifted by -off (off=1: the labels are 0..n-1, node 0 is falsy)"""
    import networkx as nx
    tt, rt, jt, js = fxns
    G0 = build(scn)
    G = nx.relabel_nodes(G0, {u: u - off for u in G0.nodes()}, copy=True)

    def tt2(u, v, r):
        return tt(u + off, v + off, r)

    def rt2(u):
        return rt(u + off)

    def jt2(node, nbrs):
        d, r = jt(node + off, [v + off for v in nbrs])
        return {v - off: x for v, x in d.items()}, r
    return G, tt2, rt2, jt2


def run_all(scn, reflog, EoN):
    probs = []
    n = scn["n"]
    nodes = list(range(1, n + 1))
    G = build(scn)
    I0 = [u for u in nodes if scn["init"][u - 1] == "I"]
    sh = float(scn.get("shift", 0))
    tmin, tmax = float(scn["tmin"]) - sh, float(scn["tmax"]) - sh
    want = [[float(e[0]) - sh, e[1], e[2], e[3]] for e in reflog]
    kw = dict(initial_infecteds=list(I0), tmin=tmin, tmax=tmax)
    for iface in ("separate", "joint", "joint-sparse", "joint-table", "separate,labels-from-0", "joint,labels-from-0"):
        tt, rt, jt, js = make_fxns(scn)
        fk = dict(trans_time_fxn=tt, rec_time_fxn=rt) if iface == "separate" else dict(trans_and_rec_time_fxn=jt if iface == "joint" else js)
        if iface == "joint-table":
            jtab = make_table_fxn(scn)
            fk = dict(trans_and_rec_time_fxn=jtab)
        if iface == "separate":
            # the two user functions receive their own extra arguments (trans_time_args / rec_time_args)
            def tt_a(u, v, rd, tag, _tt=tt):
                d_ = _tt(u, v, rd)
                return d_ if tag == "for-trans" else [x + 0.5 for x in d_]

            def rt_a(u, tag, _rt=rt):
                d_ = _rt(u)
                return d_ if tag == "for-rec" else d_ + 0.5
            fk = dict(trans_time_fxn=tt_a, rec_time_fxn=rt_a, trans_time_args=("for-trans",), rec_time_args=("for-rec",))
        name = "fast_nonMarkov_SIS(%s)" % iface
        try:
            if iface.endswith("labels-from-0"):
                G0, tt2, rt2, jt2 = _relabelled(scn, (tt, rt, jt, js), 1)
                fk = dict(trans_time_fxn=tt2, rec_time_fxn=rt2) if iface.startswith("separate") else dict(trans_and_rec_time_fxn=jt2)
                kw0 = dict(kw, initial_infecteds=[u - 1 for u in I0])
                sim0 = EoN.fast_nonMarkov_SIS(G0, return_full_data=True, **fk, **kw0)

                class _Shift(object):
                    def node_history(self, u):
                        return sim0.node_history(u - 1)

                    def transmissions(self):
                        return [(t, (a + 1 if a is not None else None), b + 1) for (t, a, b) in sim0.transmissions()]
                sim = _Shift()
            else:
                sim = EoN.fast_nonMarkov_SIS(G, return_full_data=True, **fk, **kw)
            got = log_from_full(sim, nodes)
            ini = tuple(sim.node_history(u)[1][0] for u in nodes)
            tr = [tuple(x) for x in sim.transmissions()]
        except Exception as ex:
            probs.append((name, "exception:%s" % type(ex).__name__, repr(ex)))
            continue
        if ini != tuple(scn["init"]):
            probs.append((name, "initial-state", "histories start in %r, requested %r" % (ini, scn["init"])))
        if got != want:
            i = 0
            while i < min(len(got), len(want)) and got[i] == want[i]:
                i += 1
            probs.append((name, "history", "status changes differ from the reference semantics at event %d: code %r, reference %r"
                          % (i, got[i:i + 2], want[i:i + 2])))
        # transmissions: initial entries (tmin, None, u), then exactly the logged infections, time ordered
        exp_tr = sorted([(tmin, None, u) for u in I0], key=lambda x: x[2]) + [(e[0], e[3], e[2]) for e in want if e[1] == "I"]
        if sorted(tr[:len(I0)], key=lambda x: x[2]) + tr[len(I0):] != exp_tr:
            probs.append((name, "transmissions", "transmissions() = %r, reference %r" % (tr[:6], exp_tr[:6])))
    # arrays
    tt, rt, jt, js = make_fxns(scn)
    try:
        t, S, I = [list(map(float, a)) for a in EoN.fast_nonMarkov_SIS(G, trans_time_fxn=tt, rec_time_fxn=rt, **kw)]
        et = [tmin] + [e[0] for e in want]
        eI = [float(len(I0))]
        for e in want:
            eI.append(eI[-1] + (1 if e[1] == "I" else -1))
        eS = [n - x for x in eI]
        if (t, S, I) != (et, eS, eI):
            probs.append(("fast_nonMarkov_SIS(arrays)", "arrays", "returned %r, reference %r" % ((t[:6], S[:6], I[:6]), (et[:6], eS[:6], eI[:6]))))
    except Exception as ex:
        probs.append(("fast_nonMarkov_SIS(arrays)", "exception:%s" % type(ex).__name__, repr(ex)))
    return probs

"""Scripted random source: the scheduler seam used by the spec -> code binding.

EoN.simulation reaches randomness only through the module global `random`
(random / expovariate / choice / sample ...) and numpy.random.  `Source`
replaces both for the duration of one call.  A *script* is a list of branch
indices; every draw that can influence control flow is a *branch point* whose
options and exact probabilities are recorded on the *tape*.

`explore()` enumerates the decision tree of one call statelessly (re-execution
with a longer script) and returns the complete leaves with their exact
probabilities.  Rejection-sampling loops (pick uniformly, accept w.p. w/max,
otherwise pick again from the *same* population at the *same* call site) make
the tree infinite; a rejected round that returns to an identical decision
point is recorded as a loop-back leaf and folded analytically
(P(select x) = P(pick x)P(accept x) / sum_y P(pick y)P(accept y)).
"""
import math
import sys


class Unmodelled(Exception):
    """The code used the random source in a way the scripted source does not
    model: a machinery gap (exit 2), never a property verdict."""


class LoopBack(BaseException):
    """Control returned to an identical earlier decision point."""
    def __init__(self, target):
        self.target = target


class TooDeep(BaseException):
    pass


class Runaway(Exception):
    """More waiting-time draws than any behaviour of the specification allows
    (e.g. more than 2N events in an SIR epidemic): an observation about the
    code under test, reported by the caller as a violation."""


TAG_EXP = False      # set (harness.scripted.tagged()) by the decision-tree walks that compare clock rates and probabilities


class tagged(object):
    """context manager: waiting times handed out by the scripted expovariate are ExpDraw objects"""
    def __enter__(self):
        global TAG_EXP
        self.old = TAG_EXP
        TAG_EXP = True

    def __exit__(self, *a):
        global TAG_EXP
        TAG_EXP = self.old
        return False


class ExpDraw(float):
    """A waiting time handed out by the scripted expovariate during a decision-tree walk.  The walk gives every
    waiting time the same nominal value, which is harmless as long as a waiting time is only ADDED to the clock
    (the sum is a plain float).  Code that lets waiting times race against each other (first-reaction method,
    `delay < duration`) compares two of them: that is not enumerable as a finite decision tree, so it is refused
    rather than silently mis-modelled."""
    __slots__ = ()

    def _cmp(self, other):
        if isinstance(other, ExpDraw):
            raise Unmodelled("two waiting-time draws are compared with each other (a race of exponential clocks)")

    def __lt__(self, other):
        self._cmp(other)
        return float.__lt__(self, other)

    def __le__(self, other):
        self._cmp(other)
        return float.__le__(self, other)

    def __gt__(self, other):
        self._cmp(other)
        return float.__gt__(self, other)

    def __ge__(self, other):
        self._cmp(other)
        return float.__ge__(self, other)

    def __eq__(self, other):
        self._cmp(other)
        return float.__eq__(self, other)

    def __ne__(self, other):
        self._cmp(other)
        return float.__ne__(self, other)

    __hash__ = float.__hash__


class SymU(object):
    """A symbolic uniform(0,1) draw (affine image a*U+b, a>0).  Comparisons
    against a number split the current interval of U and take the scripted
    side; the branch probability is exact (conditional on earlier splits)."""
    __array_ufunc__ = None
    __slots__ = ("src", "a", "b", "box")

    def __init__(self, src, a=1.0, b=0.0, box=None):
        self.src = src
        self.a = a
        self.b = b
        self.box = box if box is not None else [0.0, 1.0]

    # --- affine arithmetic -------------------------------------------------
    def __add__(self, o):
        return SymU(self.src, self.a, self.b + _num(o), self.box)
    __radd__ = __add__

    def __sub__(self, o):
        return SymU(self.src, self.a, self.b - _num(o), self.box)

    def __mul__(self, o):
        o = _num(o)
        if o <= 0:
            raise Unmodelled("uniform draw scaled by non-positive number")
        return SymU(self.src, self.a * o, self.b * o, self.box)
    __rmul__ = __mul__

    def __truediv__(self, o):
        o = _num(o)
        if o <= 0:
            raise Unmodelled("uniform draw divided by non-positive number")
        return SymU(self.src, self.a / o, self.b / o, self.box)

    # --- comparisons ---------------------------------------------------------
    def _less(self, c, strict_info):
        # a*U+b < c  <=>  U < (c-b)/a
        thr = (_num(c) - self.b) / self.a
        lo, hi = self.box
        if thr <= lo:
            self.src.tape.append(("cmpdet", thr, False, None))
            return False
        if thr >= hi:
            self.src.tape.append(("cmpdet", thr, True, None))
            return True
        p = (thr - lo) / (hi - lo)
        # a side of relative width < 1e-12 is float rounding of a threshold that
        # is meant to coincide with the end of the interval, not a real branch
        if p < 1e-12:
            self.src.tape.append(("cmpdet", thr, False, None))
            return False
        if 1.0 - p < 1e-12:
            self.src.tape.append(("cmpdet", thr, True, None))
            return True
        k = self.src._branch("cmp", [p, 1.0 - p], {"thr": thr, "lo": lo, "hi": hi})
        if k == 0:
            self.box[1] = thr
            return True
        self.box[0] = thr
        return False

    def __lt__(self, c):
        return self._less(c, True)

    def __le__(self, c):
        return self._less(c, False)

    def __gt__(self, c):
        return not self._less(c, False)

    def __ge__(self, c):
        return not self._less(c, True)

    def __float__(self):
        raise Unmodelled("uniform draw converted to float")

    def __int__(self):
        raise Unmodelled("uniform draw converted to int")
    __index__ = __int__

    def __bool__(self):
        raise Unmodelled("uniform draw used as truth value")

    def __pow__(self, o):
        raise Unmodelled("uniform draw raised to a power")
    __rpow__ = __pow__

    def __neg__(self):
        raise Unmodelled("negated uniform draw")

    def __rsub__(self, o):
        raise Unmodelled("number minus uniform draw")

    def __rtruediv__(self, o):
        raise Unmodelled("number divided by uniform draw")


def _num(o):
    if isinstance(o, SymU):
        raise Unmodelled("arithmetic between two uniform draws")
    return float(o)


def _callsite(depth=2):
    f = sys._getframe(depth)
    return (f.f_code.co_filename, f.f_lineno)


class Source(object):
    """Stands in for the `random` module (and for numpy.random via NpRandom)."""

    def __init__(self, script=(), delays=None, max_branches=400, fold=True, max_exp=None, decider=None):
        self.max_exp = max_exp
        self.decider = decider   # callable(kind, info, pop, probs) -> branch index, used beyond the script
        self.script = list(script)
        self.pos = 0
        self.tape = []      # every call: (kind, info)
        self.branches = []  # branch points: dict(kind, probs, choice, info, site)
        self.delays = delays  # callable(k, rate) -> float or None
        self.nexp = 0
        self.max_branches = max_branches
        self.fold = fold

    # -- branch bookkeeping ---------------------------------------------------
    def _branch(self, kind, probs, info, site=None, pop=None):
        i = self.pos
        if i >= self.max_branches:
            raise TooDeep()
        if i < len(self.script):
            c = self.script[i]
        else:
            c = 0 if self.decider is None else self.decider(kind, info, pop, probs)
            self.script.append(c)
        if c >= len(probs):
            raise Unmodelled("script index out of range: the decision tree changed between re-executions")
        self.pos += 1
        self.branches.append({"kind": kind, "probs": probs, "choice": c, "info": info,
                              "site": site, "pop": pop})
        self.tape.append((kind, info, c, len(self.branches) - 1))
        return c

    # -- the random-module surface -------------------------------------------
    def random(self):
        self.tape.append(("random", None, None, None))
        return SymU(self)

    def expovariate(self, rate):
        rate = float(rate)
        k = self.nexp
        self.nexp += 1
        if self.max_exp is not None and self.nexp > self.max_exp:
            raise Runaway("more than %d waiting-time draws in one run" % self.max_exp)
        if rate == 0.0:
            raise ZeroDivisionError("float division by zero")  # what random.expovariate does
        d = (ExpDraw(1.0) if TAG_EXP else 1.0) if self.delays is None else self.delays(k, rate)
        self.tape.append(("exp", rate, float(d), None))
        return d

    def choice(self, seq):
        n = len(seq)
        if n == 0:
            raise IndexError("Cannot choose from an empty sequence")
        site = _callsite()
        pop = tuple(_freeze(x) for x in seq)
        if self.fold and len(self.tape) >= 3:
            # rejection sampling: the same choice at the same call site from the same population, separated from the
            # previous one by exactly one rejected comparison of a uniform draw - in whichever order the proposal and
            # the acceptance level are drawn (choice, random, reject | random, choice, reject -> choice, reject, random)
            last = self.tape[-3:]
            if last[0][0] == "choice":
                rest = last[1:]
                nrej = sum(1 for t in rest if (t[0] == "cmp" and t[2] == 1) or (t[0] == "cmpdet" and t[2] is False))
                nrnd = sum(1 for t in rest if t[0] == "random")
                if nrej == 1 and nrnd == 1:
                    b = self.branches[last[0][3]]
                    if b["site"] == site and b["pop"] == pop:
                        raise LoopBack(last[0][3])
        k = self._branch("choice", [1.0 / n] * n, {"n": n}, site, pop)
        return seq[k]

    def sample(self, population, k):
        pop = list(population)
        n = len(pop)
        if not 0 <= k <= n:
            raise ValueError("Sample larger than population or is negative")
        out = []
        for j in range(k):
            i = self._branch("sample", [1.0 / len(pop)] * len(pop), {"n": len(pop), "j": j, "k": k}, pop=tuple(_freeze(x) for x in pop))
            out.append(pop.pop(i))
        return out

    def shuffle(self, x):
        n = len(x)
        rest = list(x)
        out = []
        for j in range(n):
            i = self._branch("shuffle", [1.0 / len(rest)] * len(rest), {"n": len(rest)})
            out.append(rest.pop(i))
        x[:] = out

    def randrange(self, start, stop=None, step=1):
        r = range(start) if stop is None else range(start, stop, step)
        k = self._branch("randrange", [1.0 / len(r)] * len(r), {"n": len(r)})
        return r[k]

    def randint(self, a, b):
        return self.randrange(a, b + 1)

    def uniform(self, a, b):
        return SymU(self) * (b - a) + a if b > a else a

    def choices(self, population, weights=None, cum_weights=None, k=1):
        if cum_weights is not None:
            raise Unmodelled("choices(cum_weights=...)")
        pop = list(population)
        if weights is None:
            probs = [1.0 / len(pop)] * len(pop)
        else:
            tot = float(sum(weights))
            probs = [w / tot for w in weights]
        return [pop[self._branch("choices", probs, {"n": len(pop)})] for _ in range(k)]

    def seed(self, *a, **k):
        pass

    def __getattr__(self, name):
        raise Unmodelled("random.%s is not modelled by the scripted source" % name)


class NpRandom(object):
    """Stands in for numpy.random (only `binomial` is used by EoN)."""

    def __init__(self, src):
        self.src = src

    def binomial(self, n, p):
        n = int(n)
        p = float(p)
        probs = [math.comb(n, j) * p ** j * (1 - p) ** (n - j) for j in range(n + 1)]
        return self.src._branch("binomial", probs, {"n": n, "p": p})

    def random(self, *a):
        if a:
            raise Unmodelled("numpy.random.random(size)")
        return SymU(self.src)
    random_sample = random
    rand = random

    def seed(self, *a, **k):
        pass

    def __getattr__(self, name):
        raise Unmodelled("numpy.random.%s is not modelled by the scripted source" % name)


def _freeze(x):
    try:
        hash(x)
        return x
    except TypeError:
        return repr(x)


# ----------------------------------------------------------------------------
# running one call under a script
# ----------------------------------------------------------------------------
class Leaf(object):
    __slots__ = ("script", "branches", "tape", "result", "error", "loop", "prob", "toodeep")

    def __init__(self):
        self.result = None
        self.error = None
        self.loop = None
        self.prob = None
        self.toodeep = False


def run_scripted(fn, script, delays=None, max_branches=400, fold=True, max_exp=None, decider=None):
    """Run fn() with EoN.simulation.random / numpy.random replaced by the
    scripted source.  fn takes no arguments and returns the observation."""
    import EoN.simulation as sim
    import numpy as np
    src = Source(script, delays=delays, max_branches=max_branches, fold=fold, max_exp=max_exp, decider=decider)
    old_r = sim.random
    old_np = sim.np

    class _NP(object):
        def __getattr__(self, name):
            return getattr(np, name)
    fake_np = _NP()
    fake_np.random = NpRandom(src)
    sim.random = src
    sim.np = fake_np
    leaf = Leaf()
    try:
        try:
            leaf.result = fn()
        except LoopBack as lb:
            leaf.loop = lb.target
        except TooDeep:
            leaf.toodeep = True
        except Unmodelled:
            raise
        except Exception as ex:  # the code under test raised: an observation
            leaf.error = ex
    finally:
        sim.random = old_r
        sim.np = old_np
    leaf.script = src.script[:src.pos]
    leaf.branches = src.branches
    leaf.tape = src.tape
    return leaf


class Incomplete(list):
    """Leaves of an exploration that was stopped early by on_leaf (no probabilities)."""


def explore(fn, delays=None, max_leaves=200000, max_branches=400, prefix=(), max_exp=None, on_leaf=None, deep_is_error=False):
    """Enumerate the complete decision tree of fn under the scripted source.
    Returns the list of leaves (loop-back leaves folded away) with exact
    probabilities in leaf.prob.  Asserts prefix consistency on re-execution."""
    leaves = []
    script = list(prefix)
    while True:
        leaf = run_scripted(fn, script, delays=delays, max_branches=max_branches, max_exp=max_exp)
        if leaf.toodeep:
            if not deep_is_error:
                raise Unmodelled("decision tree deeper than %d branch points (unfolded loop?)" % max_branches)
            # the caller bounds the number of events (max_exp): a run that keeps drawing without ever
            # requesting the next waiting time does not terminate within the horizon - an observation about the code
            leaf.toodeep = False
            leaf.error = Runaway("more than %d random choices without completing the run within the event horizon" % max_branches)
        # prefix consistency: the part of the script we supplied was consumed as given
        leaves.append(leaf)
        if on_leaf is not None and on_leaf(leaf):
            return Incomplete(leaves)
        if len(leaves) > max_leaves:
            raise Unmodelled("more than %d leaves" % max_leaves)
        # next script in lexicographic order
        s = list(leaf.script)
        b = leaf.branches
        i = len(s) - 1
        while i >= len(prefix) and s[i] + 1 >= len(b[i]["probs"]):
            i -= 1
        if i < len(prefix):
            break
        script = s[:i] + [s[i] + 1]
    _fold(leaves, len(prefix))
    return [l for l in leaves if l.loop is None]


def _fold(leaves, depth0):
    """Assign exact probabilities, folding loop-back mass into the accepted
    branches of the decision point it returns to."""
    def rec(group, depth):
        # returns (list of (leaf, prob)), dict target -> mass)
        if len(group) == 1 and len(group[0].script) == depth:
            l = group[0]
            if l.loop is not None:
                return [], {l.loop: 1.0}
            return [(l, 1.0)], {}
        by = {}
        for l in group:
            by.setdefault(l.script[depth], []).append(l)
        res = []
        loops = {}
        probs = group[0].branches[depth]["probs"]
        for c, sub in by.items():
            p = probs[c]
            r, lp = rec(sub, depth + 1)
            res.extend((l, p * q) for l, q in r)
            for t, m in lp.items():
                loops[t] = loops.get(t, 0.0) + p * m
        if depth in loops:
            L = loops.pop(depth)
            if L >= 1.0:
                raise Unmodelled("rejection loop with zero acceptance probability")
            res = [(l, q / (1.0 - L)) for l, q in res]
            loops = {t: m / (1.0 - L) for t, m in loops.items()}
        return res, loops
    if not leaves:
        return
    res, loops = rec(leaves, depth0)
    if loops:
        raise Unmodelled("loop-back to a decision point outside the explored tree")
    for l, q in res:
        l.prob = q

"""Comparison of the implementation's decision tree with the rate-labelled
transition system of a specification (binding B1).

A *leaf* of the implementation's decision tree carries its exact probability,
the sequence of events read off the API result, and the sequence of rates
passed to expovariate.  The leaves are arranged in a trie of event histories;
at every trie node the conditional next-event distribution, the clock rate and
the stopping behaviour are compared with the specification state reached by the
same history."""

TOL = 1e-9


def close(a, b, tol=TOL):
    return abs(a - b) <= tol * max(1.0, abs(a), abs(b))


def compare(leaves, st0, succ, rate_unit, horizon=None, tol=TOL):
    """leaves: list of dict(prob, events=[ev...], exps=[rate...], info)
    succ(st) -> list of (event_key, rate_numerator, st2)
    horizon: maximal number of events a run can contain because of tmax (None = unbounded)
    Returns (problems, stats); problems are dicts(kind, history, detail)."""
    problems = []
    stats = {"nodes": 0, "max_depth": 0}

    def rec(group, depth, st, hist):
        stats["nodes"] += 1
        stats["max_depth"] = max(stats["max_depth"], depth)
        M = sum(l["prob"] for l in group)
        out = {}
        for key, r, st2 in succ(st):
            if key in out:
                problems.append({"kind": "spec-duplicate-event", "history": hist, "detail": repr(key)})
            out[key] = (r * rate_unit, st2)
        total = sum(r for r, _ in out.values())
        # clock: the depth-th expovariate call must carry the total rate of st
        for l in group:
            ex = l["exps"]
            if total > 0:
                if len(ex) <= depth:
                    problems.append({"kind": "no-clock-draw", "history": hist,
                                     "detail": "total rate %r but no waiting-time draw" % total})
                    break
                if not close(ex[depth], total, tol):
                    problems.append({"kind": "clock-rate", "history": hist,
                                     "detail": "expovariate(%r) but the chain's total rate is %r" % (ex[depth], total)})
                    break
            else:
                if len(ex) > depth:
                    problems.append({"kind": "clock-rate", "history": hist,
                                     "detail": "waiting time drawn with rate %r in a state of total rate 0" % ex[depth]})
                    break
        at_horizon = horizon is not None and depth >= horizon
        by = {}
        ended = []
        for l in group:
            if len(l["events"]) > depth:
                by.setdefault(l["events"][depth], []).append(l)
            else:
                ended.append(l)
        if at_horizon:
            if by:
                problems.append({"kind": "event-beyond-horizon", "history": hist, "detail": repr(sorted(by, key=repr))})
            return
        if total == 0:
            if by:
                problems.append({"kind": "event-in-terminal-state", "history": hist,
                                 "detail": "events %r although no transition is enabled" % sorted(by, key=repr)})
            return
        if ended:
            pm = sum(l["prob"] for l in ended)
            problems.append({"kind": "stopped-early", "history": hist,
                             "detail": "run ends w.p. %r in a state of total rate %r" % (pm / M, total)})
        for key in by:
            if key not in out:
                problems.append({"kind": "impossible-event", "history": hist,
                                 "detail": "event %r is not enabled in the specification state %r" % (key, st)})
        for key, (r, st2) in out.items():
            pi = sum(l["prob"] for l in by.get(key, [])) / M
            ps = r / total
            if not close(pi, ps, tol):
                problems.append({"kind": "missing-event" if pi == 0 else "probability", "history": hist,
                                 "detail": "event %r: implementation %r, chain %r" % (key, pi, ps)})
        for key, sub in by.items():
            if key in out:
                rec(sub, depth + 1, out[key][1], hist + [key])

    if leaves:
        rec(leaves, 0, st0, [])
    return problems, stats

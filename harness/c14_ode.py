"""C14, ODE half - results of the ODE entry points depend on the structure of the
contact network, not on node names or on insertion / nodelist order.

For every ODE entry point that takes a graph (the 28 graph wrappers of
harness/c06_table.py; the eight node-level ones also with an explicit `nodelist`
in several orders and with per-node initial arrays), every scenario of a small
family emitted by TLC from specs/InitCond.tla, every labelling (identity,
permuted ints, shifted/negative ints, strings, tuples, frozensets, mixed types)
and every insertion order of nodes and edges, the real entry point is called
on the relabelled graph with its inputs mapped through the relabelling.

Oracles
 (a) SPEC: index 0 of every returned series (per-node series mapped back through
     `nodelist` and the label map) must equal the value TLC emitted for the
     UNLABELLED scenario - InitCond is written over an abstract node set; that the
     emitted records are closed under every permutation of the nodes is checked
     here on the records of all labelled graphs on <= MaxN nodes.
 (b) CODE-vs-CODE: the whole returned trajectory must equal the run of the same
     entry point on the identity-labelled, identity-ordered graph at 1e-9*N.
"""
import itertools
import random

import numpy as np

from . import common
from . import c06_init as ci
from .c06_table import ENTRIES, SERIES

# 1-based spec nodes, as in the spec
GRAPHS = [
    (4, [(1, 2), (2, 3), (3, 4)]),                              # path
    (5, [(1, 2), (1, 3), (1, 4)]),                              # star + isolated node
    (5, [(1, 2), (1, 3), (2, 3), (3, 4), (4, 5)]),              # triangle with a tail
    (6, [(1, 2), (1, 3), (2, 4), (2, 5), (3, 6)]),              # tree
    (5, [(1, 2), (2, 3), (3, 4), (4, 5), (1, 5)]),              # cycle
    (5, [(1, 2), (3, 4), (4, 5)]),                              # two components
]
LABEL_KINDS = ("identity", "permuted-ints", "shifted-ints", "strings", "tuples", "frozensets", "mixed")
ORDER_KINDS = ("identity", "reversed", "shuffle1", "shuffle2")
NODE_LEVEL = ("node_rho", "pure")
TOL = 1e-9

SC = []        # scenarios (set before forking)
EON = None


# ---------------------------------------------------------------------------
# labellings and insertion orders
# ---------------------------------------------------------------------------
def label_map(kind, n, rng):
    """spec node u (0-based) -> label"""
    if kind == "identity":
        return list(range(n))
    if kind == "permuted-ints":
        p = list(range(n))
        while p == list(range(n)):
            rng.shuffle(p)
        return p
    if kind == "shifted-ints":
        vals = [-7, -3, -1, 10, 11, 25, 40, -100][:n]
        rng.shuffle(vals)
        return vals
    if kind == "strings":
        vals = ["zeta", "b", "node 3", "A", "mm", "0", "yy", "c"][:n]
        rng.shuffle(vals)
        return vals
    if kind == "tuples":
        vals = [(0, 1), (1, 0), ("a", 2), (2,), (0, 0, 0), (5, "x"), (9, 9), (3, 1)][:n]
        rng.shuffle(vals)
        return vals
    if kind == "frozensets":
        vals = [frozenset([1]), frozenset([1, 2]), frozenset(["a"]), frozenset(), frozenset([0, 3]),
                frozenset([7]), frozenset([2]), frozenset(["b", 1])][:n]
        rng.shuffle(vals)
        return vals
    if kind == "mixed":
        vals = [3, "three", (3,), frozenset([3]), -2.5, "0", (0, "0"), 17][:n]
        rng.shuffle(vals)
        return vals
    raise KeyError(kind)


def insertion(kind, n, edges, rng):
    """-> (node order, edge list with orientation) in spec nodes"""
    nodes = list(range(n))
    es = [tuple(e) for e in edges]
    if kind == "identity":
        return nodes, es
    if kind == "reversed":
        return nodes[::-1], [(v, u) for u, v in es[::-1]]
    rng.shuffle(nodes)
    rng.shuffle(es)
    es = [(v, u) if rng.random() < 0.5 else (u, v) for u, v in es]
    return nodes, es


def edge_weight(u, v):
    return 0.5 + ((u * 7 + v * 7 + u * v) % 4) * 0.5        # symmetric in (u, v)


def node_weight(u):
    return 0.5 + (u % 3) * 0.75


def _fresh(x):
    """an equal but distinct object (labels read from an edge list are created afresh for every edge: two occurrences of
    one node are equal, not identical)"""
    if isinstance(x, tuple):
        return tuple(list(x))
    if isinstance(x, frozenset):
        return frozenset(set(x))
    if isinstance(x, str):
        return "".join(list(x))
    if isinstance(x, int) and not isinstance(x, bool):
        return int(str(x))
    if isinstance(x, float):
        return float(repr(x))
    return x


def build_graph(sc, lab, norder, eorder, weighted):
    import networkx as nx
    if weighted == "directed":
        # a directed contact network in which every contact is reciprocated with a DIFFERENT weight: the result may
        # depend on the arcs and their weights, not on the order in which they (or the nodes) were inserted
        G = nx.DiGraph()
        for u in norder:
            G.add_node(lab[u], g=node_weight(u))
        for k, (u, v) in enumerate(eorder):
            a, b = (u, v) if k % 2 == 0 else (v, u)          # the insertion order of the two arcs varies too
            G.add_edge(lab[a], lab[b], w=edge_weight(a, b) + (0.25 if a < b else 0.0))
            G.add_edge(lab[b], lab[a], w=edge_weight(a, b) + (0.25 if b < a else 0.0))
        return G
    G = nx.Graph()
    for u in norder:
        if weighted:
            G.add_node(lab[u], g=node_weight(u))
        else:
            G.add_node(lab[u])
    for u, v in eorder:
        if weighted:
            G.add_edge(_fresh(lab[u]), _fresh(lab[v]), w=edge_weight(u, v))
        else:
            G.add_edge(_fresh(lab[u]), _fresh(lab[v]))
    return G


def nodelist_order(kind, n, norder, rng):
    """order of spec nodes the per-node arrays are in; None = nodelist omitted (G's order)"""
    if kind is None:
        return None
    if kind == "sorted":
        return list(range(n))
    if kind == "reversed":
        return list(range(n))[::-1]
    p = list(range(n))
    rng.shuffle(p)
    return p


# ---------------------------------------------------------------------------
# one call
# ---------------------------------------------------------------------------
def variants(e, sc):
    """ways of calling a node-level entry point: (variant, nodelist kind)"""
    if e["call"] == "node_rho":
        out = [("rho", None), ("rho", "sorted"), ("rho", "reversed"), ("rho", "random")] if sc.ic == "rho" else \
              [("arrays", "sorted"), ("arrays", "reversed"), ("arrays", "random")]
        return out
    if e["call"] == "pure":
        return [("sets", None), ("sets", "sorted"), ("sets", "reversed"), ("sets", "random")]
    return [("std", None)]


def applicable(e, sc):
    if e["cat"] != "graph":
        return False
    if e["call"] == "node_rho":
        # rho scenarios through rho; explicit scenarios through the per-node arrays Y0 (X0)
        return sc.ic == "rho" or sc.ic == "explicit" or (sc.ic == "explicit+recovered" and e["kind"] == "SIR")
    return sc.ic in e["ics"]


def make_call(e, sc, G, lab, eff, variant, weighted, full, tau, gamma, grid):
    fn = getattr(EON, e["name"])
    kw = {"tmax": grid[1], "tmin": grid[0]}
    if not e["disc"]:
        kw["tcount"] = grid[2]
    if e["full"]:
        kw["return_full_data"] = full
    inf = [lab[u] for u in sc.inf]
    rec = [lab[u] for u in sc.rec]
    c = e["call"]
    if c in NODE_LEVEL:
        if weighted:
            kw["transmission_weight"] = "w"
            kw["recovery_weight"] = "g"
        if eff is not None:
            kw["nodelist"] = [lab[u] for u in eff]
        if c == "pure":
            if rec:
                kw["initial_recovereds"] = rec
            return fn, (G, tau, gamma, inf), kw
        if variant == "rho":
            kw["rho"] = sc.rho_f()
        else:
            Y = sc.val("Y")
            X = sc.val("X")
            kw["Y0"] = np.array([Y[u] for u in eff])
            if e["kind"] == "SIR":
                kw["X0"] = np.array([X[u] for u in eff])
        return fn, (G, tau, gamma), kw
    rates = (tau,) if e["disc"] else (tau, gamma)
    if sc.ic == "rho":
        kw["rho"] = sc.rho_f()
    else:
        kw["initial_infecteds"] = inf
        if rec:
            kw["initial_recovereds"] = rec
    return fn, (G,) + rates, kw


def to_spec_order(e, sc, ret, eff, norder):
    """per-node series (node-level entry points) mapped back to spec node order"""
    if e["call"] not in NODE_LEVEL or not isinstance(ret, tuple):
        return ret
    order = eff if eff is not None else norder          # position j holds spec node order[j]
    inv = np.argsort(np.array(order))                   # spec node u is at position inv[u]
    n = sc.n
    out = []
    for x in ret:
        a = x
        if isinstance(x, np.ndarray) and x.ndim == 2 and x.shape[0] == n:
            a = x[inv]
        elif isinstance(x, np.ndarray) and x.ndim == 3 and x.shape[:2] == (n, n):
            a = x[np.ix_(inv, inv)]
        out.append(a)
    return tuple(out)


def call(e, sc, lab, norder, eorder, nlkind, variant, weighted, full, tau, gamma, grid, rng):
    """-> dict(exc | ret (spec order), raw, order used)"""
    G = build_graph(sc, lab, norder, eorder, weighted)
    eff = nodelist_order(nlkind, sc.n, norder, rng)
    fn, args, kw = make_call(e, sc, G, lab, eff, variant, weighted, full, tau, gamma, grid)
    old = np.seterr(all="ignore")
    try:
        raw = fn(*args, **kw)
    except Exception as ex:
        import traceback
        tb = traceback.extract_tb(ex.__traceback__)
        where = "%s:%d" % (tb[-1].filename.split("/")[-1], tb[-1].lineno) if tb else "?"
        return {"exc": ci.exc_class(ex), "msg": "%s: %s at %s" % (type(ex).__name__, str(ex)[:160], where)}
    finally:
        np.seterr(**old)
    return {"exc": None, "raw": raw, "ret": to_spec_order(e, sc, raw, eff, norder), "eff": eff}


def _series_diff(a, b):
    """max abs difference of two returned objects (None = not comparable)"""
    if isinstance(a, dict) or isinstance(b, dict):
        if not (isinstance(a, dict) and isinstance(b, dict)) or sorted(a.keys(), key=repr) != sorted(b.keys(), key=repr):
            return None
        return max([_series_diff(a[k], b[k]) or 0.0 for k in a] + [0.0])
    x = np.asarray(a, dtype=float)
    y = np.asarray(b, dtype=float)
    if x.shape != y.shape:
        return None
    if x.size == 0:
        return 0.0
    d = np.abs(x - y)
    if not np.all(np.isfinite(d)):
        return float("inf") if not (np.array_equal(np.isnan(x), np.isnan(y))) else float(np.nanmax(np.where(np.isfinite(d), d, 0.0)))
    return float(d.max())


def run_group(task):
    """task = (entry, scenario index, variant, nodelist kind, weighted, full, tau, gamma, grid, combos, seed)
    combos: list of (label kind, order kind, repetition).  Runs the identity baseline once and every
    relabelled call; returns the failures (not present in the baseline)."""
    import warnings
    warnings.filterwarnings("ignore")
    name, si, variant, nlkind, weighted, full, tau, gamma, grid, combos, seed = task
    e = ENTRIES[name]
    sc = SC[si]
    out = {"fails": [], "notes": [], "calls": 0, "nontrivial": 0, "task": task[:9]}
    rng0 = random.Random(seed)
    ident = list(range(sc.n))
    base_nl = None if nlkind is None else "sorted"
    base = call(e, sc, ident, ident, [tuple(x) for x in sc.edges], base_nl, variant, weighted, full, tau, gamma, grid, rng0)
    out["calls"] += 1
    if base["exc"]:
        out["notes"].append("%s (%s%s): the identity-labelled call raises %s - relabelled runs not judged (C06 territory)"
                            % (name, variant, "" if nlkind is None else ",nodelist", base["msg"]))
        return out
    bprob, _, _ = ci.compare_row0(e, sc, full, base["ret"])
    bcls = set(p[0] for p in bprob)
    moved = False
    try:
        s_ = np.asarray(base["ret"][1], dtype=float)
        moved = bool(np.max(np.abs(s_[..., -1] - s_[..., 0])) > 1e-6)
    except Exception:
        pass
    for (lk, ok, rep) in combos:
        rng = random.Random("%s|%s|%s|%s|%d|%d" % (name, si, lk, ok, rep, seed))
        lab = label_map(lk, sc.n, rng)
        norder, eorder = insertion(ok, sc.n, sc.edges, rng)
        r = call(e, sc, lab, norder, eorder, nlkind, variant, weighted, full, tau, gamma, grid, rng)
        out["calls"] += 1
        if moved:
            out["nontrivial"] += 1
        ctx = {"entry": name, "label_kind": lk, "order_kind": ok, "labels": [repr(x) for x in lab], "node_order": norder,
               "edge_order": eorder, "nodelist": None if r.get("eff") is None else r["eff"], "variant": variant,
               "weighted": weighted, "return_full_data": full, "tau_or_p": tau, "gamma": gamma, "grid": list(grid),
               "scenario": sc.brief(), "spec_record": sc.d, "seed": seed, "rep": rep}
        if r["exc"]:
            out["fails"].append((lk, ok, "exception:" + r["exc"], "%s raises %s on the relabelled graph (labels %s, node order %s, nodelist %s) "
                                 "but returns on the identity-labelled one" % (name, r["msg"], ctx["labels"], norder, ctx["nodelist"]), ctx))
            continue
        # (b) trajectory against the identity run
        tol = TOL * sc.n
        worst, wpos, totals_ok, pernode_bad = 0.0, None, True, False
        if len(r["ret"]) != len(base["ret"]):
            out["fails"].append((lk, ok, "trajectory", "%s returns %d series on the relabelled graph, %d on the identity-labelled one"
                                 % (name, len(r["ret"]), len(base["ret"])), ctx))
            continue
        for pos, (a, b) in enumerate(zip(r["ret"], base["ret"])):
            d = _series_diff(a, b)
            if d is None:
                d = float("inf")
            if d > tol:
                pn = isinstance(b, np.ndarray) and b.ndim >= 2 and e["call"] in NODE_LEVEL
                if pn:
                    pernode_bad = True
                    # the same numbers attached to other nodes?  then the totals over the nodes agree
                    ax = tuple(range(np.ndim(b) - 1))
                    ds = _series_diff(np.asarray(a, dtype=float).sum(axis=ax), np.asarray(b, dtype=float).sum(axis=ax)) \
                        if np.shape(a) == np.shape(b) else None
                    if ds is None or ds > tol * sc.n:
                        totals_ok = False
                else:
                    totals_ok = False
            if d > worst:
                worst, wpos = d, pos
        if worst > tol:
            cls = "trajectory" if not totals_ok or not pernode_bad else "per-node-mapping"
            out["fails"].append((lk, ok, cls, "%s: returned series %d differs from the identity-labelled run by %.3g (> 1e-9*N = %.1g) "
                                 "[labels %s, node order %s, nodelist %s, %s]"
                                 % (name, wpos, worst, tol, ctx["labels"], norder, ctx["nodelist"], variant), ctx))
        # (a) spec oracle (after (b): a wrong per-node ORDER is only diagnosed when the totals are right)
        probs, _, stmt = ci.compare_row0(e, sc, full, r["ret"])
        for fc, what in probs:
            if fc in bcls:
                continue
            cls = fc if fc.startswith("row0:") else "row0:" + fc.split(":", 1)[-1]
            # is it only the per-node mapping? (series right as a multiset of nodes but in another order)
            if e["call"] in NODE_LEVEL and totals_ok and _explained_by_other_order(e, sc, full, r, norder):
                cls = "per-node-mapping"
            out["fails"].append((lk, ok, cls, what + " [labels %s, node order %s, nodelist %s]" % (ctx["labels"], norder, ctx["nodelist"]), ctx))
    return out


def _explained_by_other_order(e, sc, full, r, norder):
    """row 0 wrong in nodelist order but right when the per-node series are read in G's order"""
    if r.get("eff") is None:
        return False
    alt = to_spec_order(e, sc, r["raw"], None, norder)
    probs, _, _ = ci.compare_row0(e, sc, full, alt)
    return not probs


# ---------------------------------------------------------------------------
# permutation closure of the emitted InitCond records
# ---------------------------------------------------------------------------
NODE_KEYS = ("X", "Y", "Z")
PAIR_KEYS = ("XY", "XX")
SKIP_KEYS = ("n", "edges", "mode", "inf", "rec", "rho", "den")


def closure_check(scen):
    """every emitted record, permuted by every bijection of its nodes, is again an emitted record with
    the same label-free quantities and the node-indexed quantities permuted -> (checked, problems)"""
    idx = {}
    for s in scen:
        idx[(s.n, frozenset(frozenset(e) for e in s.edges), s.mode, s.rho, frozenset(s.inf), frozenset(s.rec))] = s
    checked, problems = 0, []
    for s in scen:
        for p in itertools.permutations(range(s.n)):
            key = (s.n, frozenset(frozenset((p[u], p[v])) for u, v in s.edges), s.mode, s.rho,
                   frozenset(p[u] for u in s.inf), frozenset(p[u] for u in s.rec))
            t = idx.get(key)
            checked += 1
            if t is None:
                problems.append("permuted scenario not emitted: %s under %s" % (s.brief(), p))
                continue
            for k, v in s.d.items():
                if k in SKIP_KEYS:
                    continue
                if k in NODE_KEYS:
                    ok = all(t.d[k][p[u]] == v[u] for u in range(s.n))
                elif k in PAIR_KEYS:
                    ok = all(t.d[k][p[u]][p[w]] == v[u][w] for u in range(s.n) for w in range(s.n))
                else:
                    ok = t.d[k] == v
                if not ok:
                    problems.append("InitCond quantity %s does not commute with the permutation %s on %s" % (k, p, s.brief()))
            if len(problems) > 5:
                return checked, problems
    return checked, problems


# ---------------------------------------------------------------------------
# the part
# ---------------------------------------------------------------------------
def _pick(scen, per_ic):
    by = {}
    for i, s in enumerate(scen):
        by.setdefault((s.n, tuple(s.edges)), {}).setdefault(s.ic, []).append(i)
    out = []
    for g in sorted(by):
        for ic, lst in sorted(by[g].items()):
            step = max(1, len(lst) // per_ic)
            out += lst[::step][:per_ic]
    return out


def run_ode_part(chk, tier, seed):
    global EON
    EON = common.import_eon()
    ci.EON = EON
    quick = tier != "thorough"
    import threading
    box = {}

    def bg(key, *a, **k):
        try:
            box[key] = ci.run_initcond(*a, **k)
        except Exception as ex:
            box[key] = ex
    graphs = GRAPHS[:4] if quick else GRAPHS
    th = [threading.Thread(target=bg, args=("fixed", 2, [(1, 4)]), kwargs={"fixed": graphs, "max_inf": 2, "max_rec": 1, "workers": 8}),
          threading.Thread(target=bg, args=("all", 3 if quick else 4, [(1, 4), (1, 2)]), kwargs={"workers": 8})]
    for t in th:
        t.start()
    for t in th:
        t.join()
    for v in box.values():
        if isinstance(v, Exception):
            raise v
    scen, res = box["fixed"]
    scen_all, res_all = box["all"]
    chk.add_tlc("InitCond fixed graphs (C14 ODE family)", res)
    chk.add_tlc("InitCond all labelled graphs on 2..%d nodes (permutation closure of the emitted records)" % (3 if quick else 4), res_all)
    for r_ in (res, res_all):
        if r_.violation:
            chk.violation("InitCond|relabelling:spec|" + r_.violation[:50], "TLC: " + r_.violation, {})
    checked, problems = closure_check(scen_all)
    if checked == 0:
        raise common.MachineryFailure("vacuous permutation closure check")
    for p_ in problems:
        chk.violation("InitCond|relabelling:spec|symmetry", p_, {"problem": p_})
    chk.part("ODE InitCond permutation closure", records=len(scen_all), permuted_records_compared=checked)

    SC[:] = scen
    sel = _pick(scen, 1)
    reps = 1 if quick else 2
    orders = ORDER_KINDS if quick else ORDER_KINDS + ("shuffle3", "shuffle4", "shuffle5", "shuffle6")
    combos = [(lk, ok, rep) for lk in LABEL_KINDS for ok in orders for rep in range(reps)
              if not (lk == "identity" and (ok == "identity" or rep > 0))]
    tasks = []
    for si in sel:
        sc = scen[si]
        for name, e in sorted(ENTRIES.items()):
            if not applicable(e, sc):
                continue
            grid = (0, 3, None) if e["disc"] else (0, 2, 5)
            rates = [(0.5, 1.0)] if e["disc"] else [(1.0, 1.0) if quick else (2.0, 0.5)]
            fulls = (True,) if e["full"] else (False,)
            if not quick and e["full"] and e["call"] not in NODE_LEVEL:
                fulls = (True, False)
            for (variant, nlkind) in variants(e, sc):
                for weighted in ((False, True, "directed") if e["call"] in NODE_LEVEL else (False,)):
                    if weighted and (quick and sc.ic == "explicit+recovered"):
                        continue
                    for full in fulls:
                        for tau, gamma in rates:
                            cs = combos
                            if e["call"] in NODE_LEVEL and quick:
                                # the node-level solvers are slow: every (variant, weights) group takes a
                                # different third of the label x order combinations
                                k = (len(tasks)) % 3
                                cs = combos[k::3]
                            tasks.append((name, si, variant, nlkind, weighted, full, tau, gamma, grid, cs, seed))
    results = common.pool_map(run_group, tasks, chunksize=1)

    # ---- verdicts: one key per entry point x failure class x label kind -----------------------------
    fails = {}
    exercised = {}
    entries = set()
    for t, r in zip(tasks, results):
        entries.add(t[0])
        chk.cov["evaluations"] += r["calls"]
        chk.cov["traces_validated_against_impl"] += r["calls"] - 1 if r["calls"] > 1 else 0
        chk.cov["distinct_nontrivial"] += r["nontrivial"]
        for n_ in r["notes"]:
            chk.note(n_)
        for lk, ok, rep in t[9]:
            exercised.setdefault(t[0], set()).add(lk)
        for lk, ok, cls, what, ctx in r["fails"]:
            fails.setdefault((t[0], cls), {}).setdefault(lk, []).append((ok, what, ctx))
    # one row-0 class per entry point: the union of the series that deviate somewhere
    merged = {}
    for (name, cls), bykind in fails.items():
        if cls.startswith("row0:"):
            names_ = merged.setdefault(name, set())
            names_.update(x for x in cls[5:].replace("<->", ",").split(",") if x)
    fails2 = {}
    for (name, cls), bykind in fails.items():
        if cls.startswith("row0:"):
            cls = "row0:" + ",".join(sorted(merged[name]))
        d = fails2.setdefault((name, cls), {})
        for lk, occ in bykind.items():
            d.setdefault(lk, []).extend(occ)
    fails = fails2
    for (name, cls), bykind in sorted(fails.items()):
        if set(bykind) == exercised[name] and len(bykind) > 1:
            groups = {"any": [x for v in bykind.values() for x in v]}
        else:
            groups = bykind
        for lk, occ in sorted(groups.items()):
            suffix = "" if any(o[0] == "identity" for o in occ) else "+order"
            if lk == "identity":
                suffix = "+order"
            key = "%s|relabelling:%s%s|%s" % (name, lk, suffix, cls)
            first = min(occ, key=lambda o: (o[2]["scenario"]["n"], o[2]["label_kind"] != "identity", len(o[1])))
            for _ in occ:
                chk.violation(key, first[1] + "  [scenario %s]" % first[2]["scenario"], first[2])
    chk.part("ODE relabelling", entry_points=len(entries), scenarios=len(sel), groups=len(tasks),
             label_kinds=len(LABEL_KINDS), insertion_orders=len(orders), combos_per_group=len(combos))
    if tasks:
        t = tasks[len(tasks) // 2]
        chk.sample({"ode_group": {"entry": t[0], "scenario": scen[t[1]].brief(), "variant": t[2], "nodelist": t[3], "weighted": t[4],
                                  "return_full_data": t[5], "combos": [list(c) for c in t[9][:4]]}})
    chk.assumptions.append("C14 ODE half: row 0 is compared with the InitCond value TLC emitted for the unlabelled scenario (spec oracle); "
                           "the rest of each trajectory is compared with the identity-labelled, identity-ordered run of the same entry point "
                           "at 1e-9*N - a code-vs-code comparison justified by the permutation symmetry of the specification, not a "
                           "spec-computed value")


def _replay(path):
    import json
    global EON
    EON = common.import_eon()
    ci.EON = EON
    with open(path) as fh:
        c = json.load(fh)["replay"]
    SC[:] = [ci.Scenario(c["spec_record"])]
    g = c["grid"]
    task = (c["entry"], 0, c["variant"], None if c["nodelist"] is None else "x", c["weighted"], c["return_full_data"], c["tau_or_p"],
            c["gamma"], (g[0], g[1], g[2]), [(c["label_kind"], c["order_kind"], c["rep"])], c["seed"])
    # the nodelist kind is not stored by name: try all and report any failure
    bad = False
    for nl in ((None,) if c["nodelist"] is None else ("sorted", "reversed", "random")):
        r = run_group(task[:3] + (nl,) + task[4:])
        for lk, ok, cls, what, _ in r["fails"]:
            print("  %s: %s" % (cls, what))
            bad = True
    print("replay: %s" % ("still failing" if bad else "no longer failing"))
    return 1 if bad else 0


if __name__ == "__main__":
    import os
    import sys

    def _main():
        rp = os.environ.get("EON_VERIF_REPLAY")
        if rp:
            return _replay(rp)
        chk = common.Check("C14", "model_checking")
        run_ode_part(chk, chk.tier, chk.seed)
        return chk.finish("standalone driver of the ODE half of C14 (see harness/c14_ode.py)")
    common.run_main(_main)
